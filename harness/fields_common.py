"""Helpers shared by the C12 (field operators) and C13 (circulation / flux) checks.

Everything here is the harness' OWN textbook geometry (coordinate maps, local orthonormal frames, exact
evaluation at Pythagorean points); nothing is taken from the library's formula tables.

Conventions of the library under test (core/coordinate_systems): cylindrical (r, theta, z); spherical
(r, theta, phi) with theta the AZIMUTHAL and phi the POLAR angle:
    x = r sin(phi) cos(theta), y = r sin(phi) sin(theta), z = r cos(phi).
"""
from __future__ import annotations

from fractions import Fraction

import sympy as sp

LIMIT = 2 ** 31 - 1

X, Y, Z = sp.symbols("x_c y_c z_c", real=True)          # the harness' own Cartesian symbols
THETA, PHI = sp.symbols("Theta_v Phi_v", real=True)      # the (transcendental) angles kept symbolic


# ------------------------------------------------------------------------------------------------
# rationals <-> JSON pairs
def frac(pair) -> Fraction:
    return Fraction(int(pair[0]), int(pair[1]))


def rat(pair) -> sp.Rational:
    return sp.Rational(int(pair[0]), int(pair[1]))


def pair_of(v):
    """sympy Rational -> [n, d] or None when it is not a rational that fits TLC's integers."""
    v = sp.sympify(v)
    if not v.is_Rational:
        return None
    n, d = int(v.p), int(v.q)
    if abs(n) > LIMIT or d > LIMIT:
        return None
    return [n, d]


# ------------------------------------------------------------------------------------------------
# polynomials given as term lists [[i, j, k], [n, d]]
def poly_expr(terms, x=X, y=Y, z=Z):
    return sp.Add(*[rat(c) * x ** e[0] * y ** e[1] * z ** e[2] for e, c in terms]) if terms else sp.S.Zero


def terms_of(expr, max_exp: int):
    """Cartesian polynomial (in X, Y, Z) -> term list, or None when it is not a polynomial with small
    rational coefficients and exponents <= max_exp."""
    p = None
    for attempt in (sp.expand, lambda v: sp.expand(sp.simplify(v))):
        try:
            p = sp.Poly(attempt(sp.sympify(expr)), X, Y, Z)
            break
        except sp.PolynomialError:
            p = None
    if p is None:
        return None
    out = []
    for (i, j, k), c in p.terms():
        pr = pair_of(c)
        if pr is None or max(i, j, k) > max_exp:
            return None
        if c != 0:
            out.append([[int(i), int(j), int(k)], pr])
    return out


def basis_terms(model_terms):
    """The emitted description of a field (list of {c, e}) -> per-component term lists.
    Scalar fields (c = 0) give one list; vector fields three."""
    if model_terms and model_terms[0]["c"] == 0:
        comps = [[]]
        for t in model_terms:
            comps[0].append([list(t["e"]), [1, 1]])
        return [merge(comps[0])]
    comps = [[], [], []]
    for t in model_terms:
        comps[t["c"] - 1].append([list(t["e"]), [1, 1]])
    return [merge(c) for c in comps]


def merge(terms):
    acc = {}
    for e, c in terms:
        acc[tuple(e)] = acc.get(tuple(e), Fraction(0)) + frac(c)
    return [[list(e), [v.numerator, v.denominator]] for e, v in sorted(acc.items()) if v != 0]


def field_name(comps) -> str:
    def one(ts):
        return str(poly_expr(ts, *sp.symbols("x y z"))).replace(" ", "")
    return "(" + ",".join(one(c) for c in comps) + ")"


# ------------------------------------------------------------------------------------------------
# exact geometry at a Pythagorean point
class ExactPoint:
    """A rational point whose cylindrical radius rho and spherical radius R are rational."""

    def __init__(self, pt):
        self.x, self.y, self.z = [rat(p) for p in pt]
        self.rho = sp.sqrt(self.x ** 2 + self.y ** 2)
        self.R = sp.sqrt(self.x ** 2 + self.y ** 2 + self.z ** 2)
        if not (self.rho.is_Rational and self.R.is_Rational and self.rho != 0 and self.x != 0 and self.z != 0):
            raise ValueError(f"not an exact generic point: {pt}")
        self.st, self.ct = self.y / self.rho, self.x / self.rho          # azimuth
        self.sp_, self.cp = self.rho / self.R, self.z / self.R            # polar angle
        self.pairs = [pair_of(self.x), pair_of(self.y), pair_of(self.z)]

    def cart_subs(self):
        return {X: self.x, Y: self.y, Z: self.z}


def eval_at(expr, system: str, scalars, pt: ExactPoint):
    """Value of a library expression over the base scalars of `system` at the exact point.  Sines and
    cosines of the angles are rational there; a bare angle (theta, phi) becomes the symbol THETA / PHI."""
    expr = sp.sympify(expr)
    a, b, c = scalars
    if system == "cart":
        return expr.subs({a: pt.x, b: pt.y, c: pt.z})
    if system == "cyl":
        trig = {sp.sin(b): pt.st, sp.cos(b): pt.ct, sp.tan(b): pt.st / pt.ct, sp.cot(b): pt.ct / pt.st}
        rest = {a: pt.rho, c: pt.z, b: THETA}
    else:
        trig = {sp.sin(b): pt.st, sp.cos(b): pt.ct, sp.tan(b): pt.st / pt.ct, sp.cot(b): pt.ct / pt.st,
                sp.sin(c): pt.sp_, sp.cos(c): pt.cp, sp.tan(c): pt.sp_ / pt.cp, sp.cot(c): pt.cp / pt.sp_}
        rest = {a: pt.R, b: THETA, c: PHI}
    out = expr.subs(trig)
    if out.has(sp.sin, sp.cos, sp.tan, sp.cot):
        out = sp.expand_trig(out).subs(trig)
    return out.subs(rest)


def rotate_back(system: str, comps, pt: ExactPoint):
    """Components in the local orthonormal frame of `system` at pt -> Cartesian components."""
    v = list(comps) + [sp.S.Zero] * (3 - len(comps))
    if system == "cart":
        return v
    s, c = pt.st, pt.ct
    if system == "cyl":
        vr, vt, vz = v
        return [vr * c - vt * s, vr * s + vt * c, vz]
    vr, vt, vp = v
    sp_, cp = pt.sp_, pt.cp
    return [vr * sp_ * c - vt * s + vp * cp * c,
            vr * sp_ * s + vt * c + vp * cp * s,
            vr * cp - vp * sp_]


# ------------------------------------------------------------------------------------------------
# a Cartesian field written in curvilinear coordinates and local orthonormal components
def cart_coords_in(system: str, q):
    """x, y, z as functions of the coordinates q of `system`."""
    a, b, c = q
    if system == "cart":
        return a, b, c
    if system == "cyl":
        return a * sp.cos(b), a * sp.sin(b), c
    return a * sp.sin(c) * sp.cos(b), a * sp.sin(c) * sp.sin(b), a * sp.cos(c)


def frame_in(system: str, q):
    """The local orthonormal frame (rows: unit vectors as Cartesian triples) in the coordinates q."""
    a, b, c = q
    if system == "cart":
        return [(1, 0, 0), (0, 1, 0), (0, 0, 1)]
    if system == "cyl":
        return [(sp.cos(b), sp.sin(b), 0), (-sp.sin(b), sp.cos(b), 0), (0, 0, 1)]
    return [(sp.sin(c) * sp.cos(b), sp.sin(c) * sp.sin(b), sp.cos(c)),
            (-sp.sin(b), sp.cos(b), 0),
            (sp.cos(c) * sp.cos(b), sp.cos(c) * sp.sin(b), -sp.sin(c))]


def scalar_in(system: str, terms, q):
    return poly_expr(terms, *cart_coords_in(system, q))


def vector_in(system: str, comps, q):
    """Cartesian polynomial components -> components along the local frame, as functions of q."""
    xyz = cart_coords_in(system, q)
    f = [poly_expr(t, *xyz) for t in comps]
    return [sum(f[i] * e[i] for i in range(3)) for e in frame_in(system, q)]


# ------------------------------------------------------------------------------------------------
# curvilinear coordinates and frames as functions of the harness' Cartesian symbols (reverse route)
RHO = sp.sqrt(X ** 2 + Y ** 2)
RAD = sp.sqrt(X ** 2 + Y ** 2 + Z ** 2)
AZ = sp.atan2(Y, X)
POL = sp.acos(Z / RAD)


def curv_coords_of_cart(system: str):
    if system == "cyl":
        return RHO, AZ, Z
    return RAD, AZ, POL


def frame_of_cart(system: str):
    if system == "cyl":
        return [(X / RHO, Y / RHO, 0), (-Y / RHO, X / RHO, 0), (0, 0, 1)]
    return [(X / RAD, Y / RAD, Z / RAD), (-Y / RHO, X / RHO, 0),
            (X * Z / (RHO * RAD), Y * Z / (RHO * RAD), -RHO / RAD)]


def cart_eval(expr, pt: ExactPoint):
    """Evaluate an expression in X, Y, Z (with atan2 / acos of them) at the point; angles stay symbolic."""
    expr = sp.sympify(expr).subs({AZ: THETA, POL: PHI})
    out = expr.subs(pt.cart_subs())
    # should a rewriting have changed the form of the angles before the substitution above
    return out.subs({sp.atan2(pt.y, pt.x): THETA, sp.acos(pt.z / pt.R): PHI})


def has_inverse_trig(e) -> bool:
    return sp.sympify(e).has(sp.atan2, sp.atan, sp.acos, sp.asin, sp.acot)


def cart_grad(f):
    return [sp.diff(f, v) for v in (X, Y, Z)]


def cart_div(F):
    return sum(sp.diff(F[i], v) for i, v in enumerate((X, Y, Z)))


def cart_curl(F):
    return [sp.diff(F[2], Y) - sp.diff(F[1], Z), sp.diff(F[0], Z) - sp.diff(F[2], X),
            sp.diff(F[1], X) - sp.diff(F[0], Y)]


# ------------------------------------------------------------------------------------------------
def is_zero(e) -> bool:
    e = sp.expand(sp.sympify(e))
    if e == 0:
        return True
    e = sp.simplify(e)
    return e == 0


def split_pi(value):
    """A number of the form q + p*pi (q, p rational) -> (q, p) as sympy Rationals, else None."""
    v = sp.expand(sp.sympify(value))
    for attempt in range(2):
        p = v.coeff(sp.pi, 1)
        q = sp.expand(v - p * sp.pi)
        if p.is_Rational and q.is_Rational:
            return q, p
        if attempt == 0:
            v = sp.expand(sp.simplify(v))
    return None
