"""Driver shared by C17 (code rendering) and C18 (LaTeX rendering).

spec -> code : TLC enumerates every program of spec/PrintEval.tla within the bounds; each is built as a real SymPy
               expression over symplyphysics symbols (ordinary evaluated construction = canonical form), rendered with
               the real printer and read back by the harness' own parser.
code -> spec : (program of the tree that was printed, program of the rendering read back) pairs are recorded as JSON
               and spec/PrintEvalTrace.tla evaluates both at random points of two prime fields: equal values
               required.  The same for every documented equation of the catalogue in source form (unevaluated tree,
               obtained with the library's own patch_sympy_evaluate + find_members_and_functions).
C18 only     : the bracket events of every LaTeX string are validated by spec/Balance.tla.
"""
from __future__ import annotations

import ast as pyast
import json
import os
import random
import re
import sys
from collections import Counter
from concurrent.futures import ThreadPoolExecutor
from pathlib import Path

from . import printparse as pp
from .common import HardTimeout, Run, make_pool, pmap, time_limit
from .tlc import Scratch, parse_tla_tuple, run_tlc, write_cfg

INVARIANTS = ["TypeOK", "RingLaws", "PowLaws", "MixLaws", "EvalAgrees"]
PRIMES = (46337, 46327)

ALL_LEAVES = {"a", "b", "c", "d", "n2", "n3", "n10", "nm1", "nm2", "h", "mt", "q34", "pi"}
OPERATORS = {"ddt", "int", "sumk", "prodk", "fact", "isum", "iprod"}
ALL_OPS = {"add2", "add3", "mul2", "mul3", "neg", "div", "sq", "cube", "inv", "isq", "sqrt", "cbrt", "p32", "pm32",
           "pm12", "pow", "exp", "sin", "log", "f2", "g1"}

# generator configurations: (label, constants).  The first one of each tier carries the whole alphabet (every action
# of the specification is taken: -coverage); the others go deeper over narrower alphabets.
GEN = {
    "quick": [
        ("all4", dict(MaxLen=4, LeafNames={"a", "b", "c", "n2", "nm1", "h", "mt", "pi"}, OpNames=ALL_OPS - {"cube", "isq", "p32"})),
        ("deep6", dict(MaxLen=6, LeafNames={"a", "b", "nm2"}, OpNames={"add2", "mul2", "div", "pow"})),
        ("neg5", dict(MaxLen=5, LeafNames={"a", "c", "nm1", "mt"}, OpNames={"add2", "mul2", "neg", "div", "sq", "pm32", "pow", "exp"})),
        # operator nodes (Derivative, Integral, Sum, Product, IndexedSum/Product, factorial) as base of a power, as
        # factorial argument, as left / right factor, under a sign, in a denominator
        ("oper4", dict(MaxLen=4, LeafNames={"xt", "a", "n2"}, OpNames=OPERATORS | {"mul2", "add2", "neg", "sq", "inv", "cube"})),
        # products with two operator factors (Derivative * Derivative, IndexedProduct * IndexedSum, Derivative * Sum ..)
        ("oper2x5", dict(MaxLen=5, LeafNames={"xt", "a"}, OpNames={"ddt", "isum", "iprod", "sumk", "mul2"})),
        # non-square dense matrices, read back structurally (rows of elements)
        ("matrix7", dict(MaxLen=7, LeafNames={"a", "b", "n2"}, OpNames={"mat23", "mat32", "mat13", "mat31"})),
        # declared functions named like functions with a notation of their own (beta, gamma, Abs, log, zeta, Max)
        ("named4", dict(MaxLen=4, LeafNames={"a", "b", "n2"},
                        OpNames={"dbeta", "dgam1", "dgam2", "dabs", "dlog1", "dlog2", "dzeta", "dmax", "mul2", "add2", "sq"})),
        # deeper trees over sums, products and log: log of a product of bracketed factors, log((a + b) (a + 2)) ..
        ("logmul8", dict(MaxLen=8, LeafNames={"a", "b"}, OpNames={"add2", "mul2", "log"})),
        # floating-point literals incl. scientific notation with decimal exponents that are multiples of ten
        ("float4", dict(MaxLen=4, LeafNames={"f10", "f20", "fh", "fs", "a"}, OpNames={"mul2", "add2", "div", "neg", "sq", "inv"})),
    ],
    "thorough": [
        ("all5", dict(MaxLen=5, LeafNames={"a", "b", "c", "n2", "nm1", "h", "mt"},
                      OpNames={"add2", "add3", "mul2", "mul3", "neg", "div", "sq", "inv", "sqrt", "pm32", "pow", "exp", "sin"})),
        ("all4", dict(MaxLen=4, LeafNames=ALL_LEAVES, OpNames=ALL_OPS)),
        ("deep8", dict(MaxLen=8, LeafNames={"a", "nm2"}, OpNames={"add2", "mul2", "div", "pow"})),
        ("deep7", dict(MaxLen=7, LeafNames={"a", "b", "mt"}, OpNames={"add2", "mul2", "div", "pow", "neg"})),
        ("fn6", dict(MaxLen=6, LeafNames={"a", "c", "nm1"}, OpNames={"add2", "mul2", "div", "sqrt", "pm12", "exp", "log", "f2"})),
        ("oper2x6", dict(MaxLen=6, LeafNames={"xt", "a"}, OpNames={"ddt", "isum", "iprod", "sumk", "int", "mul2"})),
        ("matrix7", dict(MaxLen=7, LeafNames={"a", "b", "n2", "h"}, OpNames={"mat23", "mat32", "mat13", "mat31"})),
        ("float5", dict(MaxLen=5, LeafNames={"f10", "f20", "fh", "fs", "a"}, OpNames={"mul2", "add2", "div", "neg", "sq", "inv", "sqrt"})),
        ("logmul8", dict(MaxLen=8, LeafNames={"a", "b", "n2"}, OpNames={"add2", "mul2", "log"})),
        ("named5", dict(MaxLen=5, LeafNames={"a", "b", "nm1"},
                        OpNames={"dbeta", "dgam2", "dabs", "dlog1", "dlog2", "dzeta", "dmax", "mul2", "add2", "sq", "inv"})),
        ("oper5", dict(MaxLen=5, LeafNames={"xt", "a", "nm1"}, OpNames=OPERATORS | {"mul2", "add2", "sq", "inv", "sqrt"})),
        ("oper4", dict(MaxLen=4, LeafNames={"xt", "a", "b", "n2", "mt"},
                       OpNames=OPERATORS | {"mul2", "mul3", "add2", "neg", "div", "sq", "inv", "pm32", "pow", "exp", "sin"})),
    ],
}

_ENV = None


def setup(mode: str):
    """Import the library (from the working tree) and create the leaf objects once (inherited by fork)."""
    global _ENV  # pylint: disable=global-statement
    import sympy as sp
    from symplyphysics import Symbol, Function, IndexedSum, IndexedProduct, global_index
    from symplyphysics.docs.printer_code import code_str
    from symplyphysics.docs.printer_latex import latex_str
    syms = {
        1: Symbol("a"),
        2: Symbol("b_1", display_latex="b_1"),
        3: Symbol("gamma", display_latex="\\gamma", positive=True),
        4: Symbol("Delta(p)", display_latex="\\Delta p", real=True),
    }
    t, k, n = Symbol("t"), Symbol("k"), Symbol("n", display_latex="n")
    syms[5] = Function("x", display_latex="x")(t)          # leaf "xt": the applied function x(t)
    fns = {16: sp.sin, 17: sp.log, 18: Function("F_n", display_latex="F_\\text{n}"), 19: Function("phi", display_latex="\\varphi"),
           20: lambda e: sp.Derivative(e, t), 21: lambda e: sp.Integral(e, t),
           22: lambda e: sp.Sum(e, (k, 1, n)), 23: lambda e: sp.Product(e, (k, 1, n)), 24: sp.factorial,
           25: lambda e: IndexedSum(e, global_index), 26: lambda e: IndexedProduct(e, global_index)}
    fns.update({27: lambda *a: sp.Matrix(2, 3, list(a)), 28: lambda *a: sp.Matrix(3, 2, list(a)),
                29: lambda *a: sp.Matrix(1, 3, list(a)), 30: lambda *a: sp.Matrix(3, 1, list(a))})
    fns.update({31: Function("beta"), 32: Function("gamma"), 33: Function("gamma"), 34: Function("Abs"),
                35: Function("log"), 36: Function("log"), 37: Function("zeta"), 38: Function("Max")})
    csts = {1: sp.pi, 10: sp.Float("1e-10"), 11: sp.Float("2.5e20"), 12: sp.Float("0.5"), 13: sp.Float("8.85e-10")}
    _ENV = dict(mode=mode, sp=sp, syms=syms, fns=fns, csts=csts,
                render=code_str if mode == "code" else latex_str,
                parse=pp.parse_code if mode == "code" else pp.parse_latex)
    return _ENV


def build_expr(tokens):
    """Generated program -> real SymPy expression (ordinary evaluated construction)."""
    sp = _ENV["sp"]
    st = []
    for op, a, b in tokens:
        if op == "sym":
            st.append(_ENV["syms"][a])
        elif op == "int":
            st.append(sp.Integer(a))
        elif op == "rat":
            st.append(sp.Rational(a, b))
        elif op == "cst":
            st.append(_ENV["csts"][a])
        elif op in ("add", "mul"):
            args = st[-a:]
            del st[-a:]
            st.append((sp.Add if op == "add" else sp.Mul)(*args))
        elif op == "neg":
            st.append(-st.pop())
        elif op == "div":
            y = st.pop()
            x = st.pop()
            st.append(x / y)
        elif op == "powi":
            st.append(st.pop() ** sp.Integer(a))
        elif op == "powr":
            st.append(st.pop() ** sp.Rational(a, b))
        elif op == "sqrt":
            st.append(sp.sqrt(st.pop()))
        elif op == "pow":
            y = st.pop()
            x = st.pop()
            st.append(x ** y)
        elif op == "exp":
            st.append(sp.exp(st.pop()))
        elif op == "fn":
            args = st[-b:]
            del st[-b:]
            st.append(_ENV["fns"][a](*args))
        else:
            raise KeyError(op)
    assert len(st) == 1
    return st[0]


# ------------------------------------------------------------------------------------------------------------------
# one rendering: tree -> (program a, program b) | outside | unknown name
# ------------------------------------------------------------------------------------------------------------------

def split_eq(s: str, mode: str):
    """Split a rendering at its single top-level '='; None if there is not exactly one."""
    depth, cuts, i, n = 0, [], 0, len(s)
    while i < n:
        c = s[i]
        if mode == "latex" and s.startswith("\\left", i):
            depth += 1
            i += 5
            continue
        if mode == "latex" and s.startswith("\\right", i):
            depth -= 1
            i += 6
            continue
        if c in "({[":
            depth += 1
        elif c in ")}]":
            depth -= 1
        elif c == "=" and depth == 0:
            cuts.append(i)
        i += 1
    if len(cuts) != 1:
        return None
    return s[:cuts[0]].strip(), s[cuts[0] + 1:].strip()


def check_side(tree, text: str, table: pp.NameTable, tree_ast=None):
    """-> dict(status=pair|outside|unknown, ...) for one expression and the text that renders it."""
    mode = _ENV["mode"]
    try:
        a = tree_ast if tree_ast is not None else pp.tree_to_ast(tree, mode, table)
    except pp.Outside as ex:
        return dict(status="outside", why=f"tree: {ex}")
    table.finish()
    clash = pp.constant_name_clash(a, table)
    if clash:
        return dict(status="outside", why=f"ambiguous names: the constant {clash} and a display name are written alike")
    try:
        b = _ENV["parse"](text, table)
    except pp.Outside as ex:
        return dict(status="outside", why=f"unparsed: {ex}")
    except pp.UnknownName as ex:
        return dict(status="unknown", name=str(ex), orig=pp.ast_str(a))
    except RecursionError:
        return dict(status="outside", why="unparsed: recursion depth")
    try:
        pa, pb, n = pp.compile_pair(a, b)
    except pp.Outside as ex:
        return dict(status="outside", why=f"program: {ex}")
    out = dict(status="pair", a=pa, b=pb, n=n, orig=pp.ast_str(a)[:2000], read=pp.ast_str(b)[:2000])
    if pa != pb:
        # second-stage normal form (used only if TLC finds the as-written programs different)
        try:
            with time_limit(10):
                ca, cb = pp.canonical_ast(a, table), pp.canonical_ast(b, table)
            qa, qb, qn = pp.compile_pair(ca, cb)
            out["canon"] = dict(a=qa, b=qb, n=qn)
        except pp.Outside as ex:
            out["canon_failed"] = str(ex)
        except HardTimeout:
            out["canon_failed"] = "timeout"
        except Exception as ex:  # pylint: disable=broad-except
            out["canon_failed"] = type(ex).__name__
    return out


def render_generated(case):
    """spec -> code for one TLC behaviour."""
    toks = case["t"]
    mode = _ENV["mode"]
    out = dict(tokens=toks)
    try:
        with time_limit(10):
            expr = build_expr(toks)
            if expr.has(_ENV["sp"].zoo, _ENV["sp"].nan, _ENV["sp"].oo, -_ENV["sp"].oo):
                out.update(status="outside", why="construction: canonical form is not finite (zoo / nan / oo)")
                return out
            text = _ENV["render"](expr)
    except HardTimeout:
        out.update(status="outside", why="construction or printing timed out")
        return out
    except (ZeroDivisionError, ValueError, TypeError) as ex:
        out.update(status="outside", why=f"construction: {type(ex).__name__}")
        return out
    out["text"] = text
    table = pp.NameTable(mode)
    out.update(check_side(expr, text, table))
    out["badnames"] = pp.leaf_name_check(table, _ENV["render"])
    if mode == "latex":
        out["ev"] = pp.bracket_events(text)
    return out


# ------------------------------------------------------------------------------------------------------------------
# catalogue: documented equations in source form
# ------------------------------------------------------------------------------------------------------------------

def catalogue_files():
    import symplyphysics
    root = Path(symplyphysics.__file__).parent
    files = []
    for sub in ("laws", "definitions", "conditions"):
        for path, dirs, names in os.walk(root / sub):
            dirs.sort()
            for f in sorted(names):
                if f.endswith(".py"):
                    files.append(str((Path(path) / f).relative_to(root)))
    return files


def documented_members(rel: str, symbols: bool = False):
    """The library's own way of obtaining what the documentation shows (docs/build.py::_process_law)."""
    import symplyphysics
    from symplyphysics.docs.patch import patch_sympy_evaluate
    from symplyphysics.docs.parse import find_members_and_functions
    from symplyphysics.core.processors import reset_sympy_evaluation
    root = Path(symplyphysics.__file__).parent
    src = (root / rel).read_text(encoding="utf-8")
    tree = pyast.parse(src)
    if pyast.get_docstring(tree) is None:
        return []
    try:
        tree = patch_sympy_evaluate(tree)
        members, _ = find_members_and_functions(tree)
    finally:
        reset_sympy_evaluation()
    if symbols:     # (equations and expressions shown as formulas, documented symbol members)
        return ([m for m in members if m.directives and not m.name.startswith("_")],
                [m for m in members if not m.directives and not m.name.startswith("_")])
    return [m for m in members if m.directives and not m.name.startswith("_")]


def bare_function_names(value, text: str) -> list:
    """'Symbols appear under their display names' for a documented bare function symbol f(g, t) whose declared arguments
    include function symbols: the rendering must not show such an argument under its internal unique name (FUN<n>)
    when its display name is a different one.  -> [[display name, rendered text]]"""
    from sympy.core.function import FunctionClass
    args = getattr(value, "arguments", None)
    if not isinstance(value, FunctionClass) or not args:
        return []
    bad = []
    for arg in args:
        internal, display = str(getattr(arg, "name", "")), str(getattr(arg, "display_name", ""))
        if not isinstance(arg, FunctionClass) or not internal or not display or internal == display:
            continue
        m = re.fullmatch(r"([A-Za-z]+)(\d+)", internal)
        if not m or m.group(1) in display:
            continue
        pat = rf"(?<![A-Za-z0-9]){m.group(1)}(_?\{{?){m.group(2)}(?!\d)"
        if re.search(pat, text):
            bad.append([display, text])
    return bad


def render_module(rel: str):
    """All documented equations of one module: list of result dicts (one per side of every equation)."""
    import sympy as sp
    mode = _ENV["mode"]
    results = []
    try:
        with time_limit(120):
            members, symbol_members = documented_members(rel, symbols=True)
    except HardTimeout:
        return [dict(key=rel, status="outside", why="module execution timed out")]
    except Exception as ex:  # pylint: disable=broad-except
        return [dict(key=rel, status="outside", why=f"module does not execute in documentation mode: {type(ex).__name__}")]
    for m in symbol_members:    # documented bare function symbols: the display-name clause only
        try:
            if not getattr(m.value, "arguments", None):
                continue
            with time_limit(20):
                text = _ENV["render"](m.value)
            fbad = bare_function_names(m.value, text)
        except Exception:  # pylint: disable=broad-except
            continue        # not renderable on its own: nothing to compare
        if fbad:
            results.append(dict(key=f"{rel}:{m.name}:function", status="outside", why="tree: bare function symbol", text=text,
                                file=rel, member=m.name, side="function", badnames=fbad))
    for m in members:
        key = f"{rel}:{m.name}"
        value = m.value
        try:
            with time_limit(20):
                text = _ENV["render"](value)
        except HardTimeout:
            results.append(dict(key=key, status="outside", why="printing timed out"))
            continue
        except Exception as ex:  # pylint: disable=broad-except
            results.append(dict(key=key, status="outside", why=f"printer raised {type(ex).__name__}", text=""))
            continue
        ev = pp.bracket_events(text) if mode == "latex" else None
        sides = None
        if isinstance(value, sp.Equality):
            parts = split_eq(text, mode)
            if parts:
                sides = [("lhs", value.lhs, parts[0]), ("rhs", value.rhs, parts[1])]
        if sides is None:
            sides = [("expr", value, text)]
        table = pp.NameTable(mode)
        # the display-name table is the one of the whole equation
        asts = []
        for _, tree, _ in sides:
            try:
                asts.append(pp.tree_to_ast(tree, mode, table) if isinstance(tree, sp.Basic) else None)
            except pp.Outside as ex:
                asts.append(ex)
        first = True
        for (side, tree, part), a in zip(sides, asts):
            r = dict(key=f"{key}:{side}", text=text, part=part, file=rel, member=m.name, side=side)
            if first and ev is not None:
                r["ev"] = ev
            first = False
            if a is None:
                r.update(status="outside", why=f"tree: value of type {type(tree).__name__}")
            elif isinstance(a, pp.Outside):
                r.update(status="outside", why=f"tree: {a}")
            else:
                r.update(check_side(tree, part, table, tree_ast=a))
            if table.notes:
                r["notes"] = list(table.notes)
            results.append(r)
        if results and results[-1].get("member") == m.name:
            results[-1]["badnames"] = pp.leaf_name_check(table, _ENV["render"])
    return results


# ------------------------------------------------------------------------------------------------------------------
# TLC: trace validation
# ------------------------------------------------------------------------------------------------------------------

TRACE_CONSTANTS = dict(MaxLen=0, LeafNames=set(), OpNames=set(), P=PRIMES[0], PointSeed=0)


def validate_pairs(run: Run, sc: Path, pairs: list[dict], label: str, shard: int = 2500, threads: int = 12) -> dict:
    """pairs: dicts with id, seed, n, a, b.  Returns id -> ("PASS",) | ("UNDEC",) | ("FAIL", p, k, va, vb)."""
    if not pairs:
        return {}
    cfg = write_cfg(sc / "petrace.cfg", init="TraceInit", next_="TraceNext", constants=TRACE_CONSTANTS,
                    invariants=["Report"])
    shards = [pairs[i:i + shard] for i in range(0, len(pairs), shard)]

    def one(i):
        path = sc / f"pairs_{label}_{i}.json"
        path.write_text(json.dumps([{k: p[k] for k in ("id", "seed", "n", "a", "b")} for p in shards[i]]))
        return run_tlc("PrintEvalTrace", cfg, sc, workers=1, env={"TRACE_FILE": str(path)}, allow_violation=False,
                       heap_gb=3)

    verdicts = {}
    with ThreadPoolExecutor(max_workers=threads) as ex:
        results = list(ex.map(one, range(len(shards))))
    agg = None
    for res in results:
        for line in res.raw_prints:
            v = parse_tla_tuple(line)
            verdicts[v[1]] = tuple([v[0]] + v[2:])
        if agg is None:
            agg = res
        else:
            agg.generated += res.generated
            agg.distinct += res.distinct
            agg.wall_s = max(agg.wall_s, res.wall_s)
    run.add_tlc(agg, f"trace validation {label}: {len(pairs)} (original, re-read) program pairs evaluated at "
                     f"2 decided points in each of GF({PRIMES[0]}), GF({PRIMES[1]}) ({len(shards)} TLC runs)")
    missing = [p["id"] for p in pairs if p["id"] not in verdicts]
    if missing:
        raise RuntimeError(f"TLC printed no verdict for pairs {missing[:5]} ...")
    return verdicts


def validate_balance(run: Run, sc: Path, streams: list[dict], shard: int = 4000, threads: int = 12) -> dict:
    """streams: dicts tid, ev.  Returns tid -> ("ACCEPT",) | ("UNCLOSED", delim) | ("STUCK", index, delim)."""
    if not streams:
        return {}
    cfg = write_cfg(sc / "balance.cfg", invariants=["TypeOK", "DepthIsOpensMinusCloses", "Accepted", "Unclosed", "Stuck"])
    shards = [streams[i:i + shard] for i in range(0, len(streams), shard)]

    def one(i):
        path = sc / f"streams_{i}.json"
        path.write_text(json.dumps(shards[i]))
        return run_tlc("Balance", cfg, sc, workers=1, env={"TRACE_FILE": str(path)}, allow_violation=False, heap_gb=3)

    with ThreadPoolExecutor(max_workers=threads) as ex:
        results = list(ex.map(one, range(len(shards))))
    verdicts, agg = {}, None
    for res in results:
        for line in res.raw_prints:
            v = parse_tla_tuple(line)
            if v[1] in verdicts:
                raise RuntimeError(f"two verdicts for stream {v[1]}")
            verdicts[v[1]] = tuple([v[0]] + v[2:])
        if agg is None:
            agg = res
        else:
            agg.generated += res.generated
            agg.distinct += res.distinct
            agg.wall_s = max(agg.wall_s, res.wall_s)
    run.add_tlc(agg, f"Balance: pushdown automaton over the bracket events of {len(streams)} distinct LaTeX strings "
                     f"({len(shards)} TLC runs, one initial state per string)")
    missing = [s["tid"] for s in streams if s["tid"] not in verdicts]
    if missing:
        raise RuntimeError(f"Balance printed no verdict for streams {missing[:5]}")
    return verdicts


# ------------------------------------------------------------------------------------------------------------------
# the check
# ------------------------------------------------------------------------------------------------------------------

def _bounds(c):
    return f"MaxLen={c['MaxLen']} leaves={len(c['LeafNames'])} ops={len(c['OpNames'])}"


def main(pid: str, mode: str) -> int:
    tier = sys.argv[1] if len(sys.argv) > 1 else "quick"
    if tier == "--replay":
        return replay_file(pid, mode, sys.argv[2])
    run = Run(pid, tier)
    setup(mode)
    rng = random.Random(run.seed)
    what = "code_str" if mode == "code" else "latex_str"
    with Scratch() as sc, make_pool() as pool:
        # ---- the model, and its behaviours -------------------------------------------------------------------
        cases = []
        jobs = []
        for gi, (label, consts) in enumerate(GEN[tier]):
            c = dict(consts, P=PRIMES[gi % 2], PointSeed=20260927 + run.seed)
            cfg = write_cfg(sc / f"pe_{label}.cfg", constants=c, invariants=INVARIANTS)
            cfg2 = write_cfg(sc / f"pe_{label}_emit.cfg", constants=c, invariants=["Emit"])
            jobs.append(("mc", label, consts, c, cfg))
            jobs.append(("emit", label, consts, c, cfg2))

        def tlc_job(job):
            kind, _, _, _, cfg = job
            if kind == "mc":
                return run_tlc("PrintEval", cfg, sc, workers=4, coverage=True, allow_violation=False, heap_gb=4)
            return run_tlc("PrintEval", cfg, sc, workers=1, allow_violation=False, heap_gb=4)

        with ThreadPoolExecutor(max_workers=len(jobs)) as ex:
            results = list(ex.map(tlc_job, jobs))
        for (kind, label, consts, c, _), res in zip(jobs, results):
            if kind == "mc":
                run.add_tlc(res, f"model check {label}: invariants {INVARIANTS}, bounds {_bounds(consts)} p={c['P']}")
            else:
                run.coverage.setdefault("programs_emitted", {})[label] = len(res.printed)
                cases += res.printed
        # ---- spec -> code: every behaviour is built, rendered and read back --------------------------------------
        pairs, meta, streams, stream_of = [], {}, [], {}
        seen_pair = {}
        unparsed = Counter()

        def add_stream(text, ev, key):
            if text not in stream_of:
                stream_of[text] = len(streams) + 1
                streams.append(dict(tid=len(streams) + 1, ev=ev))
                meta[("s", len(streams))] = dict(text=text, key=key)

        def add_pair(r, key, replay):
            sig = json.dumps([r["a"], r["b"]])
            inst = dict(key=key, text=r.get("part", r.get("text")), orig=r["orig"], read=r["read"], replay=replay,
                        canon=r.get("canon"), canon_failed=r.get("canon_failed"))
            if sig in seen_pair:
                # the same pair of programs as an earlier one: remember this instance as well (its symbols may
                # carry other assumptions)
                if len(meta[seen_pair[sig]]["inst"]) < 50:
                    meta[seen_pair[sig]]["inst"].append(inst)
                return
            pid_ = len(pairs) + 1
            seen_pair[sig] = pid_
            pairs.append(dict(id=pid_, seed=rng.randrange(1, 2 ** 31 - 1), n=r["n"], a=r["a"], b=r["b"]))
            meta[pid_] = dict(inst=[inst])

        gen_stat = Counter()
        for r in pmap(pool, render_generated, cases):
            run.traces += 1
            prog_key = " ".join(f"{o}:{a}:{b}" if o in ("int", "rat", "sym", "powi", "powr", "fn", "add", "mul", "cst") else o
                                for o, a, b in r["tokens"])
            run.count(prog_key if len(r["tokens"]) > 1 else None)
            gen_stat[r["status"]] += 1
            if "ev" in r:
                add_stream(r["text"], r["ev"], "generated: " + prog_key)
            replay = dict(kind="generated", mode=mode, tokens=r["tokens"])
            for key, text in r.get("badnames", ()):
                run.violation(f"display name: {key}", f"{what} renders the symbol with display name {key!r} as {text!r}",
                              dict(replay, text=text))
            if r["status"] == "outside":
                run.outside("generated: " + r["why"])
                if r["why"].startswith("unparsed"):
                    unparsed[r["why"]] += 1
            elif r["status"] == "unknown":
                run.violation(f"generated name: {r['orig']}",
                              f"{what} of {r['orig']} is {r['text']!r}: name(s) {r['name']} not in the display-name table",
                              dict(replay, text=r["text"]))
            else:
                if len(r["tokens"]) >= 4:
                    run.sample({"program": prog_key, "rendering": r["text"], "read_back_as": r["read"]})
                add_pair(r, f"generated: {r['orig']}", dict(replay, text=r["text"]))
        run.coverage["generated"] = dict(gen_stat)
        run.coverage["generated_distinct_pairs"] = len(pairs)
        n_gen_pairs = len(pairs)
        # ---- catalogue clause --------------------------------------------------------------------------------------
        cat_stat = Counter()
        n_modules = 0
        for rs in pmap(pool, render_module, catalogue_files(), chunk=12):
            n_modules += 1
            for r in rs:
                cat_stat[r["status"]] += 1
                if "ev" in r:
                    add_stream(r["text"], r["ev"], r["key"])
                for note in r.get("notes", ()):
                    run.coverage.setdefault("catalogue_notes", {}).setdefault(note, []).append(r["key"])
                replay = dict(kind="catalogue", mode=mode, file=r.get("file"), member=r.get("member"), side=r.get("side"))
                for key, text in r.get("badnames", ()):
                    run.violation(f"display name: {r['file']}: {key}",
                                  f"{what} renders the symbol with display name {key!r} as {text!r}", dict(replay, text=text))
                if r["status"] == "outside":
                    why = r["why"]
                    run.outside("catalogue: " + why)
                    if why.startswith("unparsed"):
                        unparsed[why] += 1
                        run.coverage.setdefault("catalogue_unparsed", []).append(f"{r['key']}: {why}: {r.get('part', '')[:160]}")
                elif r["status"] == "unknown":
                    run.violation(f"name: {r['key']}",
                                  f"{what} renders {r['part']!r}: name(s) {r['name']} not in the display-name table of the equation",
                                  dict(replay, text=r["text"]))
                else:
                    run.traces += 1
                    run.count("cat:" + r["key"])
                    add_pair(r, r["key"], dict(replay, text=r["text"]))
        run.coverage["catalogue"] = dict(modules=n_modules, **cat_stat)
        run.coverage["top_unparsed"] = unparsed.most_common(12)
        # ---- code -> spec: TLC decides ----------------------------------------------------------------------------------
        verdicts = validate_pairs(run, sc, pairs, "as written")
        undec = 0
        second, second_of = [], {}
        for p in pairs:
            v = verdicts[p["id"]]
            if v[0] == "UNDEC":
                undec += 1
                run.outside("undecided: a program is undefined (zero denominator) at all candidate points"
                            + (" (generated)" if p["id"] <= n_gen_pairs else " (catalogue)"))
            elif v[0] == "FAIL":
                # second stage: the same comparison after SymPy's own (assumption-aware, value-preserving) automatic
                # evaluation of BOTH formulas; only a difference that survives it is a violation
                for m in meta[p["id"]]["inst"]:
                    if m["canon"] is None:
                        run.outside(f"undecided: differs as written and cannot be canonicalised ({m['canon_failed']})")
                        continue
                    sid = len(second) + 1
                    second.append(dict(id=sid, seed=p["seed"], **m["canon"]))
                    second_of[sid] = (m, v)
        run.coverage["pairs_differing_as_written"] = len(second)
        verdicts2 = validate_pairs(run, sc, second, "after canonicalisation of both sides") if second else {}
        forgiven = 0
        for sid, (m, v1) in second_of.items():
            v = verdicts2[sid]
            if v[0] == "PASS":
                forgiven += 1
                run.coverage.setdefault("equal_after_canonicalisation", [])
                if len(run.coverage["equal_after_canonicalisation"]) < 40:
                    run.coverage["equal_after_canonicalisation"].append(f"{m['key']}: {m['text']}")
            elif v[0] == "UNDEC":
                run.outside("undecided: canonical programs undefined at all candidate points")
            else:
                prime, k, va, vb = v[1:]
                seed = second[sid - 1]["seed"]
                run.violation(m["key"], f"{what} gives {m['text']!r}, read as {m['read']}; original {m['orig']}; values in "
                                        f"GF({prime}) at candidate point {k} of seed {seed}: original {va}, rendering {vb}",
                              dict(m["replay"], seed=seed, original=m["orig"], read=m["read"], values=[prime, k, va, vb],
                                   values_as_written=list(v1[1:])))
        run.coverage["pairs_decided"] = len(pairs) - undec
        run.coverage["pairs_equal_only_after_canonicalisation"] = forgiven
        # ---- C18: well-formedness ------------------------------------------------------------------------------------
        if mode == "latex":
            bal = validate_balance(run, sc, streams)
            for s in streams:
                v = bal[s["tid"]]
                run.traces += 1
                if v[0] != "ACCEPT":
                    m = meta[("s", s["tid"])]
                    run.violation(f"balance: {m['key']}", f"LaTeX {m['text']!r} is not well-formed: {v}",
                                  dict(kind="balance", mode=mode, text=m["text"], verdict=list(v)))
            run.coverage["latex_strings_balanced"] = sum(1 for s in streams if bal[s["tid"]][0] == "ACCEPT")
    run.assumptions += [
        "the reading of a rendering is defined by harness/printparse.py (standard precedence: ^ right-associative and "
        "tighter than unary minus, * and / left-associative on one level; LaTeX: juxtaposition is a product, function "
        "application binds tighter than ^); names are resolved only through the display names of the printed tree",
        "values are compared in GF(46337) and GF(46327) (both p^2 < 2^31; 46349 of the design overflows TLC's integers); "
        "rational / symbolic powers, sqrt, exp and named functions are uninterpreted but congruent with the normal "
        "forms sqrt(x)=x^(1/2), x^(-e)=1/x^e, exp(x)=E^x; a value-changing rendering escapes with probability ~degree/p "
        "per point (4 decided points per pair)",
        "two symbols of one formula that share a display name are identified (C09 is about aliasing)",
        "constructs outside the grammars (see outside_decided_fragment) are not compared by value",
    ]
    return run.finish(exhaustive=True)


def replay_file(pid: str, mode: str, path: str) -> int:
    data = json.loads(Path(path).read_text())
    case = data["case"]
    setup(mode)
    bad = []
    with Scratch() as sc:
        run = Run(pid, "replay")
        if case["kind"] == "generated":
            results = [render_generated(dict(t=case["tokens"]))]
        elif case["kind"] == "catalogue":
            allr = [r for r in render_module(case["file"]) if r.get("member") == case["member"]]
            results = [r for r in allr if r.get("side") == case["side"]]
            if data.get("key", "").startswith("display name"):
                results = allr
        else:
            ev = pp.bracket_events(case["text"])
            v = validate_balance(run, sc, [dict(tid=1, ev=ev)])[1]
            print("replayed balance of", case["text"], "->", v)
            if v[0] != "ACCEPT":
                print(f"VIOLATION property={pid} replay={path}")
            return 0 if v[0] == "ACCEPT" else 1
        for r in results:
            if data.get("key", "").startswith("display name"):
                for key, text in r.get("badnames", ()):
                    bad.append(f"symbol with display name {key!r} is rendered as {text!r}")
                continue
            if r["status"] == "unknown":
                bad.append(f"unknown name {r['name']} in {r.get('part', r.get('text'))!r}")
            elif r["status"] == "pair":
                seed = case.get("seed", 12345)
                v = validate_pairs(run, sc, [dict(id=1, seed=seed, n=r["n"], a=r["a"], b=r["b"])], "replay")[1]
                print("rendering:", r.get("part", r.get("text")), "| read as:", r["read"], "| original:", r["orig"], "->", v)
                if v[0] == "FAIL" and r.get("canon"):
                    v = validate_pairs(run, sc, [dict(id=1, seed=seed, **r["canon"])], "replay canonical")[1]
                    print("after canonicalisation of both sides ->", v)
                if v[0] == "FAIL":
                    bad.append(f"values differ: {v}")
            else:
                print("outside:", r.get("why"))
    for b in bad:
        print(f"VIOLATION property={pid} replay={path}\n  {b}")
    print("replayed:", data.get("key"), "->", "violation" if bad else "ok")
    return 1 if bad else 0
