"""C03 child process: replay ONE creation / import history in this (fresh) interpreter and fingerprint modules.

    python -m harness.c03_lib <spec.json> <out.json>

spec = {"hid": str,
        "steps": [["create", prefix, k] | ["nextid", prefix, k] | ["import", module], ...],
        "observe": [module, ...] | "imported",      modules to fingerprint after the last step
        "tests": {module: path of its test file},    source of the fixed calculate_* arguments
        "fp_workers": n}                              fingerprint in n forked children (state is inherited)

Everything the history does goes through the real library: `create` makes real objects (Symbol, Function,
Quantity, CoordinateSystem, rotated system, VectorSymbol), `nextid` calls the real next_id, `import` is a real
importlib import.  The next_id hook is installed BEFORE symplyphysics itself is imported, so the recorded
stream is complete.  Nothing here judges: the parent compares fingerprints across histories.

Fingerprint of a module (by VALUE, never by generated names):
  * every public Eq attribute, serialised with every symbol-like object replaced by a stable label - the
    attribute name under which the module (or a module it imports) publishes the object, else display name +
    dimension + assumptions; operands of commutative nodes sorted.  When SymPy can rebuild the expression over
    plainly named symbols, its srepr is given as well (the parent evaluates lhs - rhs numerically from it when
    two histories disagree structurally);
  * the results (value, dimension | exception type) of every call the module's own test functions make into
    the module's public functions (fixed, in-domain arguments harvested from /repo/test); for modules without a
    test file, arguments synthesised from the decorator declarations (harness/catalogue.py).
"""
from __future__ import annotations

import importlib
import importlib.util
import inspect
import json
import os
import re
import sys
import time
import traceback
import types

from . import idtrace
from .common import HardTimeout, time_limit

GENERATED = re.compile(r"\b(?:SYM|FUN|QTY|SYS|VEC)\d+\b")
CATALOGUE = re.compile(r"^symplyphysics\.(laws|definitions|conditions)\.")


class OwnerRecorder(idtrace.Recorder):
    """Records (base, id, owner): owner = the innermost catalogue module whose body is executing."""

    def __init__(self):
        super().__init__()
        self.owners: list = []
        self.owner_idx: dict = {}

    def __call__(self, kind, payload):
        if kind != "next_id":
            return
        f = sys._getframe(1)  # pylint: disable=protected-access
        owner = ""
        while f is not None:
            if f.f_code.co_name == "<module>":
                name = f.f_globals.get("__name__", "")
                if CATALOGUE.match(name):
                    owner = name
                    break
            f = f.f_back
        idx = self.owner_idx.setdefault(owner, len(self.owner_idx))
        self.events.append((payload["base"], payload["id"], idx))


# ---------------------------------------------------------------------------------------------------
# history steps


def do_create(prefix: str, k: int) -> None:
    """k real object creations drawing on the counter `prefix` (what "other code" would do)."""
    import sympy as sp
    import symplyphysics as sy
    if prefix == "SYM":
        for _ in range(k):
            sy.Symbol("x")
    elif prefix == "FUN":
        for _ in range(k):
            sy.Function("f")
    elif prefix == "QTY":
        for _ in range(k):
            sy.Quantity(1)
    elif prefix == "SYS":
        for _ in range(k):
            sy.CoordinateSystem()
    elif prefix == "C":
        from symplyphysics.core.coordinate_systems.coordinate_systems import coordinates_rotate
        base = sy.CoordinateSystem()
        for _ in range(k):
            coordinates_rotate(base, sp.pi / 2, base.coord_system.k)
    elif prefix == "VEC":
        from symplyphysics.core.experimental.vectors import VectorSymbol
        for _ in range(k):
            VectorSymbol("v")
    else:
        do_nextid(prefix, k)


def do_symbolic() -> int:
    """Other code wraps symbols of its own into the Symbolic wrappers (Average, FiniteDifference, ExactDifferential,
    InexactDifferential): fresh symbols that merely PRINT like the symbols of the library's catalogue (K, T, p, V ...)
    but have another dimension."""
    import symplyphysics as sy
    from symplyphysics import symbols as catalogue_symbols, units
    from symplyphysics.core.operations import symbolic
    from symplyphysics.core.symbols.symbols import DimensionSymbol
    wrappers = [getattr(symbolic, n) for n in ("Average", "FiniteDifference", "ExactDifferential", "InexactDifferential")
                if hasattr(symbolic, n)]
    n = 0
    seen = set()
    for name in sorted(vars(catalogue_symbols)):
        obj = vars(catalogue_symbols)[name]
        if not isinstance(obj, DimensionSymbol) or not isinstance(obj, sy.Symbol) or obj.display_name in seen:
            continue
        seen.add(obj.display_name)
        other = units.time if obj.dimension == units.length else units.length
        for w in wrappers:
            w(sy.Symbol(obj.display_name, other))
            n += 1
    return n


def do_coreapi() -> list:
    """Other code uses the public core API before any catalogue module is imported: coordinate systems of every
    kind, the volume element and flux / circulation helpers on them, a few symbols and quantities.  What these calls
    return is not judged here (C11-C13 do that); only that they ran is recorded."""
    import sympy as sp
    import symplyphysics as sy
    from symplyphysics.core.coordinate_systems.coordinate_systems import CoordinateSystem
    from symplyphysics.core.fields.vector_field import VectorField
    from symplyphysics.core.fields import analysis
    from symplyphysics.core.geometry.elements import volume_element_magnitude
    ran = []
    for t in CoordinateSystem.System:
        for what, fn in (
                ("volume_element", lambda cs: volume_element_magnitude(cs)),
                ("flux_volume", lambda cs: analysis.flux_across_volume_boundary(VectorField(lambda point: [1, 0, 0], cs), (0, 1), (0, 1), (0, 1))),
        ):
            try:
                with time_limit(30):
                    fn(CoordinateSystem(t))
                ran.append(f"{what}:{t.name}")
            except HardTimeout:
                pass
            except Exception:  # pylint: disable=broad-except
                pass
    try:
        with time_limit(30):
            c = CoordinateSystem()
            u = sp.Symbol("verif_u")
            analysis.circulation_along_curve(VectorField(lambda point: [point.y, 0, point.x + point.z], c), [sp.cos(u), sp.sin(u)], (u, 0, sp.pi / 2))
        ran.append("circulation:CARTESIAN")
    except (HardTimeout, Exception):  # pylint: disable=broad-except
        pass
    for _ in range(3):
        sy.Symbol("x")
        sy.Quantity(1)
    return ran


def do_nextid(prefix: str, k: int) -> None:
    from symplyphysics.core.symbols.id_generator import next_id
    for _ in range(k):
        next_id(prefix)


def catalogue_loaded() -> list:
    return [m for m in sys.modules if CATALOGUE.match(m) and getattr(sys.modules[m], "__file__", "") and
            not os.path.basename(sys.modules[m].__file__) == "__init__.py"]


# ---------------------------------------------------------------------------------------------------
# labels and serialisation


def _is_symbol_like(obj) -> bool:
    import sympy as sp
    from sympy.core.function import UndefinedFunction
    from symplyphysics.core.symbols.symbols import DimensionSymbol
    return isinstance(obj, (DimensionSymbol, sp.Symbol, sp.IndexedBase, UndefinedFunction))


def build_labels(module) -> dict:
    """id(object) -> the attribute path under which the module (or a module it uses) publishes the object."""
    lab: dict = {}

    def walk(ns, prefix, depth):
        subs = []
        for name in sorted(ns):
            obj = ns[name]
            if isinstance(obj, types.ModuleType):
                if depth < 2 and obj.__name__.startswith("symplyphysics") and not name.startswith("__"):
                    subs.append((name, obj))
            else:
                try:
                    if _is_symbol_like(obj):
                        lab.setdefault(id(obj), prefix + name)
                except Exception:  # pylint: disable=broad-except
                    pass
        for name, sub in subs:
            walk(vars(sub), f"{prefix}{name}.", depth + 1)

    walk(vars(module), "", 0)
    return lab


class Labeller:
    def __init__(self, lab: dict):
        self.lab = lab
        self.fallback: dict = {}      # fallback label -> id of the object that owns it
        self.conflict = False

    def label(self, obj) -> str:
        got = self.lab.get(id(obj))
        if got is not None:
            return got
        try:
            ass = ",".join(sorted(k for k, v in getattr(obj, "assumptions0", {}).items() if v))
        except Exception:  # pylint: disable=broad-except
            ass = ""
        disp = getattr(obj, "display_name", None) or str(getattr(obj, "name", obj))
        fb = f"?{disp}|{getattr(obj, 'dimension', '')}|{ass}"
        if GENERATED.search(fb):
            self.conflict = True
        owner = self.fallback.setdefault(fb, id(obj))
        if owner != id(obj):
            self.conflict = True      # two different objects would get the same label: cannot tell them apart
        return fb


def _needs_label(e) -> bool:
    import sympy as sp
    from sympy.physics.units import Quantity as SymQuantity
    from symplyphysics.core.symbols.symbols import DimensionSymbol
    if isinstance(e, DimensionSymbol):
        return True
    if isinstance(e, (sp.Symbol, sp.IndexedBase, SymQuantity)) and not isinstance(e, sp.Dummy):
        return bool(GENERATED.search(str(getattr(e, "name", ""))))
    return False


def serialise(e, lb: Labeller) -> str:
    """Structural form over labels; operands of commutative nodes sorted."""
    import sympy as sp
    from sympy.core.function import AppliedUndef, UndefinedFunction
    from sympy.physics.units import Quantity as SymQuantity
    from symplyphysics import Quantity
    if isinstance(e, Quantity) and id(e) not in lb.lab and GENERATED.search(str(e.display_name)):
        return f"<qty {sp.N(e.scale_factor, 12)} {e.dimension}>"      # an anonymous quantity: its value
    if _needs_label(e):
        return f"<{lb.label(e)}>"
    if isinstance(e, AppliedUndef):
        f = e.func
        fname = f"<{lb.label(f)}>" if (id(f) in lb.lab or GENERATED.search(str(f.name)) or hasattr(f, "display_name")) \
            else str(f.name)
        return fname + "(" + ",".join(serialise(a, lb) for a in e.args) + ")"
    if isinstance(e, UndefinedFunction):
        return f"<{lb.label(e)}>"
    if isinstance(e, sp.Dummy):
        return "Dummy"
    if isinstance(e, (str, int, float, bool, type(None))):
        return repr(e)
    if isinstance(e, (list, tuple)):
        return "[" + ",".join(serialise(a, lb) for a in e) + "]"
    args = getattr(e, "args", ())
    if not args:
        if isinstance(e, sp.Float):
            return f"Float({float(e)!r})"
        if isinstance(e, SymQuantity):
            return f"unit:{e.name}"
        try:
            return sp.srepr(e)
        except Exception:  # pylint: disable=broad-except
            return f"{type(e).__name__}:{e}"
    parts = [serialise(a, lb) for a in args]
    if isinstance(e, sp.Add) or (isinstance(e, sp.Mul) and e.is_commutative) or isinstance(e, (sp.And, sp.Or, sp.FiniteSet)):
        parts.sort()
    return type(e).__name__ + "(" + ",".join(parts) + ")"


def plain_srepr(expr, lb: Labeller):
    """srepr of the expression rebuilt over plainly named SymPy objects (for numeric evaluation in the parent),
    or None when SymPy cannot rebuild it."""
    import sympy as sp
    from sympy.core.function import AppliedUndef
    from sympy.physics.units import Quantity as SymQuantity
    from symplyphysics import Quantity
    try:
        mapping = {}
        # name / abbreviation symbols of quantities and label symbols of indexed bases are not objects of their own
        inner = {a for q in expr.atoms(SymQuantity) for a in q.args} | {b.args[0] for b in expr.atoms(sp.IndexedBase)}
        for s in expr.atoms(sp.Symbol):
            if s not in inner and _needs_label(s):
                mapping[s] = sp.Symbol(lb.label(s), **{k: v for k, v in s.assumptions0.items() if v is not None})
        for b in expr.atoms(sp.IndexedBase):
            if _needs_label(b):
                mapping[b] = sp.IndexedBase(lb.label(b))
        for q in expr.atoms(SymQuantity):
            if isinstance(q, Quantity):
                if id(q) in lb.lab or not GENERATED.search(str(q.display_name)):
                    mapping[q] = sp.Symbol("qty:" + lb.label(q), positive=True)
                else:
                    mapping[q] = sp.Symbol(f"qty:{sp.N(q.scale_factor, 12)}|{q.dimension}", positive=True)
        out = expr.xreplace(mapping)
        funcs = {a.func for a in out.atoms(AppliedUndef) if hasattr(a.func, "display_name") or
                 GENERATED.search(str(a.func.name))}
        for f in funcs:
            out = out.replace(f, sp.Function(lb.label(f)))
        text = sp.srepr(out)
        if GENERATED.search(text):
            return None
        return text
    except Exception:  # pylint: disable=broad-except
        return None


def equation_fingerprints(module) -> dict:
    import sympy as sp
    lab = build_labels(module)
    out = {}
    for name in sorted(vars(module)):
        if name.startswith("_"):
            continue
        val = vars(module)[name]
        eqs = [val] if isinstance(val, sp.Equality) else \
            (list(val) if isinstance(val, (list, tuple)) and val and all(isinstance(v, sp.Equality) for v in val) else None)
        if eqs is None:
            continue
        for i, eq in enumerate(eqs):
            key = name if len(eqs) == 1 else f"{name}[{i}]"
            lb = Labeller(lab)
            try:
                with time_limit(10):
                    struct = "Eq(" + serialise(eq.lhs, lb) + " , " + serialise(eq.rhs, lb) + ")"
                    lb2 = Labeller(lab)          # its own labeller: a failure here must not spoil the structural form
                    plain = None if lb.conflict else plain_srepr(eq, lb2)
                    if lb2.conflict:
                        plain = None
            except HardTimeout:
                out[key] = {"struct": None, "why": "timeout"}
                continue
            except Exception as e:  # pylint: disable=broad-except
                out[key] = {"struct": None, "why": f"{type(e).__name__}: {str(e)[:100]}"}
                continue
            if lb.conflict or GENERATED.search(struct):
                out[key] = {"struct": None, "why": "objects without a stable label"}
            else:
                out[key] = {"struct": struct, "plain": plain}
    return out


# ---------------------------------------------------------------------------------------------------
# calculate_* results on fixed arguments


def dim_key(dim) -> str:
    """A dimension BY VALUE: its exponents over the base dimensions (Dimension(acceleration) and
    Dimension(length/time**2) are the same dimension); 'str:...' when SymPy cannot expand it."""
    try:
        from sympy.physics.units.systems.si import dimsys_SI
        deps = dimsys_SI.get_dimensional_dependencies(dim)
        return "deps:" + ",".join(f"{k}^{v}" for k, v in sorted((str(getattr(k, "name", k)), str(v)) for k, v in deps.items()))
    except Exception:  # pylint: disable=broad-except
        return "str:" + str(dim)


def value_fp(v, depth=0):
    import sympy as sp
    from symplyphysics import Quantity, QuantityVector
    if depth > 4:
        return ["U", type(v).__name__]
    if isinstance(v, BaseException):
        return ["X", type(v).__name__]
    if isinstance(v, Quantity):
        try:
            c = complex(sp.N(v.scale_factor))
            return ["Q", [c.real, c.imag], dim_key(v.dimension)]
        except Exception:  # pylint: disable=broad-except
            return ["U", "Quantity"]
    if isinstance(v, QuantityVector):
        return ["V", [value_fp(c, depth + 1) for c in v.components], dim_key(v.dimension)]
    if isinstance(v, bool) or v is None:
        return ["B", str(v)]
    if isinstance(v, (int, float, complex)):
        c = complex(v)
        return ["N", [c.real, c.imag]]
    if isinstance(v, (list, tuple)):
        return ["L", [value_fp(x, depth + 1) for x in v]]
    if isinstance(v, dict):
        return ["L", [value_fp(v[k], depth + 1) for k in sorted(v, key=str)]]
    if isinstance(v, sp.Basic):
        if v.is_number:
            try:
                c = complex(sp.N(v))
                return ["N", [c.real, c.imag]]
            except Exception:  # pylint: disable=broad-except
                pass
        inner = getattr(v, "components", None)
        if inner is not None and not callable(inner):
            try:
                return ["L", [value_fp(x, depth + 1) for x in inner]]
            except Exception:  # pylint: disable=broad-except
                pass
        text = sp.srepr(v)
        return ["E", text] if not GENERATED.search(text) else ["U", type(v).__name__]
    comps = getattr(v, "components", None)
    if comps is not None and not callable(comps):
        try:
            return ["L", [value_fp(x, depth + 1) for x in comps]]
        except Exception:  # pylint: disable=broad-except
            pass
    return ["U", type(v).__name__]


def _raw_fixture(obj):
    for getter in (lambda o: o._get_wrapped_function(),          # pytest >= 8.4  pylint: disable=protected-access
                   lambda o: o.__pytest_wrapped__.obj,            # pytest < 8.4
                   lambda o: o.__wrapped__):
        try:
            f = getter(obj)
            if callable(f):
                return f
        except Exception:  # pylint: disable=broad-except
            continue
    return None


def call_fingerprints(module, test_path, seed=0, max_tests=2, per_test_s=20) -> dict:
    """Run the module's own basic test functions with its public functions wrapped by a recorder."""
    publics = {n: f for n, f in vars(module).items()
               if not n.startswith("_") and inspect.isfunction(f) and f.__module__ == module.__name__}
    if not publics:
        return {"calls": [], "source": "no public functions"}
    if not test_path or not os.path.exists(test_path):
        return synth_call_fingerprints(module, seed)
    calls: list = []
    current = [""]

    def recorder(name, f):
        def wrapped(*a, **kw):
            idx = sum(1 for c in calls if c[0] == current[0])
            try:
                r = f(*a, **kw)
            except HardTimeout:
                raise
            except BaseException as e:  # pylint: disable=broad-except
                calls.append([current[0], idx, name, value_fp(e)])
                raise
            calls.append([current[0], idx, name, value_fp(r)])
            return r
        wrapped.__wrapped__ = f
        return wrapped

    notes = []
    try:
        spec = importlib.util.spec_from_file_location("verif_c03_test_" + module.__name__.replace(".", "_"), test_path)
        tmod = importlib.util.module_from_spec(spec)
        with time_limit(60):
            spec.loader.exec_module(tmod)
    except HardTimeout:
        return {"calls": [], "source": "test", "undecided": "test module import timed out"}
    except BaseException as e:  # pylint: disable=broad-except
        return {"calls": [], "source": "test", "undecided": f"test module not importable: {type(e).__name__}"}
    fixture = _raw_fixture(vars(tmod).get("test_args_fixture")) if "test_args_fixture" in vars(tmod) else None
    tests = []
    for n, f in vars(tmod).items():
        if n.startswith("test_") and inspect.isfunction(f) and f.__module__ == tmod.__name__ and "bad" not in n:
            params = list(inspect.signature(f).parameters)
            if params in ([], ["test_args"]) and (not params or fixture is not None):
                tests.append((f.__code__.co_firstlineno, n, f, params))
    tests.sort()
    for n, f in publics.items():
        setattr(module, n, recorder(n, f))
    try:
        for _line, n, f, params in tests[:max_tests]:
            current[0] = n
            try:
                with time_limit(per_test_s):
                    f(*([fixture()] if params else []))
            except HardTimeout:
                notes.append(f"{n}: timeout")
                calls[:] = [c for c in calls if c[0] != n]
            except BaseException:  # pylint: disable=broad-except
                pass      # the assertion of the test is not our subject; the recorded calls are
    finally:
        for n, f in publics.items():
            setattr(module, n, f)
    out = {"calls": calls, "source": "test"}
    if notes:
        out["undecided"] = "; ".join(notes)
    return out


def synth_call_fingerprints(module, seed) -> dict:
    from . import catalogue
    calls = []
    for g in catalogue.guarded_functions(module):
        if g.name.startswith("_"):
            continue
        try:
            with time_limit(20):
                args = catalogue.synth_arguments(seed, g, exact=False)
                if any(a is catalogue.UNKNOWN for a in args.values()):
                    continue
                try:
                    r = g.wrapper(**args)
                except HardTimeout:
                    raise
                except BaseException as e:  # pylint: disable=broad-except
                    r = e
                calls.append(["synth", 0, g.name, value_fp(r)])
        except HardTimeout:
            continue
        except BaseException:  # pylint: disable=broad-except
            continue
    return {"calls": calls, "source": "synthesised"}


def zero_probe(module, seed, max_pairs=4) -> list:
    """calculate_* calls with ONE ZERO-VALUED argument, made twice: with the arguments created one after the other,
    and with other code creating quantities between two of the arguments so that a digit-count boundary of the QTY
    counter (99/100, 999/1000, ...) falls between them - which reverses the order of the arguments' generated
    names.  Value AND dimension of the result must not depend on it.  Entries: ["zero" | "zeroB", 0, fn:param, fp]."""
    import sympy as sp
    from . import catalogue
    from symplyphysics import Quantity
    from symplyphysics.core.symbols import id_generator
    calls, pairs = [], 0
    for g in catalogue.guarded_functions(module):
        if g.name.startswith("_") or len(g.params) < 2:
            continue
        scalars = [p for p in g.params if p in g.inputs and catalogue.shape_of(g, p) == "scalar" and
                   isinstance(catalogue.declared_dimension(g.inputs[p]), sp.physics.units.Dimension)]
        for zp in scalars[:2]:
            if pairs >= max_pairs:
                return calls
            pairs += 1
            k = g.params.index(zp)
            split = k + 1 if k + 1 < len(g.params) else k       # the boundary falls between params split-1 and split
            for variant in ("zero", "zeroB"):
                try:
                    with time_limit(20):
                        args = {}
                        for idx, p in enumerate(g.params):
                            if variant == "zeroB" and idx == split:
                                cur = id_generator.last_id("QTY")
                                bound = 100
                                while bound <= cur + 1:
                                    bound *= 10
                                do_nextid("QTY", bound - 1 - cur)      # other code created quantities in between
                            if p == zp:
                                args[p] = catalogue.quantity_of(0, catalogue.declared_dimension(g.inputs[p]))
                            elif p in g.inputs:
                                args[p] = catalogue.synth_argument(seed, g, p, exact=False)
                            else:
                                args[p] = catalogue.synth_unguarded(seed, g, p, exact=False)
                        if any(a is catalogue.UNKNOWN for a in args.values()):
                            break
                        try:
                            r = g.wrapper(**args)
                        except HardTimeout:
                            raise
                        except BaseException as e:  # pylint: disable=broad-except
                            r = e
                        calls.append([variant, 0, f"{g.name}:{zp}", value_fp(r)])
                except HardTimeout:
                    break
                except BaseException:  # pylint: disable=broad-except
                    break
    return calls


def fingerprint(mname: str, test_path, seed, zero=False) -> dict:
    mod = sys.modules.get(mname)
    if mod is None:
        return {"missing": True}
    t0 = time.time()
    out = {"eqs": equation_fingerprints(mod)}
    out.update(call_fingerprints(mod, test_path, seed))
    if zero:
        out["calls"] = list(out.get("calls", [])) + zero_probe(mod, seed)
    out["s"] = round(time.time() - t0, 2)
    return out


# ---------------------------------------------------------------------------------------------------


def run(spec: dict) -> dict:
    rec = OwnerRecorder().install()          # imports symplyphysics with the sink already in place
    from symplyphysics.core.symbols import id_generator
    out: dict = {"hid": spec["hid"], "imports": [], "ids_after_base": dict(id_generator._ids),  # pylint: disable=protected-access
                 "hashseed": os.environ.get("PYTHONHASHSEED", "")}
    marks = [len(rec.events)]

    def in_thread(steps):
        """Run the nested steps in ANOTHER thread of this process (the counters are process-wide state: what a
        worker thread creates or imports is part of the same history)."""
        import threading
        err = []

        def body():
            try:
                for st in steps:
                    if st[0] == "create":
                        do_create(st[1], int(st[2]))
                    elif st[0] == "nextid":
                        do_nextid(st[1], int(st[2]))
                    elif st[0] == "import":
                        one_import(st[1])
            except BaseException as e:  # pylint: disable=broad-except
                err.append(e)
        th = threading.Thread(target=body)
        th.start()
        th.join()
        if err:
            raise err[0]

    def one_import(name):
        before = set(catalogue_loaded())
        t0 = time.time()
        entry = {"m": name, "ok": True, "ids_before": dict(id_generator._ids) if hasattr(id_generator, "_ids") else {}}  # pylint: disable=protected-access
        try:
            importlib.import_module(name)
        except BaseException as e:  # pylint: disable=broad-except
            tb = traceback.extract_tb(e.__traceback__)
            where = [f"{os.path.basename(fr.filename)}:{fr.lineno} {fr.line}" for fr in tb if "symplyphysics" in fr.filename][-2:]
            entry.update(ok=False, err=type(e).__name__, msg=str(e)[:200], where=where)
        entry["s"] = round(time.time() - t0, 2)
        entry["loaded"] = [m for m in catalogue_loaded() if m not in before]
        out["imports"].append(entry)

    for step in spec["steps"]:
        kind = step[0]
        if kind == "thread":
            in_thread(step[1])
        elif kind == "coreapi":
            out["coreapi_calls"] = do_coreapi()
        elif kind == "symbolic":
            out["symbolic_wrappers_created"] = do_symbolic()
        elif kind == "create":
            do_create(step[1], int(step[2]))
        elif kind == "nextid":
            do_nextid(step[1], int(step[2]))
        elif kind == "import":
            before = set(catalogue_loaded())
            t0 = time.time()
            entry = {"m": step[1], "ok": True, "ids_before": dict(id_generator._ids)}  # pylint: disable=protected-access
            try:
                with time_limit(spec.get("import_timeout", 600)):
                    importlib.import_module(step[1])
            except HardTimeout:
                entry.update(ok=False, err="Timeout", msg="import did not finish", timeout=True)
            except BaseException as e:  # pylint: disable=broad-except
                tb = traceback.extract_tb(e.__traceback__)
                where = [f"{os.path.basename(fr.filename)}:{fr.lineno} {fr.line}" for fr in tb if "symplyphysics" in fr.filename][-2:]
                entry.update(ok=False, err=type(e).__name__, msg=str(e)[:200], where=where)
            entry["s"] = round(time.time() - t0, 2)
            entry["loaded"] = [m for m in catalogue_loaded() if m not in before]
            out["imports"].append(entry)
        else:
            raise ValueError(f"unknown step {step!r}")
        marks.append(len(rec.events))
    out["events"] = rec.events
    out["owners"] = [o for o, _i in sorted(rec.owner_idx.items(), key=lambda x: x[1])]
    out["marks"] = marks
    out["ids_end"] = dict(id_generator._ids)  # pylint: disable=protected-access
    n_hist_events = len(rec.events)
    # ---- fingerprints (after the history; their own creations are not part of it)
    observe = spec.get("observe", [])
    if observe == "imported":
        ok = {e["m"] for e in out["imports"] if e["ok"]}
        observe = [m for m in catalogue_loaded() if m in ok or any(m in e["loaded"] and e["ok"] for e in out["imports"])]
    tests = spec.get("tests", {})
    seed = spec.get("seed", 0)
    workers = int(spec.get("fp_workers", 1))
    fps: dict = {}
    zero = bool(spec.get("zero_probe"))
    if zero:
        from symplyphysics.core import verif_hooks
        verif_hooks.sink = None          # the history is over: the probes' own (bulk) id allocations are not recorded
    if workers <= 1 or len(observe) < 2 * workers:
        for m in observe:
            fps[m] = fingerprint(m, tests.get(m), seed, zero)
    else:
        base = spec["_out"]
        pids = []
        for w in range(workers):
            pid = os.fork()
            if pid == 0:
                code = 0
                try:
                    part = {m: fingerprint(m, tests.get(m), seed) for m in observe[w::workers]}
                    with open(f"{base}.part{w}", "w", encoding="utf-8") as fh:
                        json.dump(part, fh)
                except BaseException:  # pylint: disable=broad-except
                    traceback.print_exc()
                    code = 1
                os._exit(code)  # pylint: disable=protected-access
            pids.append(pid)
        for w, pid in enumerate(pids):
            _, status = os.waitpid(pid, 0)
            if status != 0:
                raise RuntimeError(f"fingerprint worker {w} failed (status {status})")
            with open(f"{base}.part{w}", encoding="utf-8") as fh:
                fps.update(json.load(fh))
            os.unlink(f"{base}.part{w}")
    out["fps"] = fps
    out["events"] = out["events"][:n_hist_events]
    return out


def main() -> int:
    spec_path, out_path = sys.argv[1], sys.argv[2]
    with open(spec_path, encoding="utf-8") as fh:
        spec = json.load(fh)
    spec["_out"] = out_path
    result = run(spec)
    with open(out_path, "w", encoding="utf-8") as fh:
        json.dump(result, fh)
    return 0


if __name__ == "__main__":
    sys.exit(main())
