"""C06: symbolic dimension inference agrees with the declared dimensions and with evaluation on quantities.

spec -> code : TLC enumerates every behaviour of spec/ExprInfer.tla; each expression is built with real SymPy
               nodes over real symplyphysics Symbols / Functions / Quantities and given to the real
               collect_expression_and_dimension: refusal, dimension vector and value (under the model's rational
               assignment of the symbols) must equal the model's; then the commuting diagram of the statement is
               executed on the real code (symbols replaced by non-zero quantities, Quantity(...) built, dimensions
               compared) and the symbolic wrappers (Average, FiniteDifference) must report the same dimension.
code -> spec : post-order collector events (hook H3) validated by spec/ExprInferTrace.tla (c06_trace.py).
"""
from __future__ import annotations

import sys
from fractions import Fraction

from . import qc_common
from .common import HardTimeout, Run, main_wrapper, make_pool, pmap, time_limit
from .tlc import Scratch, run_tlc, write_cfg

PID = "C06"

OPS = {"mul2", "mul3", "add2", "add3", "pow", "abs", "min2", "max2", "exp"}
CFG = {
    "quick": dict(MaxLen=5, LeafNames={"n0", "n2", "nh", "nan", "m", "s", "q0m", "q2", "xs", "ts", "ks", "qang", "dft", "dgxt", "dLq", "fdx"},
                  OpNames={"mul2", "add2", "add3", "pow", "abs", "min2", "exp", "gapp"}),
    "thorough": dict(MaxLen=5, LeafNames={"n0", "n1", "n2", "n3", "nm1", "nh", "oo", "nan", "m", "km", "s", "kg", "q2m", "q0",
                                          "q0m", "qoos", "q2", "xs", "ys", "ts", "ks", "phis", "qang", "ps", "ft", "dft", "d2ft", "dgxt", "dLq", "fdx"},
                     OpNames=OPS | {"gapp"}),
}
DEEP = {
    "quick": [dict(MaxLen=7, LeafNames={"n2", "xs", "ts", "q0m"}, OpNames={"mul2", "add2", "pow"})],
    "thorough": [dict(MaxLen=7, LeafNames={"n0", "n2", "nm1", "m", "xs", "ts", "q0m", "dft"},
                      OpNames={"mul2", "add2", "pow", "abs", "max2"}),
                 dict(MaxLen=9, LeafNames={"n2", "xs", "ts", "q0m"}, OpNames={"mul2", "add2", "pow"})],
}
INVARIANTS = ["TypeOK", "CommutingDiagram", "InferRefusesLess"]

_L = None      # leaves
_ASSIGN = None  # atom -> rational value (for value equality)
_QSUB = None   # atom -> non-zero quantity of the declared dimension (for the diagram)
_GFUN = None   # the declared function G (energy) of the "gapp" node


def _init():
    global _L, _ASSIGN, _QSUB  # pylint: disable=global-statement
    import sympy as sp
    from sympy.physics import units
    from symplyphysics import Function, Quantity, Symbol
    leaves = qc_common.setup()
    x = Symbol("x", units.length)
    y = Symbol("y", units.length)
    t = Symbol("t", units.time)
    k = Symbol("k")
    from sympy.physics.units.definitions.dimension_definitions import angle as angle_type
    phi = Symbol("phi", angle_type)
    p = sp.Symbol("p")
    f = Function("f", [t], units.length)
    g = Function("g", [x, t], units.mass * units.length)
    ft = f(t)
    dft = sp.Derivative(ft, t)
    d2ft = sp.Derivative(ft, (t, 2))
    dgxt = sp.Derivative(g(x, t), x, t)
    lagr = Function("L", [ft, t], units.energy)
    dlq = sp.Derivative(lagr(ft, t), ft)
    gfun = Function("G", None, units.energy)
    from symplyphysics.core.operations.symbolic import FiniteDifference
    fdx = FiniteDifference(x)
    leaves.update({
        "q2": Quantity(2), "q0m": Quantity(0, dimension=units.length), "qoos": Quantity(sp.oo, dimension=units.time),
        "xs": x, "ys": y, "ts": t, "ks": k, "phis": phi, "ps": p, "ft": ft, "dft": dft, "d2ft": d2ft, "dgxt": dgxt, "dLq": dlq,
        "fdx": fdx,
    })
    global _GFUN  # pylint: disable=global-statement
    _GFUN = gfun
    _L = leaves
    _ASSIGN = {x: sp.Integer(3), y: sp.Integer(5), t: sp.Integer(7), k: sp.Integer(2), phi: sp.Integer(2), p: sp.Integer(4),
               ft: sp.Integer(11), dft: sp.Integer(13), d2ft: sp.Integer(-2), dgxt: sp.Integer(3), dlq: sp.Integer(19), fdx: sp.Integer(23)}
    m, s_, kg = units.meter, units.second, units.kilogram
    _QSUB = {x: Quantity(3 * m), y: Quantity(5 * m), t: Quantity(7 * s_), k: Quantity(2), p: Quantity(4),
             phi: Quantity(2, dimension=angle_type),
             ft: Quantity(11 * m), dft: Quantity(13 * m / s_), d2ft: Quantity(-2 * m / s_**2),
             dgxt: Quantity(3 * kg / s_), dlq: Quantity(19 * units.joule / m), fdx: Quantity(23 * m)}


def _sympy_rewrote(expr) -> bool:
    import sympy as sp
    from sympy.physics.units import Quantity as SymQuantity
    if expr.atoms(sp.re, sp.im, sp.arg, sp.conjugate, sp.sign, sp.log):      # (no generated program contains a logarithm)
        return True
    for p in expr.atoms(sp.Pow):
        if not isinstance(p.exp, SymQuantity) and p.exp.atoms(SymQuantity):
            return True
    return False


def _numeric(expr):
    """Value of a returned expression under the assignment: quantities -> SI numbers, symbols -> rationals."""
    import sympy as sp
    from sympy.physics.units import Quantity as SymQuantity
    rule = dict(_ASSIGN)
    # every application of the declared function G stands for the number 17 (its argument does not matter)
    expr = sp.sympify(expr).replace(lambda e: getattr(e, "func", None) == _GFUN, lambda e: sp.Integer(17))
    for q in expr.atoms(SymQuantity):
        dim = qc_common.project_dim(q.dimension)
        if dim is None:
            return None
        rule[q] = qc_common.to_si(q.scale_factor, dim)
    try:
        return sp.sympify(expr).xreplace(rule).doit()
    except HardTimeout:
        raise
    except Exception:  # pylint: disable=broad-except
        return None     # not evaluable under the assignment


def _compare(mode, what, obs_expr, obs_dim, case, out):
    exp_c, exp_v, exp_d = case["c"], case["v"], case["d"]
    val = _numeric(obs_expr)
    if val is None:
        out.append((mode, "outside", f"{what}: dimension outside the 8 bases, or the returned expression cannot be evaluated under the assignment"))
        return
    cls, frac = qc_common.classify(val)
    if exp_c in ("zero", "inf", "ninf", "nan"):
        if cls != exp_c:
            out.append((mode, "violation", f"{what}: value class {cls} ({qc_common.s_(val)}), model {exp_c}"))
        return
    dim = qc_common.project_dim(obs_dim)
    if dim != exp_d:
        out.append((mode, "violation", f"{what}: dimension {qc_common.s_(obs_dim)} -> {dim}, model {exp_d}"))
        return
    if exp_c == "irr":
        if cls not in ("irr", "float"):
            out.append((mode, "violation", f"{what}: value class {cls} ({qc_common.s_(val)}), model irrational finite"))
        return
    want = Fraction(exp_v[0], exp_v[1])
    if cls == "fin" and frac == want:
        return
    if cls == "float" and abs(frac - want) <= abs(want) * Fraction(1, 10**9):
        return
    out.append((mode, "violation", f"{what}: value {qc_common.s_(val)} under the assignment, model {want}"))


def replay_one(case):
    import sympy as sp
    from symplyphysics import Quantity
    from symplyphysics.core.dimensions import collect_expression_and_dimension
    from symplyphysics.core.operations.symbolic import Average, FiniteDifference
    if _L is None:
        _init()
    prog, exp_c = case["p"], case["c"]
    out = []
    composite_exp = any(tok == "pow" and prog[i - 1] not in _L for i, tok in enumerate(prog))
    for mode in ("asis", "evaluated"):
        if mode == "evaluated" and exp_c == "err":
            continue
        if mode == "asis" and composite_exp:
            # an unevaluated composite exponent (x**(2 + 2*2)) stays unevaluated inside the Dimension object
            out.append((mode, "outside", "unevaluated composite exponent"))
            continue
        try:
            with time_limit(5):
                expr = qc_common.build(prog, _L, evaluate=(mode == "evaluated"),
                                       extra_ops={"gapp": lambda args, ev: _GFUN(args[0])})
        except HardTimeout:
            out.append((mode, "outside", "sympy construction timed out"))
            continue
        except Exception as e:  # pylint: disable=broad-except
            out.append((mode, "outside", f"sympy construction raised {type(e).__name__}"))
            continue
        if mode == "evaluated" and exp_c == "nan" and any(t in ("q0", "q0m", "qoos") for t in prog):
            # 0 * (infinite-valued quantity): SymPy itself collapses the product, the quantity being a symbol to it
            out.append((mode, "outside", "SymPy evaluates a product of a literal with a zero/infinite-valued quantity symbolically"))
            continue
        if mode == "evaluated" and _sympy_rewrote(expr):
            out.append((mode, "outside", "SymPy's own evaluation introduced re/im/arg or merged quantity exponents"))
            continue
        try:
            with time_limit(5):
                oexpr, odim = collect_expression_and_dimension(expr)
            obs = "ok"
        except HardTimeout:
            out.append((mode, "outside", "inference did not return within 5 s"))
            continue
        except Exception as e:  # pylint: disable=broad-except
            obs = f"{type(e).__name__}: {str(e)[:100]}"
        if case.get("ao"):
            # an exponent of pure angle dimension: whether inference reports it is left open by the statement,
            # but IF inference succeeds, construction on quantities must succeed as well (last sentence of C06)
            if obs == "ok" and mode == "asis":
                try:
                    with time_limit(5):
                        Quantity(sp.sympify(expr).xreplace(_QSUB))
                except HardTimeout:
                    out.append((mode, "outside", "diagram: Quantity(...) timed out"))
                except Exception as e:  # pylint: disable=broad-except
                    out.append((mode, "violation", f"diagram: inference accepted an exponent of angle dimension (dim={qc_common.s_(odim)}) "
                                                   f"but Quantity(substituted) raised {type(e).__name__}: {str(e)[:100]}"))
            else:
                out.append((mode, "outside", "exponent of pure angle dimension: verdict of inference left open by the statement"))
            continue
        if exp_c == "err":
            if obs == "ok":
                out.append((mode, "violation", f"model reports an error, inference returned dim={qc_common.s_(odim)}"))
            continue
        if obs != "ok":
            out.append((mode, "violation", f"model accepts ({exp_c}), inference raised {obs}"))
            continue
        # derivatives of the undefined functions f, g, L are algebraically independent values: an expression that is
        # value-equal to the input for every such function contains no derivative the input does not contain
        try:
            foreign = [d for d in sp.sympify(oexpr).atoms(sp.Derivative) if d not in sp.sympify(expr).atoms(sp.Derivative)]
        except Exception:  # pylint: disable=broad-except
            foreign = []
        if foreign:
            out.append((mode, "violation", f"inference: returned expression contains {qc_common.s_(foreign[0])}, "
                                           f"a derivative that the input {qc_common.s_(expr)} does not contain (not value-equal)"))
            continue
        try:
            with time_limit(5):
                _compare(mode, "inference", oexpr, odim, case, out)
        except HardTimeout:
            out.append((mode, "outside", "evaluation of the returned expression timed out"))
            continue
        if mode != "asis":
            continue
        # the symbolic wrappers take their dimension from inference
        if len(prog) > 1 and exp_c in ("fin", "irr") and "nan" not in prog:     # (SymPy cannot even print NaN-valued products)
            for wrapper in (Average, FiniteDifference):
                try:
                    w = wrapper(expr)
                    wd = qc_common.project_dim(w.dimension)
                    if exp_c in ("fin", "irr") and wd != case["d"]:
                        out.append((mode, "violation", f"{wrapper.__name__}(..).dimension {qc_common.s_(w.dimension)}, model {case['d']}"))
                except Exception as e:  # pylint: disable=broad-except
                    out.append((mode, "violation", f"model accepts, {wrapper.__name__}(..) raised {type(e).__name__}"))
        # the commuting diagram on the real code
        if case["f"]:
            continue
        try:
            with time_limit(5):
                sub = sp.sympify(expr).xreplace(_QSUB)
                q = Quantity(sub)
        except HardTimeout:
            out.append((mode, "outside", "diagram: Quantity(...) timed out"))
            continue
        except Exception as e:  # pylint: disable=broad-except
            out.append((mode, "violation", f"diagram: inference accepted but Quantity(substituted) raised "
                                           f"{type(e).__name__}: {str(e)[:100]}"))
            continue
        if exp_c in ("fin", "irr"):
            qd = qc_common.project_dim(q.dimension)
            if qd != qc_common.project_dim(odim):
                out.append((mode, "violation", f"diagram: quantity dimension {qc_common.s_(q.dimension)}, inferred {qc_common.s_(odim)}"))
    return case, out


def enumerate_and_replay(run: Run, sc, cfgd: dict, pool, label: str) -> None:
    cfg = write_cfg(sc / f"ei_{label}.cfg", constants=cfgd, invariants=INVARIANTS)
    res = run_tlc("ExprInfer", cfg, sc, workers=8, coverage=True, allow_violation=False)
    run.add_tlc(res, f"model check {label}: invariants {INVARIANTS}, MaxLen={cfgd['MaxLen']} "
                     f"leaves={len(cfgd['LeafNames'])} ops={len(cfgd['OpNames'])}")
    cfg2 = write_cfg(sc / f"ei_{label}_emit.cfg", constants=cfgd, invariants=["Emit"])
    res2 = run_tlc("ExprInfer", cfg2, sc, workers=1, allow_violation=False)
    cases = res2.printed
    res2.output = ""
    run.coverage.setdefault("programs_emitted", {})[label] = len(cases)
    if label == "wide":
        run.cases_for_traces = cases
    refused = 0
    for case, out in pmap(pool, replay_one, cases):
        run.traces += 1
        key = " ".join(case["p"])
        run.count(key if len(case["p"]) > 1 else None)
        refused += case["c"] == "err"
        if len(case["p"]) >= 4 and case["s"]:
            run.sample(f"{key} -> class={case['c']} value={case['v']} dim={case['d']}")
        for mode, kind, what in out:
            if kind == "outside":
                run.outside(f"{mode}: {what}")
            else:
                run.violation(f"{mode}: {key}", what, {"program": case["p"], "mode": mode, "model": case})
    run.coverage.setdefault("model_refusals_replayed", {})[label] = refused


def main() -> int:
    tier = sys.argv[1] if len(sys.argv) > 1 else "quick"
    if tier == "--replay":
        return replay_file(sys.argv[2])
    run = Run(PID, tier)
    _init()
    with Scratch() as sc, make_pool() as pool:
        enumerate_and_replay(run, sc, CFG[tier], pool, "wide")
        for i, c in enumerate(DEEP[tier]):
            enumerate_and_replay(run, sc, c, pool, f"deep{i}")
        from . import c06_trace
        c06_trace.validate(run, sc, tier)
    run.assumptions += [
        "value equality is checked under one fixed rational assignment of the symbols (x=3, y=5, t=7, ...)",
        "sub-expressions containing symbols whose value is zero/infinite under the assignment, symbolic exponents, "
        "infinite/NaN operands next to symbols, irrational results (class level only) are outside the decided fragment",
    ]
    return run.finish(exhaustive=True)


def replay_file(path: str) -> int:
    import json
    data = json.loads(open(path).read())
    case = data["case"]["model"]
    _, out = replay_one(case)
    bad = [o for o in out if o[1] == "violation"]
    for o in bad:
        print(f"VIOLATION property={PID} replay={path}\n  {o}")
    print("replayed:", " ".join(case["p"]), "->", "violation" if bad else "ok")
    return 1 if bad else 0


if __name__ == "__main__":
    main_wrapper(main)
