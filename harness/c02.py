"""C02 (exact fragment): calculation functions return solutions of the law they belong to.

model        : the arithmetic semantics of spec/PrintEval.tla over GF(p) (ring laws model-checked by TLC).
code -> spec : for every decorated calculate_* function whose parameters and result can be tied to the symbols of
               the module's published equation, exact rational arguments are synthesised, the REAL function is
               called, and if the returned value is an exact rational (times a power of pi) the call is recorded:
               both sides of the equation as postfix programs + the images of the SI values in two prime fields.
               spec/LawEvalTrace.tla (TLC) decides HOLDS / FAILS / UNDEC for every recorded call.
Outside the fragment (counted, never an alarm): results that are floats or irrational, laws containing functions,
roots, derivatives, integrals, float constants; functions whose parameters cannot be tied to law symbols.
"""
from __future__ import annotations

import inspect
import json
import sys
from fractions import Fraction

from . import catalogue
from .common import HardTimeout, Run, main_wrapper, time_limit
from .qc_common import project_dim
from .tlc import Scratch, run_tlc, write_cfg

PID = "C02"
PRIMES = (46337, 46327)      # = Primes of spec/PrintEval.tla
MODEL_CFG = dict(MaxLen=4, LeafNames={"a", "b", "n2", "nm1", "h", "pi"}, OpNames={"add2", "mul2", "neg", "div", "sq", "inv"},
                 P=46337, PointSeed=7)


class Unsupported(Exception):
    pass


def law_of(mod):
    import sympy as sp
    for name in ("law", "definition", "condition"):
        v = getattr(mod, name, None)
        if isinstance(v, sp.Equality):
            return name, v
    return None, None


def bind(g, mod, law):
    """Tie parameters and result of the function to symbols of the law
    -> ({param: symbol | indexed base}, result symbol) | reason."""
    import sympy as sp
    from sympy.tensor.indexed import Idx, Indexed
    bases = {a.base for a in law.atoms(Indexed)}
    labels = {getattr(b, "label", None) for b in bases}
    syms = {x for x in law.free_symbols if isinstance(x, sp.Symbol) and not isinstance(x, (Idx, Indexed))
            and x not in labels}
    by_attr = {name: v for name, v in vars(mod).items() if isinstance(v, sp.Symbol) and v in syms}
    from sympy.tensor.indexed import IndexedBase
    base_by_attr = {name: v for name, v in vars(mod).items() if isinstance(v, IndexedBase) and v in bases}
    binding = {}
    for p in g.params:
        decl = g.inputs.get(p)
        stem = p.rstrip("_")
        if isinstance(decl, sp.Symbol) and decl in syms:
            binding[p] = decl
        elif isinstance(decl, IndexedBase) and decl in bases:
            binding[p] = decl
        elif isinstance(decl, (tuple, list)) and decl and all(isinstance(d, sp.Symbol) and d in syms for d in decl):
            binding[p] = tuple(decl)        # element-wise declaration: (speed, angle)
        elif stem in by_attr:
            binding[p] = by_attr[stem]
        elif stem in base_by_attr or stem.rstrip("s") in base_by_attr:
            binding[p] = base_by_attr.get(stem) or base_by_attr[stem.rstrip("s")]
        else:
            return "parameter cannot be tied to a law symbol"
    bound = [s for v in binding.values() for s in (v if isinstance(v, tuple) else (v,))]
    if len(set(bound)) != len(bound):
        return "two parameters tied to the same symbol"
    out = None
    if isinstance(g.output, sp.Symbol) and g.output in syms:
        out = g.output
    elif g.name.startswith("calculate_") and g.name[len("calculate_"):] in by_attr:
        out = by_attr[g.name[len("calculate_"):]]
    else:
        rest = syms - set(bound)
        if len(rest) == 1:
            out = next(iter(rest))
    if out is None or out in bound:
        return "result cannot be tied to a law symbol"
    if (syms | bases) - set(bound) - {out}:
        return "law has symbols that are neither parameters nor the result"
    return binding, out


def exact_value(e, symidx, ctx, at=None):
    """Exact rational value (sympy Rational, possibly times pi**k) of a sub-expression under the recorded values."""
    import sympy as sp
    from sympy.tensor.indexed import Indexed
    if isinstance(e, Indexed):
        key = (e.base, at[e.indices[0]]) if at and len(e.indices) == 1 and e.indices[0] in at else None
        if key not in symidx:
            raise Unsupported("indexed symbol outside a sum over its own sequence")
        return ctx["vals"][symidx[key] - 1]
    if e in symidx:
        return ctx["vals"][symidx[e] - 1]
    if e.is_Rational or e is sp.pi:
        return e
    from sympy.physics.units import Quantity as SymQuantity
    if isinstance(e, SymQuantity):
        v = si_rational(e)
        if v is None or v[1] != 0:
            raise Unsupported("physical constant with an inexact value inside the law")
        return sp.Rational(v[0].numerator, v[0].denominator)
    name = type(e).__name__
    if name in ("IndexedSum", "IndexedProduct"):
        body, idx = e.args[0], e.args[1]
        n = max(sum(1 for key in symidx if isinstance(key, tuple) and key[0] == a.base) for a in body.atoms(Indexed))
        parts = [exact_value(body, symidx, ctx, {**(at or {}), idx: k}) for k in range(n)]
        return sp.Add(*parts) if name == "IndexedSum" else sp.Mul(*parts)
    if isinstance(e, (sp.Add, sp.Mul)):
        return e.func(*[exact_value(a, symidx, ctx, at) for a in e.args])
    if isinstance(e, sp.Pow) and e.exp.is_Rational:
        return exact_value(e.base, symidx, ctx, at) ** e.exp
    if isinstance(e, (sp.sin, sp.cos, sp.tan)):
        return trig_value(e.func, exact_value(e.args[0], symidx, ctx, at))[0]
    raise Unsupported(type(e).__name__)


TRIG_CODE = {"sin": 1, "cos": 2, "tan": 3}


def trig_value(func, arg):
    """Exact rational value of sin/cos/tan at a rational multiple of pi -> (value, n, d) with arg = n/d * pi."""
    import sympy as sp
    q = sp.nsimplify(sp.sympify(arg) / sp.pi)
    if not getattr(q, "is_Rational", False) or abs(int(q.p)) > 10**6 or int(q.q) > 12:
        raise Unsupported("irrational trigonometric value (argument is not a small rational multiple of pi)")
    val = func(q * sp.pi)
    if not getattr(val, "is_Rational", False):
        raise Unsupported("irrational trigonometric value")
    return val, int(q.p), int(q.q)


def compile_side(e, symidx, out, at=None, ctx=None):
    """symidx: symbol -> leaf index, (indexed base, k) -> leaf index of element k; at: {idx: k} inside a sum.
    ctx (optional): {"vals": exact values of the leaves, "side": side conditions} - enables rational exponents:
    x**(p/q) is compiled as r**p for a NEW leaf r whose recorded value is the exact positive q-th root of x's
    value, together with the side condition r**q = x (itself decided by TLC)."""
    import sympy as sp
    from sympy.physics.units import Quantity as SymQuantity
    from sympy.tensor.indexed import Indexed
    name = type(e).__name__
    if not isinstance(e, Indexed) and e in symidx:
        out.append(["sym", symidx[e], 0])
    elif isinstance(e, Indexed):
        if at is None or len(e.indices) != 1 or e.indices[0] not in at or (e.base, at[e.indices[0]]) not in symidx:
            raise Unsupported("indexed symbol outside a sum over its own sequence")
        out.append(["sym", symidx[(e.base, at[e.indices[0]])], 0])
    elif name in ("IndexedSum", "IndexedProduct"):
        body, idx = e.args[0], e.args[1]
        lens = {sum(1 for key in symidx if isinstance(key, tuple) and key[0] == a.base) for a in body.atoms(Indexed)}
        if len(lens) != 1:
            raise Unsupported("indexed sum over sequences of different lengths")
        n = lens.pop()
        if n == 0:
            raise Unsupported("empty sequence")
        for k in range(n):
            compile_side(body, symidx, out, {**(at or {}), idx: k}, ctx)
        out.append(["add" if name == "IndexedSum" else "mul", n, 0])
    elif e.is_Integer:
        if abs(int(e)) >= 2**31 - 1:
            raise Unsupported("huge integer literal")
        out.append(["int", int(e), 0])
    elif e.is_Rational:
        if abs(int(e.p)) >= 2**31 - 1 or int(e.q) >= 2**31 - 1:
            raise Unsupported("huge rational literal")
        out.append(["rat", int(e.p), int(e.q)])
    elif e is sp.pi:
        out.append(["cst", 1, 0])
    elif isinstance(e, sp.Add):
        for a in e.args:
            compile_side(a, symidx, out, at, ctx)
        out.append(["add", len(e.args), 0])
    elif isinstance(e, sp.Mul):
        for a in e.args:
            compile_side(a, symidx, out, at, ctx)
        out.append(["mul", len(e.args), 0])
    elif isinstance(e, sp.Pow) and e.exp.is_Integer and abs(int(e.exp)) <= 64:
        compile_side(e.base, symidx, out, at, ctx)
        out.append(["powi", int(e.exp), 0])
    elif isinstance(e, sp.Pow) and e.exp.is_Rational and ctx is not None and int(e.exp.q) <= 4 and abs(int(e.exp.p)) <= 16:
        q, p = int(e.exp.q), int(e.exp.p)
        base_val = exact_value(e.base, symidx, ctx, at)
        root = sp.sympify(base_val) ** sp.Rational(1, q)
        if not (getattr(root, "is_Rational", False) and root > 0):
            raise Unsupported("irrational root")
        ctx["vals"].append(root)
        leaf = len(ctx["vals"])
        side_a, side_b = [["sym", leaf, 0], ["powi", q, 0]], []
        compile_side(e.base, symidx, side_b, at, ctx)
        ctx["side"].append((side_a, side_b))
        out.append(["sym", leaf, 0])
        if p != 1:
            out.append(["powi", p, 0])
    elif isinstance(e, (sp.sin, sp.cos, sp.tan)) and ctx is not None:
        # the value of sin/cos/tan at n/d * pi is a NEW leaf whose recorded value is the exact rational value; TLC
        # decides the two side conditions  argument = n/d * pi  and  leaf = TrigVal(function, n, d)  (its own table)
        val, n, d = trig_value(e.func, exact_value(e.args[0], symidx, ctx, at))
        ctx["vals"].append(val)
        leaf = len(ctx["vals"])
        arg_prog = []
        compile_side(e.args[0], symidx, arg_prog, at, ctx)
        ctx["trig"].append((arg_prog, [["rat", n, d], ["cst", 1, 0], ["mul", 2, 0]], [TRIG_CODE[e.func.__name__], n, d, leaf]))
        out.append(["sym", leaf, 0])
    elif isinstance(e, SymQuantity):
        v = si_rational(e)          # an exactly known constant (speed of light ...) is one more leaf
        if v is None or v[1] != 0 or ctx is None:
            raise Unsupported("physical constant with an inexact value inside the law")
        ctx["vals"].append(sp.Rational(v[0].numerator, v[0].denominator))
        out.append(["sym", len(ctx["vals"]), 0])
    else:
        raise Unsupported(type(e).__name__)


ANGLE_MENU = {
    frozenset({"cos"}): [(1, 3), (2, 3), (1, 1), (4, 3), (5, 3)],
    frozenset({"sin"}): [(1, 6), (5, 6), (1, 2), (7, 6), (3, 2)],
    frozenset({"tan"}): [(1, 4), (3, 4), (5, 4)],
    frozenset({"sin", "cos"}): [(1, 2), (1, 1), (3, 2), (2, 1)],
}


def special_angles(seed, g, law, binding, seq_params, tup, args):
    """Arguments for scalar parameters of angle dimension that occur inside sin/cos/tan of the law: rational
    multiples of pi at which the functions that use them take rational values (so the call stays exact)."""
    import sympy as sp
    from sympy.physics.units.definitions.dimension_definitions import angle as angle_type
    out = {}

    def pick(sym, dim, *key):
        if dim != angle_type:
            return None
        used = frozenset(type(f).__name__ for f in law.atoms(sp.sin, sp.cos, sp.tan) if f.has(sym))
        menu = ANGLE_MENU.get(used)
        if not menu:
            return None
        n, d = menu[catalogue.stable_hash(seed, g.qualname, "angle", tup, *key) % len(menu)]
        return catalogue.quantity_of(sp.Rational(n, d) * sp.pi, dim)

    for p in g.params:
        if p in seq_params or p not in g.inputs:
            continue
        dim = catalogue.declared_dimension(g.inputs.get(p))
        if isinstance(binding[p], tuple):
            if not isinstance(dim, list) or not isinstance(args.get(p), (list, tuple)) or len(dim) != len(args[p]):
                continue
            new = [pick(s, d, p, j) for j, (s, d) in enumerate(zip(binding[p], dim))]
            if any(x is not None for x in new):
                out[p] = [x if x is not None else old for x, old in zip(new, args[p])]
            continue
        q = pick(binding[p], dim, p)
        if q is not None:
            out[p] = q
    return out


def si_rational(x):
    """Exact SI value of an argument/result: Fraction, or (Fraction, k) for q*pi**k; None if not exact."""
    import sympy as sp
    from sympy.physics.units import Quantity as SymQuantity
    if isinstance(x, SymQuantity):
        sf = sp.sympify(x.scale_factor)
        dim = project_dim(x.dimension)
        if dim is None:
            return None
        m = Fraction(dim[1][0], dim[1][1])
        if m.denominator != 1:
            return None
        sf = sf / sp.Integer(1000) ** int(m)
    else:
        sf = sp.sympify(x)
    k = 0
    if sf.has(sp.pi):
        coeff, rest = sf.as_independent(sp.pi)
        if rest == sp.pi:
            k = 1
        elif isinstance(rest, sp.Pow) and rest.base is sp.pi and rest.exp.is_Integer:
            k = int(rest.exp)
        else:
            return None
        sf = coeff
    if not getattr(sf, "is_Rational", False):
        return None
    return Fraction(int(sf.p), int(sf.q)), k


def residues(fr: Fraction):
    out = []
    for p in PRIMES:
        if fr.denominator % p == 0:
            return None
        out.append(fr.numerator % p * pow(fr.denominator % p, -1, p) % p)
    return out


def scale_args(seed, g, args, tup):
    """Arguments actually passed: every synthesised value is SQUARED (products and quotients of squares are
    squares, so many laws with square roots stay inside the exact fragment), and from the second tuple on the
    magnitudes are moved by even powers of ten."""
    import sympy as sp
    from sympy.physics.units import Quantity as SymQuantity
    from symplyphysics import Quantity

    def one(p, a, k=0):
        if isinstance(a, SymQuantity):
            v = si_rational(a)
            if v is None or v[1] != 0:
                return a
            e = (catalogue.stable_hash(seed, g.qualname, p, "mag", tup, k) % 3 - 1) * 4 if tup else 0
            return Quantity(a * sp.Rational(v[0].numerator, v[0].denominator) * sp.Integer(10)**e)
        if isinstance(a, sp.Rational) and not a.is_Integer:
            return a * a
        return a

    out = {}
    for p, a in args.items():
        out[p] = [one(p, x, k) for k, x in enumerate(a)] if isinstance(a, list) else one(p, a)
    return out


def records_for(g, mod, seed, tuples):
    """-> (list of records, list of (reason) undecided)"""
    import sympy as sp
    lname, law = law_of(mod)
    if law is None:
        return [], ["module has no single published equation"]
    b = bind(g, mod, law)
    if isinstance(b, str):
        return [], [b]
    binding, out_sym = b
    tup_params = [p for p in g.params if isinstance(binding[p], tuple)]
    seq_params = [p for p in g.params if not isinstance(binding[p], (sp.Symbol, tuple))]
    try:
        src = inspect.getsource(g.func)
    except OSError:
        src = ""
    alt = any(w in src for w in ("abs(", "Abs(", "vector_magnitude"))
    if "ceiling" in src or "floor(" in src:
        return [], ["rounded result (ceiling/floor)"]
    import re
    if re.search(r"\b(min|max|sorted)\(", src):
        # e.g. the spherical capacitor orders its two radii itself: which argument stands for which symbol
        # is decided inside the function, so the parameter -> symbol binding is not fixed
        return [], ["function reorders its arguments (min/max): parameter-symbol binding not fixed"]
    recs, und = [], []
    seq_lengths = [2, 3, 4, 1, 3, 2]
    for tup in range(tuples):
        base = catalogue.synth_arguments(seed + 1000 * tup, g, exact=True)
        for p in seq_params:        # sequences of different lengths from call to call (history matters, too)
            dim = catalogue.declared_dimension(g.inputs.get(p))
            if dim is None or isinstance(dim, list):
                base[p] = catalogue.UNKNOWN
                continue
            base[p] = [catalogue.quantity_of(sp.Rational(*catalogue.synth_value(seed + 1000 * tup, g, p, i).as_integer_ratio()), dim)
                       for i in range(seq_lengths[tup % len(seq_lengths)])]
        if any(v is catalogue.UNKNOWN for v in base.values()):
            und.append("arguments cannot be synthesised")
            break
        try:
            args = scale_args(seed, g, base, tup)
            args.update(special_angles(seed, g, law, binding, seq_params, tup, args))
            with time_limit(20):
                res = g.wrapper(**args)
        except HardTimeout:
            und.append("call timed out")
            continue
        except Exception as e:  # pylint: disable=broad-except
            und.append(f"call rejected the synthesised arguments ({type(e).__name__})")
            continue
        # leaves: scalars and sequence elements in parameter order, the result last
        order, symidx = [], {}
        if any(not isinstance(args[p], (list, tuple)) or len(args[p]) != len(binding[p]) for p in tup_params):
            und.append("element-wise declaration without an element-wise argument")
            break
        for p in g.params:
            if p in seq_params:
                for k2, elem in enumerate(args[p]):
                    order.append(elem)
                    symidx[(binding[p], k2)] = len(order)
            elif p in tup_params:
                for k2, elem in enumerate(args[p]):
                    order.append(elem)
                    symidx[binding[p][k2]] = len(order)
            else:
                order.append(args[p])
                symidx[binding[p]] = len(order)
        order.append(res)
        symidx[out_sym] = len(order)
        vals, pik = [], {len(order): 0}      # pik: leaf -> power of pi that multiplies its rational value
        for x in order[:-1]:
            v = si_rational(x)
            if v is None or v[1] not in (0, 1):
                vals = None
                break
            vals.append(v[0])
            if v[1]:
                pik[len(vals)] = 1
        rv = si_rational(res) if vals is not None else None
        if vals is None or rv is None:
            und.append("result or argument is not an exact rational (float / irrational / sequence)")
            continue
        rfr, k = rv
        pik[len(order)] = k
        ctx = {"vals": [sp.Rational(v.numerator, v.denominator) * sp.pi**pik.get(i + 1, 0) for i, v in enumerate(vals)] +
                       [sp.Rational(rfr.numerator, rfr.denominator) * sp.pi**k], "side": [], "trig": []}
        try:
            a_prog, b_prog = [], []
            compile_side(law.lhs, symidx, a_prog, None, ctx)
            compile_side(law.rhs, symidx, b_prog, None, ctx)
        except Unsupported as u:
            und.append(f"law outside the arithmetic fragment: {u}")
            if "root" not in str(u) and "trigonometric" not in str(u):
                break
            continue
        roots = [Fraction(int(r.p), int(r.q)) for r in ctx["vals"][len(vals) + 1:]]
        pts = [residues(v) for v in vals + [rfr] + roots]
        ptn = residues(-rfr)
        if any(x is None for x in pts) or ptn is None:
            und.append("value not representable mod p")
            continue
        # the result symbol (and an angle argument) stands for q * pi**k: replace its leaf by that sub-program
        def with_pi(prog, pik=pik):
            o = []
            for tok in prog:
                if tok[0] == "sym" and pik.get(tok[1], 0):
                    o += [tok, ["cst", 1, 0], ["powi", pik[tok[1]], 0], ["mul", 2, 0]]
                else:
                    o.append(tok)
            return o
        rid = f"{g.qualname}#{tup}"
        recs.append({"id": rid, "a": with_pi(a_prog), "b": with_pi(b_prog),
                     "pt1": [x[0] for x in pts], "pt2": [x[1] for x in pts], "alt": alt, "trig": [],
                     "pta1": [x[0] if i != len(vals) else ptn[0] for i, x in enumerate(pts)],
                     "pta2": [x[1] if i != len(vals) else ptn[1] for i, x in enumerate(pts)],
                     "_info": {"function": g.qualname, "law": f"{lname}: {law}"[:300],
                               "arguments": {p: str(args[p])[:200] for p in g.params}, "si_values": [str(v) for v in vals],
                               "result": str(res), "result_si": f"{rfr}" + (f"*pi**{k}" if k else ""),
                               "roots": [str(r) for r in roots]}})
        for j, (sa, sb) in enumerate(ctx["side"]):      # r**q = radicand, decided by TLC as well
            recs.append({"id": f"{rid}/root{j}", "a": with_pi(sa), "b": with_pi(sb),
                         "pt1": [x[0] for x in pts], "pt2": [x[1] for x in pts], "alt": False, "trig": [],
                         "pta1": [x[0] for x in pts], "pta2": [x[1] for x in pts],
                         "_info": {"function": g.qualname, "side_condition": True}})
        for j, (sa, sb, tr) in enumerate(ctx["trig"]):  # argument = n/d * pi and leaf = TrigVal(fn, n, d), decided by TLC
            recs.append({"id": f"{rid}/trig{j}", "a": with_pi(sa), "b": with_pi(sb),
                         "pt1": [x[0] for x in pts], "pt2": [x[1] for x in pts], "alt": False, "trig": tr,
                         "pta1": [x[0] for x in pts], "pta2": [x[1] for x in pts],
                         "_info": {"function": g.qualname, "side_condition": True}})
    return recs, und


def main() -> int:
    tier = sys.argv[1] if len(sys.argv) > 1 else "quick"
    run = Run(PID, tier)
    only = None
    if tier == "--replay":
        data = json.loads(open(sys.argv[2]).read())
        only = data["case"]["function"]
        run.tier = tier = "quick"
    tuples = 2 if tier == "quick" else 6
    with Scratch() as sc:
        cfg = write_cfg(sc / "pe.cfg", constants=MODEL_CFG, invariants=["TypeOK", "RingLaws", "PowLaws", "EvalAgrees"])
        res = run_tlc("PrintEval", cfg, sc, workers=8, coverage=True, allow_violation=False)
        run.add_tlc(res, "model check of the field semantics (ring and power laws, evaluator agreement) on a small alphabet")
        recs = []
        nfunc = 0
        decided_funcs = set()
        for name in catalogue.list_modules():
            mod, err = catalogue.load(name)
            if mod is None:
                run.outside("module does not import (C03's business)")
                continue
            for g in catalogue.guarded_functions(mod):
                if only and g.qualname != only:
                    continue
                nfunc += 1
                r, und = records_for(g, mod, run.seed, tuples)
                for u in und:
                    run.outside(u)
                recs += r
                if r:
                    decided_funcs.add(g.qualname)
        run.coverage["functions"] = nfunc
        run.coverage["functions_with_recorded_calls"] = len(decided_funcs)
        info = {r["id"]: r.pop("_info") for r in recs}
        path = sc / "c02.json"
        # self-test records binding the trace machinery: F = m*a with (2, 3, 6) must HOLD, with (2, 3, 7) must FAIL
        prog_a, prog_b = [["sym", 3, 0]], [["sym", 1, 0], ["sym", 2, 0], ["mul", 2, 0]]
        selftest = [{"id": f"__selftest_{n}__", "a": prog_a, "b": prog_b, "pt1": [2, 3, v], "pt2": [2, 3, v], "alt": False,
                     "pta1": [2, 3, v], "pta2": [2, 3, v], "trig": []} for n, v in (("holds", 6), ("fails", 7))]
        # cos(pi/3) = 1/2: the leaf holding 1/2 HOLDS, the leaf holding 1/3 FAILS (binding of the trigonometric table)
        third = [["rat", 1, 3], ["cst", 1, 0], ["mul", 2, 0]]
        for n, fr in (("trig_holds", Fraction(1, 2)), ("trig_fails", Fraction(1, 3))):
            r1, r2 = residues(fr)
            selftest.append({"id": f"__selftest_{n}__", "a": third, "b": third, "pt1": [r1], "pt2": [r2], "alt": False,
                             "pta1": [r1], "pta2": [r2], "trig": [2, 1, 3, 1]})
        path.write_text(json.dumps(recs + selftest))
        cfg = write_cfg(sc / "le.cfg", init="TraceInit", next_="TraceNext", invariants=["Report"],
                        constants=MODEL_CFG)
        res = run_tlc("LawEvalTrace", cfg, sc, workers=1, env={"TRACE_FILE": str(path)}, allow_violation=False)
        run.add_tlc(res, f"trace validation: {len(recs)} recorded calls decided by evaluating both sides of the law in two prime fields")
        verdicts = {v[1]: v[0] for v in res.printed}
        st = (verdicts.pop("__selftest_holds__", None), verdicts.pop("__selftest_fails__", None))
        st2 = (verdicts.pop("__selftest_trig_holds__", None), verdicts.pop("__selftest_trig_fails__", None))
        if st != ("HOLDS", "FAILS") or st2 != ("HOLDS", "FAILS"):
            raise RuntimeError(f"self-test of the trace specification failed: {st} {st2}")
        run.coverage["selftest"] = "F = m*a: (2,3,6) HOLDS, (2,3,7) FAILS; cos(pi/3): leaf 1/2 HOLDS, leaf 1/3 FAILS (binding of LawEvalTrace)"
        if set(verdicts) != set(info):
            raise RuntimeError("verdicts do not cover the recorded calls")
        counts = {}
        for rid, v in verdicts.items():
            if info[rid].get("side_condition"):
                if v != "HOLDS":
                    raise RuntimeError(f"side condition {rid} (exact root / trigonometric value) does not hold: {v}")
                kind = "trigonometric" if "/trig" in rid else "root"
                counts[f"{kind} side conditions HOLD"] = counts.get(f"{kind} side conditions HOLD", 0) + 1
                continue
            counts[v] = counts.get(v, 0) + 1
            run.traces += 1
            run.count(rid)
            if v == "FAILS":
                i = info[rid]
                run.violation(i["function"], f"returned {i['result']} for {i['arguments']}; with these values the "
                                             f"published equation {i['law']} does not hold", i)
            elif v == "UNDEC":
                run.outside("denominator vanishes in a prime field")
            elif len(run.samples) < 5:
                run.sample({"call": rid, **info[rid], "verdict": v})
        run.coverage["verdicts"] = counts
    run.assumptions += [
        "decides only calls whose arguments and result are exact rationals (times a power of pi) and laws built from "
        "sums, products, integer powers and rational literals; everything else is counted as outside the fragment",
        "SI value = scale factor / 1000^(mass exponent); parameters are tied to law symbols by decorator declaration "
        "or by the name convention <attribute>_",
    ]
    rc = run.finish(exhaustive=False)
    return rc


if __name__ == "__main__":
    main_wrapper(main)
