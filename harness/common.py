"""Shared plumbing of all checks: verdict bookkeeping, known findings, evidence, exit codes.

exit 0  property held on everything explored (KNOWN-FINDING lines allowed)
exit 1  at least one violation not listed in known_findings.json
        (one line `VIOLATION property=<id> replay=<path>` each)
exit 2  machinery failure (TLC crash, harness exception) - never a verdict
"""
from __future__ import annotations

import hashlib
import json
import os
import sys
import time
import traceback
from pathlib import Path

VERIF = Path(__file__).resolve().parent.parent
REPO = Path(os.environ.get("VERIF_REPO", "/repo"))
EVIDENCE = Path(os.environ.get("VERIF_EVIDENCE_DIR") or VERIF / "evidence")   # mutant trials write elsewhere
REPLAYS = VERIF / "replays"
KNOWN = VERIF / "known_findings.json"
PY = "/venv/bin/python"
GUARD = "SYMPLYPHYSICS_VERIF"


def repo_env(hooks: bool = True, hashseed: int | str = 0, extra: dict | None = None) -> dict:
    e = dict(os.environ)
    e["PYTHONPATH"] = f"{REPO}:{VERIF}"
    e["PYTHONHASHSEED"] = str(hashseed)
    e["PYTHONDONTWRITEBYTECODE"] = "1"
    if hooks:
        e[GUARD] = "1"
    else:
        e.pop(GUARD, None)
    e.update(extra or {})
    return e


def load_known(pid: str) -> dict:
    if not KNOWN.exists():
        return {}
    data = json.loads(KNOWN.read_text())
    return {f["key"]: f for f in data.get("findings", []) if f["property"] == pid}


class Run:
    """One run of one check."""

    def __init__(self, pid: str, tier: str, level: str = "model_checking"):
        self.pid = pid
        self.tier = tier
        self.level = level
        self.seed = int(os.environ.get("VERIF_SEED", "0") or 0)
        self.t0 = time.time()
        self.known = load_known(pid)
        self.violations: list[dict] = []
        self.known_hit: dict[str, dict] = {}
        self.coverage: dict = {}
        self.assumptions: list[str] = []
        self.states = 0
        self.transitions = 0
        self.traces = 0
        self.evaluations = 0
        self.nontrivial: set = set()
        self.samples: list = []
        self.undecided: dict[str, int] = {}
        self.tlc_runs: list[dict] = []

    # -- bookkeeping -----------------------------------------------------
    def add_tlc(self, res, what: str) -> None:
        """Account a TLC run (model check or trace validation) in the evidence."""
        self.states += res.distinct
        self.transitions += max(res.generated - 1, 0)
        entry = {"what": what, "module": res.module, "states_generated": res.generated,
                 "distinct_states": res.distinct, "depth": res.depth, "wall_s": round(res.wall_s, 2)}
        if res.coverage:
            entry["action_coverage"] = {k: list(v) for k, v in sorted(res.coverage.items())}
            never = [k for k, v in res.coverage.items() if v[1] == 0]
            if never:
                entry["actions_never_taken"] = never
        self.tlc_runs.append(entry)

    def sample(self, case, limit: int = 6) -> None:
        if len(self.samples) < limit:
            self.samples.append(case)

    def count(self, key=None, n: int = 1) -> None:
        self.evaluations += n
        if key is not None:
            self.nontrivial.add(key if isinstance(key, (str, int, tuple)) else json.dumps(key, sort_keys=True))

    def outside(self, reason: str, n: int = 1) -> None:
        """A case outside the decided fragment: counted, never an alarm, never coverage."""
        self.undecided[reason] = self.undecided.get(reason, 0) + n

    def violation(self, key: str, what: str, replay: dict | None = None) -> None:
        """Report a violation identified by a stable key.  Known findings are matched by key."""
        if key in self.known:
            self.known_hit[key] = self.known[key]
            return
        if any(v["key"] == key for v in self.violations):
            return
        self.violations.append({"key": key, "what": what, "replay": replay or {}})

    # -- finish ------------------------------------------------------------
    def finish(self, extra_coverage: dict | None = None, exhaustive: bool | None = None) -> int:
        wall = time.time() - self.t0
        for key, f in sorted(self.known_hit.items()):
            print(f"KNOWN-FINDING: property={self.pid} {key}: {f.get('what', '')}")
        paths = []
        REPLAYS.mkdir(exist_ok=True)
        for v in self.violations[:50]:
            h = hashlib.sha1(v["key"].encode()).hexdigest()[:12]
            d = REPLAYS / self.pid
            d.mkdir(exist_ok=True)
            p = d / f"{h}.json"
            p.write_text(json.dumps({"property": self.pid, "key": v["key"], "what": v["what"],
                                     "case": v["replay"]}, indent=1, default=str))
            paths.append(p)
            print(f"VIOLATION property={self.pid} replay={p}")
            print(f"  {v['key']}: {v['what']}"[:600])
        if len(self.violations) > 50:
            print(f"  ... and {len(self.violations) - 50} more violations")
        cov = {
            "states": self.states,
            "transitions": self.transitions,
            "traces_validated_against_impl": self.traces,
            "evaluations": self.evaluations,
            "distinct_nontrivial": len(self.nontrivial),
            "samples": self.samples or ["(none)"],
            "tlc_runs": self.tlc_runs,
            "outside_decided_fragment": self.undecided,
            "known_findings_seen": sorted(self.known_hit),
        }
        if exhaustive is not None:
            cov["exhaustive"] = exhaustive
        cov.update(self.coverage)
        cov.update(extra_coverage or {})
        ev = {
            "property_id": self.pid,
            "tier": self.tier,
            "seed": self.seed,
            "level": self.level,
            "coverage": cov,
            "assumptions": self.assumptions,
            "wall_s": round(wall, 2),
            "violations": len(self.violations),
        }
        EVIDENCE.mkdir(exist_ok=True)
        (EVIDENCE / f"{self.pid}.json").write_text(json.dumps(ev, indent=1, default=str) + "\n")
        print(f"{self.pid} {self.tier}: states={self.states} transitions={self.transitions} "
              f"behaviours/traces bound to code={self.traces} evaluations={self.evaluations} "
              f"violations={len(self.violations)} known={len(self.known_hit)} wall={wall:.1f}s")
        return 1 if self.violations else 0


class HardTimeout(BaseException):
    """Raised by time_limit; a BaseException so that library code's `except Exception` cannot swallow it."""


class time_limit:  # pylint: disable=invalid-name
    """SIGALRM-based time limit for one call into SymPy / the library (main thread of a worker process)."""

    def __init__(self, seconds: float):
        self.seconds = seconds
        self.old = None

    def _raise(self, *_):
        raise HardTimeout()

    def __enter__(self):
        import signal
        self.old = signal.signal(signal.SIGALRM, self._raise)
        # repeating timer: fire again until we are out, should the first one be swallowed
        signal.setitimer(signal.ITIMER_REAL, self.seconds, 0.2)

    def __exit__(self, exc_type, *rest):
        import signal
        fired = False
        for _ in range(5):
            # the repeating timer may fire once more while the block is being left: disarm and restore the old
            # handler whatever happens, and turn a late alarm into an ordinary timeout of THIS block
            try:
                signal.setitimer(signal.ITIMER_REAL, 0, 0)
                signal.signal(signal.SIGALRM, self.old)
                break
            except HardTimeout:
                fired = True
        if fired and exc_type is None:
            raise HardTimeout()
        return False


def make_pool(workers: int = 16):
    """Process pool (fork: workers inherit the imported library).  A dying worker raises
    BrokenProcessPool -> machinery failure, instead of hanging like multiprocessing.Pool."""
    import multiprocessing as mp
    from concurrent.futures import ProcessPoolExecutor
    pool = ProcessPoolExecutor(max_workers=workers, mp_context=mp.get_context("fork"))
    # fork the workers NOW (with the fork context all of them are started at the first submit): later the
    # parent holds millions of emitted cases, and workers forked then would copy them page by page
    pool.submit(int, 0).result()
    return pool


def _apply_chunk(args):
    fn, chunk = args
    out = []
    for c in chunk:
        for attempt in range(3):
            try:
                out.append(fn(c))
                break
            except HardTimeout:
                # a stray alarm of a time limit that had already been left (an alarm can fire in the few
                # instructions before time_limit.__exit__ disarms the repeating timer): disarm and redo the case
                import signal
                signal.setitimer(signal.ITIMER_REAL, 0, 0)
                if attempt == 2:
                    raise
    return out


def pmap(pool, fn, cases, chunk: int = 200):
    """Unordered parallel map over cases in chunks; yields fn(case) results."""
    from concurrent.futures import as_completed
    cases = list(cases)
    futs = [pool.submit(_apply_chunk, (fn, cases[i:i + chunk])) for i in range(0, len(cases), chunk)]
    for f in as_completed(futs):
        yield from f.result()


def main_wrapper(fn) -> None:
    """Run a check's main; map unexpected exceptions to exit 2."""
    try:
        rc = fn()
    except SystemExit:
        raise
    except BaseException:  # pylint: disable=broad-except
        traceback.print_exc()
        print("MACHINERY-FAILURE (exit 2): the check itself failed; this is not a verdict")
        sys.exit(2)
    sys.exit(rc)
