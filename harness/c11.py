"""C11: changing the coordinate system preserves the geometric vector and the scalar field.

model        : spec/Rebase.tla - state = exact Cartesian data of the object + current representation; Rebase(to)
               allowed only Cartesian <-> cylindrical and Cartesian <-> spherical, cylindrical <-> spherical
               refused; TLC checks that no path of rebases changes the Cartesian data / dot / magnitude / field value.
spec -> code : TLC emits every path of depth 4 (quick) / 6 (thorough) from every start system for Pythagorean
               points of several octants (all trigonometric values rational).  Each path is replayed with the
               real Vector.rebase, scale_vector, dot_vectors, vector_magnitude / ScalarField.rebase and
               ScalarField.__call__ on Cartesian / Cylinder / Sphere points; after every action the real
               (system, components) is projected to Cartesian by the textbook formulas of harness/geom.py and
               compared exactly with the model, together with the curvilinear dot product and magnitude.
code -> spec : the projected real states are recorded and spec/RebaseTrace.tla lets TLC step the Rebase machine
               along every recorded path: each recorded step must be a step of the specification.
"""
from __future__ import annotations

import json
import sys
import time
from fractions import Fraction

from .common import HardTimeout, Run, main_wrapper, make_pool, pmap, time_limit
from .geom import exact_value, in_threads, is_pythagorean, rat
from .tlc import Scratch, run_tlc, write_cfg

PID = "C11"

# indices into Rebase!PythagoreanPoints (= geom.BASE_POINTS + geom.PLANE_POINTS), 1-based
# Scales: indices into Rebase!ScaleTable  1: 2   2: -2   3: 1/2   4: -1/2   5: 3   6: -1   7: -3
TIERS = {
    "quick": dict(
        vector=[dict(MaxDepth=4, PointIdx={1, 5}, Octants={1, 4, 6}, PartnerIdx=2, Scales={2, 4}),
                # a Cartesian system rotated against the parent as an extra representation
                dict(MaxDepth=3, PointIdx={1, 5}, Octants={1, 4, 6, 7}, PartnerIdx=2, Scales={2}, Rotated=True),
                # vectors with fewer than three components (Cartesian, cylindrical, spherical-on-the-axis)
                dict(MaxDepth=3, PointIdx={13, 15, 16}, Octants={2, 3, 5}, PartnerIdx=2, Scales={5, 6})],
        field=[dict(MaxDepth=4, PointIdx={1, 5}, Octants={1, 4, 6}, PartnerIdx=2, Scales=set()),
               # points of the plane z = 0 / the x axis, also given with fewer than three coordinates
               dict(MaxDepth=3, PointIdx={13, 15}, Octants={1, 2, 3}, PartnerIdx=2, Scales=set()),
               # azimuth-dependent fields at points of all octants (x < 0 included)
               dict(MaxDepth=3, PointIdx={8}, Octants={1, 2, 3, 4, 5, 6, 7, 8}, PartnerIdx=2, Scales=set(), MaxDegree=0,
                    AngleFields=True)],
        symbolic=True),
    "thorough": dict(
        vector=[dict(MaxDepth=6, PointIdx={1}, Octants={1, 6}, PartnerIdx=4, Scales={2}),
                dict(MaxDepth=5, PointIdx={1, 5}, Octants={1, 4, 6, 7}, PartnerIdx=4, Scales={2, 4}),
                dict(MaxDepth=4, PointIdx={1, 2, 3, 4, 5, 6, 7, 8, 9, 10, 11, 12}, Octants={2, 3, 5, 8}, PartnerIdx=1, Scales={3, 7}),
                dict(MaxDepth=4, PointIdx={13, 14, 15, 16}, Octants={1, 2, 3, 4, 5}, PartnerIdx=2, Scales={2, 5}),
                dict(MaxDepth=4, PointIdx={1, 2, 5, 13, 16}, Octants={1, 2, 3, 4, 5, 6, 7, 8}, PartnerIdx=4, Scales={2}, Rotated=True)],
        field=[dict(MaxDepth=5, PointIdx={1, 5}, Octants={1, 4, 6, 7}, PartnerIdx=2, Scales=set()),
               dict(MaxDepth=3, PointIdx={2, 3, 6, 8, 12, 13}, Octants={2, 3, 5, 8}, PartnerIdx=2, Scales=set()),
               dict(MaxDepth=4, PointIdx={8, 17}, Octants={1, 2, 3, 4, 5, 6, 7, 8}, PartnerIdx=2, Scales=set(), MaxDegree=0,
                    AngleFields=True)],
        symbolic=True),
}
MAX_DEGREE = 2
INVARIANTS = ["TypeOK", "FieldAppliesToOwnPoints", "MagnitudeIsNorm", "AwayFromAxis", "Small32"]
PROPERTIES = ["RebasePreservesObject", "RefusalIsInert", "NoDirectCylSph", "ScaleIsLinear"]

_SYS = None


def _init():
    """One Cartesian system and the cylindrical / spherical systems derived from it."""
    global _SYS  # pylint: disable=global-statement
    if _SYS is None:
        import sympy as sp
        from symplyphysics.core.coordinate_systems.coordinate_systems import (CoordinateSystem, coordinates_rotate,
            coordinates_transform)
        c = CoordinateSystem()
        _SYS = {"cart": c, "cyl": coordinates_transform(c, CoordinateSystem.System.CYLINDRICAL),
                "sph": coordinates_transform(c, CoordinateSystem.System.SPHERICAL),
                # Cartesian, turned about z by the angle with cosine 3/5 and sine 4/5 (Rebase!"rot")
                "rot": coordinates_rotate(c, sp.atan(sp.Rational(4, 3)), c.coord_system.k)}
    return _SYS


def _type_name(cs):
    from symplyphysics.core.coordinate_systems.coordinate_systems import CoordinateSystem
    if cs is _init()["rot"]:
        return "rot"
    return {CoordinateSystem.System.CARTESIAN: "cart", CoordinateSystem.System.CYLINDRICAL: "cyl",
            CoordinateSystem.System.SPHERICAL: "sph"}[cs.coord_system_type]


# ---------------------------------------------------------------------------------------------------------
# the harness' own textbook formulas.  Library convention (core): cylindrical (r, theta = azimuth, z),
# spherical (r, theta = azimuth, phi = polar angle from +z).

AXIS_AZIMUTH = (4, 3)      # the (arbitrary) azimuth atan2(4, 3) written into a spherical vector that lies on the z axis


def coords_of(cart, kind):
    """Coordinates of the Cartesian integer point in the given kind of system (library component order)."""
    import sympy as sp
    x, y, z = (sp.Integer(c) for c in cart)
    if kind == "cart":
        return [x, y, z]
    if kind == "cyl":
        return [sp.sqrt(x**2 + y**2), sp.atan2(y, x), z]
    r = sp.sqrt(x**2 + y**2 + z**2)
    if x == 0 and y == 0:       # on the axis: any azimuth describes the vector; polar angle 0 or pi
        return [r, sp.atan2(*AXIS_AZIMUTH), sp.Integer(0) if z > 0 else sp.pi]
    return [r, sp.atan2(y, x), sp.acos(z / r)]


def project(kind, comps):
    """(system kind, real components) -> Cartesian components by the textbook formulas."""
    import sympy as sp
    c = list(comps) + [sp.Integer(0)] * (3 - len(comps))
    if kind == "cart":
        return c
    if kind == "rot":           # components in the frame turned by (cos, sin) = (3/5, 4/5) about z -> parent frame
        return [(3 * c[0] - 4 * c[1]) / 5, (4 * c[0] + 3 * c[1]) / 5, c[2]]
    if kind == "cyl":
        r, theta, z = c
        return [r * sp.cos(theta), r * sp.sin(theta), z]
    r, theta, phi = c
    return [r * sp.sin(phi) * sp.cos(theta), r * sp.sin(phi) * sp.sin(theta), r * sp.cos(phi)]


def make_vector(cart, kind):
    """The vector in the given kind of system; trailing zero components are LEFT OUT (a missing component is a
    zero component): [x, y], [x], cylindrical [r, theta], [r], spherical [r, theta] (polar angle 0: along +z)."""
    from symplyphysics import Vector
    comps = coords_of(cart, kind)
    while len(comps) > 1 and comps[-1] == 0:
        comps = comps[:-1]
    return Vector(comps, _init()[kind])


HALF_SIN, HALF_COS = [-1, 0, 0], [-2, 0, 0]       # Rebase!HalfSinField, Rebase!HalfCosField


def field_expression(expo, kind, q1, q2, q3):
    """The field written by hand in the coordinates (q1, q2, q3) of the given kind of system: the Cartesian monomial
    x^i y^j z^k, or rho sin(azimuth/2) + z, or rho cos(azimuth/2) - z."""
    import sympy as sp
    if kind == "cart":
        x, y, z = q1, q2, q3
        rho, theta = sp.sqrt(x**2 + y**2), sp.atan2(y, x)
    elif kind == "cyl":
        rho, theta, z = q1, q2, q3
        x, y = rho * sp.cos(theta), rho * sp.sin(theta)
    else:
        rho, theta, z = q1 * sp.sin(q3), q2, q1 * sp.cos(q3)
        x, y = rho * sp.cos(theta), rho * sp.sin(theta)
    if list(expo) == HALF_SIN:
        return rho * sp.sin(theta / 2) + z
    if list(expo) == HALF_COS:
        return rho * sp.cos(theta / 2) - z
    i, j, k = expo
    return x**i * y**j * z**k


def make_field(expo, kind, ctor):
    from symplyphysics.core.fields.scalar_field import ScalarField
    cs = _init()[kind]
    if ctor == "lambda":
        if kind == "cart":
            fn = lambda p: field_expression(expo, kind, p.x, p.y, p.z)   # noqa: E731
        elif kind == "cyl":
            fn = lambda p: field_expression(expo, kind, p.r, p.theta, p.z)   # noqa: E731
        else:
            fn = lambda p: field_expression(expo, kind, p.r, p.theta, p.phi)   # noqa: E731
        return ScalarField(fn, cs)
    return ScalarField.from_expression(field_expression(expo, kind, *cs.coord_system.base_scalars()), cs)


def make_point(cart, kind, short=False):
    """The point of the given kind; short=True leaves trailing zero coordinates out (missing = 0)."""
    from symplyphysics.core.points.cartesian_point import CartesianPoint
    from symplyphysics.core.points.cylinder_point import CylinderPoint
    from symplyphysics.core.points.sphere_point import SpherePoint
    cls = {"cart": CartesianPoint, "cyl": CylinderPoint, "sph": SpherePoint}[kind]
    coords = coords_of(cart, kind)
    if short:
        while len(coords) > 1 and coords[-1] == 0:
            coords = coords[:-1]
    return cls(*coords)


# ---------------------------------------------------------------------------------------------------------
# replay of one group of paths sharing a start (walked as a trie: common prefixes are executed once)

class _Ctx:
    def __init__(self):
        self.problems = []      # (path index, step index, clause, what)
        self.outside = {}
        self.steps = 0
        self.t0 = time.time()
        self.observed = {}      # prefix (tuple of (act, arg)) -> recorded projection of the real state
        self.records = []       # one record per executed real step, for spec/RebaseTrace.tla
        self.rewrite = True     # try expensive exact rewriting before falling back to the numeric comparison


def _cmp(ctx, where, clause, expr, want, label, rewrite=True):
    """Compare a real value with the model's; returns the real value as [n, d] when it is known exactly."""
    want = Fraction(*want) if isinstance(want, (list, tuple)) else Fraction(want)
    verdict, value = exact_value(expr, want, rewrite)
    if verdict == "different":
        ctx.problems.append((where, clause, f"{label}: real value {expr}, model {want}"))
    elif verdict == "numeric-equal":
        ctx.outside["value not reduced to a rational by SymPy (agrees numerically to 40 digits)"] = \
            ctx.outside.get("value not reduced to a rational by SymPy (agrees numerically to 40 digits)", 0) + 1
    return None if value is None else rat(value)


def observe_vector(ctx, where, va, vb, repr_, obs):
    """Compare the projection of the real state with the model's observation; returns the recorded projection."""
    from symplyphysics.core.vectors import arithmetics as ar
    rec = {"a": None, "b": None, "dot": None, "msq": None, "mag": None, "unit": None, "proj": None,
           "kind": _type_name(va.coordinate_system)}
    for name, v in (("a", va), ("b", vb)):
        kind = _type_name(v.coordinate_system)
        if kind != repr_:
            ctx.problems.append((where, "system", f"vector {name} is in a {kind} system, model {repr_}"))
            return rec
        if len(v.components) > 3:
            ctx.problems.append((where, "system", f"vector {name} has {len(v.components)} components"))
            return rec
        proj = project(kind, v.components)
        fr = [_cmp(ctx, where, f"cartesian {name}[{i}]", c, want, f"{kind} components {list(v.components)} project to")
              for i, (c, want) in enumerate(zip(proj, obs[name]))]
        rec[name] = None if any(f is None for f in fr) else fr
    rec["dot"] = _cmp(ctx, where, "dot", ar.dot_vectors(va, vb), obs["dot"], f"dot_vectors in {repr_}")
    mag = ar.vector_magnitude(va)
    rec["mag"] = _cmp(ctx, where, "magnitude", mag, obs["mag"], f"vector_magnitude of {list(va.components)} in {repr_}")
    rec["msq"] = _cmp(ctx, where, "magnitude squared", mag**2, obs["msq"], f"vector_magnitude^2 in {repr_}")
    # unit vector and projection onto b, computed by the library in the current system, as Cartesian data
    for name, fn, args in (("unit", ar.vector_unit, (va,)), ("proj", ar.project_vector, (va, vb))):
        res = fn(*args)
        kind = _type_name(res.coordinate_system)
        if kind != repr_ or len(res.components) > 3:
            ctx.problems.append((where, name, f"{fn.__name__} returned a vector of a {kind} system with {len(res.components)} components"))
            continue
        cart = project(kind, res.components)
        fr = [_cmp(ctx, where, f"{name}[{i}]", c, want, f"{fn.__name__} in {repr_} = {list(res.components)} projects to")
              for i, (c, want) in enumerate(zip(cart, obs[name]))]
        rec[name] = None if any(f is None for f in fr) else fr
    return rec


def observe_field(ctx, where, field, cart, repr_, obs):
    kind = _type_name(field.coordinate_system)
    rec = {"value": None, "refused": [], "kind": kind}
    if kind != repr_:
        ctx.problems.append((where, "system", f"field is in a {kind} system, model {repr_}"))
        return rec
    for pk, expect in sorted(obs["apply"].items()):
        try:
            val = field(make_point(cart, pk))
            out = ("ok", val)
        except HardTimeout:
            raise
        except Exception as e:  # pylint: disable=broad-except
            out = ("raised", type(e).__name__)
        if expect == "refused":
            if out[0] != "raised":
                ctx.problems.append((where, f"apply {pk} point", f"{kind} field accepted a {pk} point and returned {out[1]}"))
            else:
                rec["refused"].append(pk)
        else:
            if out[0] == "raised":
                ctx.problems.append((where, f"apply {pk} point", f"{kind} field refused its own kind of point: {out[1]}"))
            else:
                # half-angle values are rational but SymPy does not reduce them: decided numerically (40 digits)
                rec["value"] = _cmp(ctx, where, "field value", out[1], obs["value"], f"{kind} field at the physical point {cart}",
                                    rewrite=ctx.rewrite)
                # the same point given with fewer coordinates (trailing zeros left out: missing = 0)
                short = make_point(cart, pk, short=True)
                if len(list(short.coordinates)) < 3:
                    try:
                        _cmp(ctx, where, "field value at a short point", field(short), obs["value"],
                             f"{kind} field at {cart} given with {len(list(short.coordinates))} coordinates", rewrite=ctx.rewrite)
                    except HardTimeout:
                        raise
                    except Exception as e:  # pylint: disable=broad-except
                        ctx.problems.append((where, "field value at a short point", f"{kind} field refused its own kind of point: {type(e).__name__}"))
    return rec


def replay_group(group):
    """group = dict(obj, start, a, b, ctor, nodes={prefix of (act, arg): expected step}) ->
    (problems [(prefix, clause, what)], outside, steps, records)"""
    _init()
    ctx = _Ctx()
    obj, start = group["obj"], group["start"]
    cart_a, b = group["a"], group["b"]
    ctx.rewrite = not (obj == "field" and list(b) in (HALF_SIN, HALF_COS))
    try:
        with time_limit(STEP_SECONDS):
            if obj == "vector":
                state = (make_vector(cart_a, start["repr"]), make_vector(b, start["repr"]))
                rec0 = observe_vector(ctx, (), state[0], state[1], start["repr"], start["obs"])
            else:
                state = make_field(b, start["repr"], group["ctor"])
                rec0 = observe_field(ctx, (), state, cart_a, start["repr"], start["obs"])
        ctx.observed[()] = rec0
        # tree of the behaviours
        trie, index = {}, {(): None}
        for prefix in sorted(group["nodes"], key=len):
            parent = trie if len(prefix) == 1 else index[prefix[:-1]]["next"]
            index[prefix] = parent[prefix[-1]] = {"step": group["nodes"][prefix], "prefix": prefix, "next": {}}
        if not ctx.problems:
            _walk(ctx, group, state, trie, ())
    except HardTimeout:
        ctx.outside["start state timed out (SymPy)"] = ctx.outside.get("start state timed out (SymPy)", 0) + 1
    return group["gid"], ctx.problems, ctx.outside, ctx.steps, ctx.records


def _step_record(group, pre, act, arg, refused, post):
    """What the real code did in one step, in the vocabulary of RebaseTrace.tla; None when not exactly recordable."""
    if any(v is None for v in pre.values()) or any(v is None for v in post.values()):
        return None
    if group["obj"] == "vector":
        # the recorded pre-state as integers over a common denominator: a = num / den, |a| = magn / den
        from math import lcm
        if any(d != 1 for _, d in pre["b"]):
            return None
        den = lcm(*[d for _, d in pre["a"]], pre["mag"][1])
        a, b = [n * (den // d) for n, d in pre["a"]], [n for n, _ in pre["b"]]
        magn = pre["mag"][0] * (den // pre["mag"][1])
        if magn < 0 or den > 4096 or max(abs(x) for x in a) > 10**6:
            return None
        post_obs = {k: post[k] for k in ("a", "b", "dot", "msq", "mag", "unit", "proj")}
    else:
        a, b, den, magn = group["a"], group["b"], 1, 0
        post_obs = {"value": post["value"], "refused": post["refused"]}
    return {"obj": group["obj"], "repr": pre["kind"], "a": a, "den": den, "magn": magn, "b": b, "act": act, "arg": arg,
            "refused": bool(refused), "post_repr": post["kind"], "post": post_obs, "prefix": None}


STEP_SECONDS = 30
GROUP_SECONDS = 900


def _one_step(ctx, group, state, step, where, act, arg, prefix):
    """Execute one real action and observe; returns (projection record, new real state, refused) or None."""
    from symplyphysics.core.vectors import arithmetics as ar
    obj, cart_a = group["obj"], group["a"]
    new_state, refused = state, None
    if act == "rebase":
        target = _init()[arg]
        try:
            if obj == "vector":
                new_state = (state[0].rebase(target), state[1].rebase(target))
            else:
                new_state = state.rebase(target)
            refused = False
        except HardTimeout:
            raise
        except Exception as e:  # pylint: disable=broad-except
            refused = f"{type(e).__name__}: {str(e)[:80]}"
            new_state = state
    elif act == "scale":
        import sympy as sp
        kn, kd = arg.split("/")
        new_state = (ar.scale_vector(sp.Rational(int(kn), int(kd)), state[0]), state[1])
        refused = False
    if step["ok"] and refused:
        ctx.problems.append((where, f"{act} {arg}", f"model allows {act} to {arg} from {prefix[-1:] or 'start'}, code raised {refused}"))
        return None
    if not step["ok"] and not refused:
        got = [list(v.components) for v in new_state] if obj == "vector" else new_state.to_expression()
        ctx.problems.append((where, f"{act} {arg}", f"model refuses the direct transformation to {arg}, code answered {got}"))
        return None
    if obj == "vector":
        rec = observe_vector(ctx, where, new_state[0], new_state[1], step["repr"], step["obs"])
    else:
        rec = observe_field(ctx, where, new_state, cart_a, step["repr"], step["obs"])
    return rec, new_state, refused


def _walk(ctx, group, state, trie, prefix):
    for key, node in trie.items():
        step = node["step"]
        where = node["prefix"]
        act, arg = key
        ctx.steps += 1
        before = len(ctx.problems)
        try:
            with time_limit(STEP_SECONDS):
                rec = _one_step(ctx, group, state, step, where, act, arg, prefix)
        except HardTimeout:
            ctx.outside["step timed out (SymPy); the paths below it were not replayed"] = \
                ctx.outside.get("step timed out (SymPy); the paths below it were not replayed", 0) + 1
            continue
        if rec is None:
            continue
        rec, new_state, refused = rec
        ctx.observed[prefix + (key,)] = rec
        record = _step_record(group, ctx.observed[prefix], act, arg, refused, rec)
        if record is not None:
            record["prefix"] = [list(k) for k in prefix + (key,)]
            ctx.records.append(record)
        if len(ctx.problems) > before:
            continue           # a failing step is reported once; the paths below it start from a wrong state
        if time.time() - ctx.t0 > GROUP_SECONDS:
            ctx.outside["group budget exhausted (SymPy slow); deeper paths not replayed"] = \
                ctx.outside.get("group budget exhausted (SymPy slow); deeper paths not replayed", 0) + 1
            continue
        _walk(ctx, group, new_state, node["next"], prefix + (key,))


# ---------------------------------------------------------------------------------------------------------

def _acts(path):
    return " ".join(f"{s['act']}:{s['arg']}" for s in path)


def _group_cases(cases, ctors):
    """Emitted states -> groups sharing a start; nodes = {prefix of (act, arg): expected step after it}."""
    groups = {}
    for case in cases:
        a, b = case["start"]["a"], case["start"]["b"]
        on_axis = case["obj"] == "vector" and a[0] == 0 and a[1] == 0 and a[2] != 0
        if not (is_pythagorean(a) or on_axis) or (case["obj"] == "vector" and not is_pythagorean(b)):
            raise RuntimeError(f"the model emitted a non-Pythagorean point {a} {b}")
        prefix = tuple((x[0], x[1]) for x in case["acts"])
        for ctor in ctors if case["obj"] == "field" else ("-",):
            key = (case["obj"], case["start"]["repr"], tuple(a), tuple(b), ctor)
            g = groups.setdefault(key, dict(obj=case["obj"], start=case["start"], a=a, b=b, ctor=ctor, nodes={}))
            g["nodes"][prefix] = case["last"]
    out = list(groups.values())
    for gid, g in enumerate(out):
        g["gid"] = gid
    return out


def steps_of(group, prefix):
    """The expected steps along a prefix."""
    return [group["nodes"][tuple(prefix[:k])] for k in range(1, len(prefix) + 1)]


def _consts(c, obj):
    return {"MaxDepth": c["MaxDepth"], "Object": obj, "PointIdx": set(c["PointIdx"]), "Octants": set(c["Octants"]),
            "PartnerIdx": c["PartnerIdx"], "MaxDegree": c.get("MaxDegree", MAX_DEGREE), "Scales": set(c["Scales"]),
            "AngleFields": bool(c.get("AngleFields", False)), "Rotated": bool(c.get("Rotated", False))}


def run_tlc_configs(run, sc, tier):
    """Model-check and emit all configurations side by side."""
    jobs, labels = [], []
    for obj in ("vector", "field"):
        for n, c in enumerate(TIERS[tier][obj]):
            label = f"{obj}{n}"
            consts = _consts(c, obj)
            cfg = write_cfg(sc / f"rb_{label}.cfg", constants=consts, invariants=INVARIANTS, properties=PROPERTIES)
            cfg2 = write_cfg(sc / f"rb_{label}_emit.cfg", constants=consts, invariants=["Emit"])
            jobs.append((lambda cfg=cfg: run_tlc("Rebase", cfg, sc, workers=4, coverage=True, allow_violation=False), ()))
            jobs.append((lambda cfg2=cfg2: run_tlc("Rebase", cfg2, sc, workers=1, allow_violation=False, heap_gb=12), ()))
            labels.append((label, obj, c))
    results = in_threads(jobs, max_threads=6)
    emitted = {}
    for i, (label, obj, c) in enumerate(labels):
        res, res2 = results[2 * i], results[2 * i + 1]
        run.add_tlc(res, f"model check {label}: {INVARIANTS + PROPERTIES}, bounds {json.dumps({k: sorted(v) if isinstance(v, set) else v for k, v in c.items()})}")
        emitted[label] = (obj, res2.printed, c["MaxDepth"])
        res2.output = ""
        run.coverage.setdefault("paths_emitted", {})[label] = sum(1 for x in res2.printed if len(x["acts"]) == c["MaxDepth"])
    return emitted


MAX_LISTED = 300


def report(run, key, what, replay):
    """run.violation, but after MAX_LISTED distinct violations the rest is only counted (a badly broken
    implementation fails hundreds of thousands of cases; listing them all is useless and quadratic)."""
    if len(run.violations) >= MAX_LISTED and key not in run.known:
        run.coverage["violations_beyond_the_listed_ones"] = run.coverage.get("violations_beyond_the_listed_ones", 0) + 1
        return
    run.violation(key, what, replay)


def main() -> int:
    tier = sys.argv[1] if len(sys.argv) > 1 else "quick"
    if tier == "--replay":
        return replay_file(sys.argv[2])
    run = Run(PID, tier)
    _init()
    with Scratch() as sc:
        emitted = run_tlc_configs(run, sc, tier)
        all_groups = []
        for label in list(emitted):
            obj, cases, depth = emitted.pop(label)
            groups = _group_cases(cases, ("lambda", "expr"))
            del cases
            for g in groups:
                g["label"] = label
            all_groups.append((label, depth, groups))
        trace_records = []
        with make_pool() as pool:
            for label, depth, groups in all_groups:
                by_gid = {g["gid"]: g for g in groups}
                steps = 0
                for gid, problems, outside, nsteps, records in pmap(pool, replay_group, groups, chunk=1):
                    g = by_gid[gid]
                    steps += nsteps
                    leaves = [p for p in g["nodes"] if len(p) == depth]
                    run.traces += len(leaves)
                    for leaf in leaves[:1]:
                        run.sample({"object": g["obj"], "start": g["start"]["repr"], "a": g["a"], "b": g["b"],
                                    "path": _acts(steps_of(g, leaf)), "model_after_last_step": g["nodes"][leaf]["obs"]})
                    for reason, n in outside.items():
                        run.outside(reason, n)
                    for prefix, clause, what in sorted(problems, key=lambda pr: len(pr[0])):
                        path = steps_of(g, prefix)
                        key = f"{g['obj']} start={g['start']['repr']} a={g['a']} b={g['b']} ctor={g['ctor']} path=[{_acts(path)}]: {clause}"
                        report(run, key, what, {"obj": g["obj"], "start": g["start"], "a": g["a"], "b": g["b"],
                                                "ctor": g["ctor"], "path": path})
                    for leaf in leaves:
                        run.count(f"{label}/{gid}/{_acts(steps_of(g, leaf))}")
                    trace_records.append((g, records))
                run.coverage.setdefault("real_steps_executed", {})[label] = steps
        from . import c11_trace
        c11_trace.validate(run, sc, trace_records)
        c11_trace.selftest(run, sc, trace_records)
        if TIERS[tier]["symbolic"]:
            symbolic_round_trips(run)
        derived_frame_round_trips(run)
    run.assumptions += [
        "points are Pythagorean (x^2+y^2 and x^2+y^2+z^2 perfect squares) so that SymPy evaluates every trigonometric "
        "value exactly; the coordinate singularities (x = y = 0) are excluded by the statement",
        "the projection (system, components) -> Cartesian uses the textbook formulas of harness/c11.py, with the core "
        "library's component order (r, azimuth, polar) for spherical systems",
        "paths sharing a prefix share the execution of that prefix (the library calls are pure)",
        "any exception counts as a refusal",
        "scale factors are rational, positive and negative; a curvilinear vector with a negative radial component is "
        "read as the geometric vector its textbook projection gives",
    ]
    return run.finish(exhaustive=True)


def symbolic_round_trips(run):
    """Generic positive symbols: Cartesian -> curvilinear -> Cartesian returns the original components."""
    import sympy as sp
    from symplyphysics import Vector
    sy = _init()
    x, y, z = sp.symbols("x y z", positive=True)
    for kind in ("cyl", "sph"):
        try:
            with time_limit(120):
                v = Vector([x, y, z], sy["cart"])
                back = v.rebase(sy[kind]).rebase(sy["cart"])
                diffs = [sp.simplify(c - w) for c, w in zip(back.components, (x, y, z))]
            if len(back.components) == 3 and all(d == 0 for d in diffs):
                run.count(f"symbolic round trip {kind}")
            elif all(d.is_zero is None or d == 0 for d in diffs):
                run.outside(f"symbolic round trip {kind}: SymPy could not decide")
            else:
                report(run, f"symbolic round trip cart->{kind}->cart", f"returned {back.components}", {"kind": "symbolic", "system": kind})
        except HardTimeout:
            run.outside(f"symbolic round trip {kind}: SymPy timed out")


DERIVED_POINTS = [((3, 4, 12), (4, -3, 12)), ((-3, 4, 12), (3, 4, -12)), ((5, -12, 84), (-4, -3, 12))]


def _derived_frames():
    """Cartesian frames DERIVED from the root frame (name, frame): turned about z / about x by the angle with cosine 3/5
    and sine 4/5, and turned twice.  Each plays the part of Rebase!"cart" for the curvilinear systems derived from it."""
    import sympy as sp
    from symplyphysics.core.coordinate_systems.coordinate_systems import coordinates_rotate
    c = _init()["cart"]
    ang = sp.atan(sp.Rational(4, 3))
    rz = coordinates_rotate(c, ang, c.coord_system.k)
    rx = coordinates_rotate(c, ang, c.coord_system.i)
    rzx = coordinates_rotate(rz, ang, rz.coord_system.i)
    return [("rot_z", rz), ("rot_x", rx), ("rot_z_then_x", rzx)]


def derived_frame_round_trips(run):
    """The model paths Rebase(cyl).Rebase(cart) and Rebase(sph).Rebase(cart) of spec/Rebase.tla with a DERIVED (rotated)
    Cartesian frame in the part of "cart": the curvilinear system is made by coordinates_transform(frame, ...).  The
    statement's clauses are checked with the frame's own components as the Cartesian data: round trip returns the
    components; magnitude and dot product computed in the curvilinear system equal the Cartesian ones.  Exact where
    SymPy reduces the difference to 0; otherwise compared to 40 digits (equal: counted as undecided; different: violation)."""
    import sympy as sp
    from symplyphysics import Vector
    from symplyphysics.core.coordinate_systems.coordinate_systems import CoordinateSystem, coordinates_transform
    from symplyphysics.core.vectors.arithmetics import dot_vectors, vector_magnitude
    kinds = {"cyl": CoordinateSystem.System.CYLINDRICAL, "sph": CoordinateSystem.System.SPHERICAL}

    def verdict(key, clause, got, want, replay):
        try:
            d = sp.simplify(sp.sympify(got) - want)
            if d == 0:
                run.count(f"derived frame {key}: {clause}")
                return
            num = abs(complex(sp.N(d, 40)))
        except HardTimeout:
            raise
        except Exception as exc:  # pylint: disable=broad-except
            report(run, f"derived frame {key}: {clause}", f"value {got!r} cannot be evaluated ({type(exc).__name__})", replay)
            return
        if num < 1e-30:
            run.outside("derived frame: equal to 40 digits, SymPy could not reduce the difference")
        else:
            report(run, f"derived frame {key}: {clause}", f"library {got}, Cartesian data give {want}", replay)

    for fname, frame in _derived_frames():
        for kind, system in kinds.items():
            for a, b in DERIVED_POINTS:
                key = f"{fname} cart->{kind}->cart a={list(a)} b={list(b)}"
                replay = {"kind": "derived", "frame": fname, "system": kind, "a": list(a), "b": list(b)}
                try:
                    with time_limit(STEP_SECONDS):
                        cur = coordinates_transform(frame, system)
                        va, vb = Vector(list(a), frame), Vector(list(b), frame)
                        ca, cb = va.rebase(cur), vb.rebase(cur)
                        back = ca.rebase(frame)
                        comps = list(back.components) + [0] * (3 - len(back.components))
                        for i, (g, w) in enumerate(zip(comps, a)):
                            verdict(key, f"RebasePreservesObject component {i}", g, sp.Integer(w), replay)
                        verdict(key, "MagnitudeIsNorm", vector_magnitude(ca), sp.sqrt(sum(t * t for t in a)), replay)
                        verdict(key, "dot product", dot_vectors(ca, cb), sp.Integer(sum(s * t for s, t in zip(a, b))), replay)
                        run.traces += 1
                except HardTimeout:
                    run.outside("derived frame: SymPy timed out")
                except Exception as exc:  # pylint: disable=broad-except
                    report(run, f"derived frame {key}: refused", f"{type(exc).__name__}: {str(exc)[:200]}", replay)


def replay_file(path: str) -> int:
    data = json.loads(open(path).read())
    c = data["case"]
    if c.get("kind") in ("symbolic", "derived"):
        run = Run(PID, "replay")
        if c["kind"] == "symbolic":
            symbolic_round_trips(run)
        else:
            derived_frame_round_trips(run)
        bad = [f"{v['key']}: {v['what']}" for v in run.violations]
    else:
        acts = [(st["act"], st["arg"]) for st in c["path"]]
        group = dict(obj=c["obj"], start=c["start"], a=c["a"], b=c["b"], ctor=c["ctor"], gid=0,
                     nodes={tuple(acts[:k + 1]): st for k, st in enumerate(c["path"])})
        _, problems, _, _, records = replay_group(group)
        bad = [f"{clause}: {what}" for _, clause, what in problems]
        from . import c11_trace
        run = Run(PID, "replay")
        with Scratch() as sc:
            c11_trace.validate(run, sc, [(group, records)], "replay")
        bad += [f"{v['key']}: {v['what'][:200]}" for v in run.violations]
    for b in bad:
        print(f"VIOLATION property={PID} replay={path}\n  {b}")
    print("replayed:", data["key"], "->", "violation" if bad else "ok")
    return 1 if bad else 0


if __name__ == "__main__":
    main_wrapper(main)
