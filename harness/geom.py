"""Helpers shared by the geometry checks C10, C11, C15: exact numbers, Pythagorean points, textbook projections.

Everything here is independent of the library's conversion tables: the projections below are the textbook
formulas, written out by hand, and are what the harness uses to map a real (system, components) pair to the
Cartesian data the TLA+ models speak about.
"""
from __future__ import annotations

from fractions import Fraction
from itertools import product


def in_threads(jobs, max_threads: int = 8):
    """Run [(fn, args), ...] side by side in threads (used for independent TLC subprocesses); results in order.
    The first exception is re-raised."""
    from concurrent.futures import ThreadPoolExecutor
    if not jobs:
        return []
    with ThreadPoolExecutor(max_workers=min(max_threads, len(jobs))) as ex:
        futs = [ex.submit(fn, *args) for fn, args in jobs]
        return [f.result() for f in futs]


# ---------------------------------------------------------------------------------------------------------
# exact numbers

def to_fraction(x, cheap: bool = False):
    """SymPy / Python number -> Fraction, or None when x is not (syntactically or after evaluation) rational.
    cheap=True tries only expand_trig (no simplify)."""
    import sympy as sp
    if isinstance(x, bool):
        return None
    if isinstance(x, (int, Fraction)):
        return Fraction(x)
    try:
        x = sp.sympify(x)
    except Exception:  # pylint: disable=broad-except
        return None
    if x.is_Rational:
        return Fraction(int(x.p), int(x.q))
    if x.free_symbols:
        return None
    # exact rewrites only (no numeric guessing): trigonometric functions of atan/acos of rationals become
    # algebraic numbers, which are rational at Pythagorean points
    attempts = (sp.expand_trig, lambda e: sp.radsimp(sp.expand_trig(e)), lambda e: sp.simplify(sp.expand_trig(e)),
                sp.simplify, lambda e: sp.simplify(sp.trigsimp(e)))
    for attempt in attempts[:1] if cheap else attempts:
        try:
            y = attempt(x)
        except Exception:  # pylint: disable=broad-except
            continue
        if getattr(y, "is_Rational", False):
            return Fraction(int(y.p), int(y.q))
    return None


def rat(fr) -> list:
    """Fraction -> [n, d] (normalised, d > 0) as the TLA+ Rat module expects."""
    fr = Fraction(fr)
    return [fr.numerator, fr.denominator]


def pad3(xs):
    xs = list(xs)
    return xs + [0] * (3 - len(xs))


# ---------------------------------------------------------------------------------------------------------
# Pythagorean points: x^2 + y^2 = rho^2 and rho^2 + z^2 = r^2 with integers, so that every trigonometric value
# of the cylindrical and spherical angles is rational.  None lies on a coordinate singularity (x = y = 0) or on
# a coordinate plane.
BASE_POINTS = [(3, 4, 12), (12, 9, 8), (12, 16, 15), (9, 12, 20), (5, 12, 84), (8, 15, 144), (15, 20, 60), (7, 24, 60),
               (4, 3, 12), (9, 12, 8), (16, 12, 15), (12, 9, 20)]
# points of the plane z = 0 (given to the core library as two-component vectors)
PLANE_POINTS = [(3, 4, 0), (15, 8, 0)]
# points whose direction cosines have a common denominator <= 85 (matrix products stay far below 2^31 in TLC)
SMALL_POINTS = [(3, 4, 12), (12, 9, 8), (12, 16, 15), (9, 12, 20), (4, 3, 12), (9, 12, 8), (16, 12, 15), (12, 9, 20)]


def is_pythagorean(p) -> bool:
    from math import isqrt
    x, y, z = p
    r2 = x * x + y * y
    return isqrt(r2) ** 2 == r2 and isqrt(r2 + z * z) ** 2 == r2 + z * z and r2 > 0


def sign_variants(p):
    """The eight octant images of a point."""
    return [tuple(s * c for s, c in zip(signs, p)) for signs in product((1, -1), repeat=3)]


def octant_points(bases, per_base_octants=None):
    """All sign variants of the base points (every octant); optionally a rotating subset of octants per base."""
    out = []
    for i, b in enumerate(bases):
        vs = sign_variants(b)
        if per_base_octants is not None:
            vs = [vs[(i * per_base_octants + j * 3) % 8] for j in range(per_base_octants)]
            vs = list(dict.fromkeys(vs))
        out += vs
    assert all(is_pythagorean(p) for p in out)
    return out


# ---------------------------------------------------------------------------------------------------------
# textbook projections to Cartesian data (SymPy expressions in, SymPy expressions out)

def cyl_to_cart(rho, phi, z):
    """(radius, azimuth, height) -> (x, y, z)."""
    import sympy as sp
    return (rho * sp.cos(phi), rho * sp.sin(phi), z)


def sph_to_cart(r, polar, azimuth):
    """(radius, POLAR angle from +z, AZIMUTH in the xy-plane) -> (x, y, z)."""
    import sympy as sp
    return (r * sp.sin(polar) * sp.cos(azimuth), r * sp.sin(polar) * sp.sin(azimuth), r * sp.cos(polar))


def cart_to_cyl(x, y, z):
    import sympy as sp
    return (sp.sqrt(sp.Integer(x) ** 2 + sp.Integer(y) ** 2), sp.atan2(y, x), sp.Integer(z))


def cart_to_sph(x, y, z):
    """-> (r, polar, azimuth)."""
    import sympy as sp
    r = sp.sqrt(sp.Integer(x) ** 2 + sp.Integer(y) ** 2 + sp.Integer(z) ** 2)
    return (r, sp.acos(sp.Integer(z) / r), sp.atan2(y, x))


def cyl_frame(phi):
    """Unit vectors (e_rho, e_phi, e_z) at azimuth phi, as Cartesian component triples."""
    import sympy as sp
    return ((sp.cos(phi), sp.sin(phi), 0), (-sp.sin(phi), sp.cos(phi), 0), (0, 0, 1))


def sph_frame(polar, azimuth):
    """Unit vectors (e_r, e_polar, e_azimuth) as Cartesian component triples."""
    import sympy as sp
    st, ct, sp_, cp = sp.sin(polar), sp.cos(polar), sp.sin(azimuth), sp.cos(azimuth)
    return ((st * cp, st * sp_, ct), (ct * cp, ct * sp_, -st), (-sp_, cp, 0))


def exact_value(expr, expected: Fraction, rewrite: bool = True):
    """-> (verdict, real value as Fraction or None).  verdict: 'equal' (exactly, by exact rewriting), 'different'
    (exactly, or numerically to 40 digits), 'numeric-equal' (agrees to 40 digits but SymPy could not reduce the
    value to a rational: undecided).  The numeric comparison goes before any expensive simplification, so a wrong
    value is never costly."""
    import sympy as sp
    f = to_fraction(expr, cheap=True)
    if f is not None:
        return ("equal" if f == expected else "different"), f
    try:
        d = sp.N(sp.sympify(expr) - sp.Rational(expected.numerator, expected.denominator), 60)
        close = bool(d.is_number and d.is_finite and abs(d) < sp.Float(10) ** -40)
    except Exception:  # pylint: disable=broad-except
        close = False
    if not close:
        return "different", None
    if not rewrite:
        return "numeric-equal", None
    f = to_fraction(expr)
    if f is None:
        return "numeric-equal", None
    return ("equal" if f == expected else "different"), f


def compare_exact(expr, expected: Fraction) -> str:
    return exact_value(expr, expected)[0]
