"""Dimension vectors <-> real objects (shared by C04, C07, C08).

A dimension vector is a list of eight [numerator, denominator] pairs in the order of qc_common.BASE
(L M T I K N J A; A = the separate `angle` dimension) - the JSON form of a Dims.tla dimension."""
from __future__ import annotations

from fractions import Fraction

from .qc_common import BASE

_DIMNAME = {"length": "L", "mass": "M", "time": "T", "current": "I", "temperature": "K",
            "amount_of_substance": "N", "luminous_intensity": "J", "angle": "A"}
D1VEC = [[0, 1]] * 8

_R = None


def _real():
    global _R  # pylint: disable=global-statement
    if _R is None:
        import sympy as sp
        from sympy.physics import units
        from sympy.physics.units.definitions.dimension_definitions import angle as angle_type
        _R = dict(sp=sp, Dimension=units.Dimension, angle=angle_type,
                  dim={"L": units.length, "M": units.mass, "T": units.time, "I": units.current, "K": units.temperature,
                       "N": units.amount_of_substance, "J": units.luminous_intensity, "A": angle_type},
                  unit={"L": units.meter, "M": units.kilogram, "T": units.second, "I": units.ampere, "K": units.kelvin,
                        "N": units.mole, "J": units.candela})
    return _R


def project_dim(dimension):
    """Real Dimension -> dimension vector; None if it has other bases or non-rational exponents."""
    from sympy.physics.units.systems.si import dimsys_SI
    try:
        deps = dimsys_SI.get_dimensional_dependencies(dimension)
    except Exception:  # pylint: disable=broad-except
        return None
    vec = {b: Fraction(0) for b in BASE}
    for k, e in deps.items():
        name = _DIMNAME.get(str(k.name))
        if name is None:
            return None
        try:
            f = Fraction(int(e.p), int(e.q)) if hasattr(e, "p") else Fraction(e)
        except (TypeError, ValueError, AttributeError):
            return None
        vec[name] += f
    return [[vec[b].numerator, vec[b].denominator] for b in BASE]


def dim_expr(dvec):
    """Dimension vector -> Dimension."""
    r = _real()
    out = r["Dimension"](1)
    for b, (n, d) in zip(BASE, dvec):
        if n:
            out = out * r["dim"][b]**r["sp"].Rational(n, d)
    return out


def unit_expr(dvec):
    """Dimension vector -> product of SI base units (the angle exponent has no unit)."""
    r = _real()
    out = r["sp"].Integer(1)
    for b, (n, d) in zip(BASE, dvec):
        if n and b != "A":
            out = out * r["unit"][b]**r["sp"].Rational(n, d)
    return out


def dimstr(dvec) -> str:
    parts = []
    for b, (n, d) in zip(BASE, dvec):
        if n:
            parts.append(f"{b}^{n}" + (f"/{d}" if d != 1 else ""))
    return "*".join(parts) or "1"
