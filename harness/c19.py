"""C19: documentation generation is total, faithful, deterministic and leaves SymPy's evaluation mode at its default.

spec -> code (a) patch/flag layer: TLC enumerates every module shape of spec/DocGen.tla up to MaxStmts statements and
               emits the expected per-statement evaluation mode; each shape is materialised as source whose
               statements report SymPy's global flag (harness/c19_probe.py), sent through the REAL
               patch_sympy_evaluate + find_members_and_functions, and the observed flag log, the final flag, the
               documented members and their values (as written / evaluated) are compared with the model.
             (b) walk layer: TLC enumerates abstract source trees with the expected page set and toctree entries;
               each tree is materialised in a scratch directory, the REAL generate_laws_docs is run on it and the
               produced files / toctree entries / final flag are compared with the model.
code -> spec : the real generator is run over the working tree in fresh subprocesses (harness/c19_gen.py); every
               flag change, module boundary and per-statement flag is recorded and validated by
               spec/DocGenTrace.tla, which also decides the page set and the toctrees of the real tree with the
               walk layer's operators.  Pages are compared with an independent execution of every documented
               module (formulas, symbol rows), roles are resolved independently, runs under different hash seeds /
               histories must be byte-identical, SymPy must be in its default mode afterwards.
"""
from __future__ import annotations

import ast
import json
import os
import re
import shutil
import subprocess
import sys
from pathlib import Path

from .c19_shapes import DOC_KINDS, N_VARIANTS, classify, has_title, materialise
from .common import PY, REPO, Run, main_wrapper, make_pool, pmap, repo_env
from .tlc import Scratch, run_tlc, write_cfg

PID = "C19"

ALL_STMT = {"import", "pubassign", "privassign", "tupassign", "doc_dir", "doc_plain", "doc_eval", "def_doc",
            "def_nodoc", "other"}
SOME_STMT = {"pubassign", "privassign", "doc_dir", "doc_eval", "def_doc", "other"}
ALL_NODE = {"pkg_t", "pkg_u", "priv_t", "priv_u", "excl_t", "excl_u", "law_d", "law_u"}
SOME_NODE = {"pkg_t", "pkg_u", "priv_t", "excl_t", "law_d", "law_u"}

TIERS = {
    "quick": dict(
        patch_check=[dict(MaxStmts=5, StmtKinds=ALL_STMT)],
        patch_emit=dict(MaxStmts=5, StmtKinds=ALL_STMT),
        walk_check=[dict(MaxNodes=3, NodeKinds=ALL_NODE, Ordered=False)],
        walk_emit=[dict(MaxNodes=4, NodeKinds=SOME_NODE, Ordered=True)],
        hist=dict(MaxBase=2, MaxEdits=1, NodeKinds={"pkg_t", "pkg_u", "law_d", "law_u"}),
        runs=[("probe", 0), ("plain", 1)]),
    "thorough": dict(
        patch_check=[dict(MaxStmts=6, StmtKinds=ALL_STMT), dict(MaxStmts=7, StmtKinds=SOME_STMT)],
        patch_emit=dict(MaxStmts=7, StmtKinds=ALL_STMT),
        walk_check=[dict(MaxNodes=4, NodeKinds=ALL_NODE, Ordered=False)],
        walk_emit=[dict(MaxNodes=4, NodeKinds=ALL_NODE, Ordered=True),
                   dict(MaxNodes=5, NodeKinds={"pkg_t", "priv_t", "law_d", "law_u"}, Ordered=True),
                   dict(MaxNodes=6, NodeKinds={"pkg_t", "law_d", "law_u"}, Ordered=True)],
        hist=dict(MaxBase=2, MaxEdits=2, NodeKinds={"pkg_t", "pkg_u", "law_d", "law_u"}),
        runs=[("probe", 0), ("plain", 1), ("preuse", 2), ("plain", 12345)]),
}
P_INV = ["PTypeOK", "OwnDocstring", "FlagTrueAtEnd", "DisabledExactlyAroundDocumentedMembers", "MembersExecuted", "LogAdmitted",
         "RegularShapesDecided", "EvalMembersOn"]
W_INV = ["WTypeOK", "OnePagePerDocumentedNode", "NeverTwice", "NothingFromPrunedDirs",
         "PackagePagesListTheirChildren", "WFlagTrueAtEnd"]
NOP = dict(MaxStmts=0, StmtKinds=set(), MaxNodes=0, NodeKinds=set(), Ordered=True)

# --------------------------------------------------------------------------------------------------
# (a) patch / flag layer


def replay_shape(case):
    """One module shape through the real patcher.  Returns (case, [problem, ...])."""
    from sympy.core.parameters import global_parameters
    from symplyphysics.docs.parse import find_members_and_functions
    from symplyphysics.docs.patch import patch_sympy_evaluate
    from . import c19_probe as probe
    kinds, exp, req, dm, ow = case["m"], case["x"], case["r"], case["dm"], case["ow"]
    problems = []
    # every docstring directly follows a public assignment (the only form in the real tree): members fully decided
    regular = all(kinds[j - 1] == "pubassign" for j in range(1, len(kinds)) if kinds[j] in DOC_KINDS)
    for variant in case.get("variants", (0,)):
        src = materialise(kinds, variant)
        probe.reset()
        global_parameters.evaluate = True
        try:
            members, functions = find_members_and_functions(patch_sympy_evaluate(ast.parse(src)))
        except Exception as e:  # pylint: disable=broad-except
            problems.append(f"v{variant}: generation raised {type(e).__name__}: {e}")
            global_parameters.evaluate = True
            continue
        final = bool(global_parameters.evaluate)
        global_parameters.evaluate = True
        log = list(probe.LOG)
        if not final:
            problems.append(f"v{variant}: evaluation is off after the module")
        idx = [i for i, _ in log]
        if idx != sorted(set(idx)):
            problems.append(f"v{variant}: statements executed repeatedly or out of order: {idx}")
        for i, f in log:
            e = exp[i - 1]
            if (e == "on" and not f) or (e == "off" and f) or e == "none":
                problems.append(f"v{variant}: statement {i} ({kinds[i - 1]}) ran with evaluation "
                                f"{'on' if f else 'off'}, model says {e}")
        for i in range(1, req + 1):
            if exp[i - 1] != "none" and i not in idx:
                problems.append(f"v{variant}: statement {i} ({kinds[i - 1]}) precedes a documented member but was not executed")
        want_f = [f"f{i}" for i, k in enumerate(kinds, start=1) if k == "def_doc"]
        if [f.name for f in functions] != want_f:
            problems.append(f"v{variant}: documented functions reported {[f.name for f in functions]}, the shape has {want_f}")
        by_name = {m.name: m for m in members}
        # the docstring attributed to every reported member (texts carry the index of their statement)
        for m in members:
            mi = re.match(r"_?a(\d+)$", m.name)
            dj = re.search(r"Doc (\d+)", m.docstring or "")
            if mi is None or dj is None:
                problems.append(f"v{variant}: reported member {m.name} with docstring {m.docstring!r}")
                continue
            i, j = int(mi.group(1)), int(dj.group(1))
            if ow[j - 1] != i:
                problems.append(f"v{variant}: member {m.name} (statement {i}) is reported with the docstring of statement {j}, "
                                f"which {'belongs to statement ' + str(ow[j - 1]) if ow[j - 1] else 'follows an assignment without a name and belongs to no member'}")
        for i, is_member in enumerate(dm, start=1):
            if not is_member:
                continue
            m = by_name.get(f"a{i}")
            if m is None:
                problems.append(f"v{variant}: documented member a{i} not reported")
                continue
            shown = str(m.value)
            if exp[i - 1] == "off" and shown != "x + x":
                problems.append(f"v{variant}: member a{i} has a directive but its value is {shown}, not as written (x + x)")
            if exp[i - 1] == "on" and shown != "2*x":
                problems.append(f"v{variant}: member a{i} must be evaluated but its value is {shown}")
            if regular and bool(m.directives) != (kinds[i] in ("doc_dir", "doc_eval")):
                problems.append(f"v{variant}: member a{i} ({kinds[i]}): directives found {len(m.directives)}")
        if regular and sorted(by_name) != sorted(f"a{i}" for i, d in enumerate(dm, start=1) if d):
            problems.append(f"v{variant}: members reported {sorted(by_name)}, documented members of the shape "
                            f"{sorted(f'a{i}' for i, d in enumerate(dm, start=1) if d)}")
    return case, problems


def patch_layer(run: Run, sc: Path, t: dict, pool, tier: str) -> None:
    for n, cfgd in enumerate(t["patch_check"]):
        cfg = write_cfg(sc / f"patch_check{n}.cfg", init="PInit", next_="PNext", constants=dict(NOP, **cfgd), invariants=P_INV)
        res = run_tlc("DocGen", cfg, sc, workers=8, coverage=True, allow_violation=False)
        run.add_tlc(res, f"patch/flag layer: invariants {P_INV}, all module shapes up to {cfgd['MaxStmts']} statements "
                         f"over {len(cfgd['StmtKinds'])} kinds, built then executed in documentation mode")
    cfgd = t["patch_emit"]
    label = f"patch{cfgd['MaxStmts']}"
    cfg2 = write_cfg(sc / f"{label}_emit.cfg", init="PInit", next_="PBuild", constants=dict(NOP, **cfgd),
                     invariants=["PEmit", "PTypeOK", "RegularShapesDecided", "EvalMembersOn", "OwnDocstring"])
    res2 = run_tlc("DocGen", cfg2, sc, workers=1, allow_violation=False)
    run.add_tlc(res2, f"patch/flag layer emission: every module shape up to {cfgd['MaxStmts']} statements over "
                      f"{len(cfgd['StmtKinds'])} kinds with the declarative expectation Exp (+ RegularShapesDecided, EvalMembersOn)")
    cases = res2.printed
    import zlib
    for c in cases:
        # every signature form / spelling for the short shapes, one rotating form for the long ones
        c["variants"] = tuple(range(N_VARIANTS)) if len(c["m"]) <= 5 else (zlib.crc32(" ".join(c["m"]).encode()) % N_VARIANTS,)
    run.coverage.setdefault("module_shapes_emitted", {})[label] = len(cases)
    free = 0
    for case, problems in pmap(pool, replay_shape, cases, chunk=500):
        run.traces += 1
        key = " ".join(case["m"])
        run.count(key if len(case["m"]) > 2 else None)
        if "free" in case["x"]:
            free += 1
        if "off" in case["x"] and len(case["m"]) >= 5:
            run.sample({"layer": "patch", "shape": key, "expected_mode": case["x"], "last_required": case["r"]}, limit=3)
        for what in problems[:1]:
            run.violation(f"patch: {key}", "; ".join(problems)[:500], {"layer": "patch", "case": case})
    run.coverage.setdefault("shapes_with_an_undecided_statement", {})[label] = free


# --------------------------------------------------------------------------------------------------
# (b) walk layer

DOC_INIT = '"""\nPackage {name}\n{ul}\n\nDescription of {name}.\n"""\n'
LAW_DOC = ('"""\nLaw {name}\n{ul}\n\nDescription of {name}.\n"""\n\nfrom sympy import Symbol, Add\n\n'
           'x = Symbol("x")\n"""\nThe symbol of {name}.\n"""\n\n'
           'first, second = 1, 2\n"""\nText after a tuple assignment of {name}.\n"""\n\n'
           'law = Add(x, x)\n"""\nThe law of {name}.\n\n:laws:symbol::\n\n:laws:latex::\n"""\n\n'
           '__import__("harness.c19_probe", fromlist=["BOX"]).BOX.d["{name}"] = 1\n"""\nText after a subscript assignment of {name}.\n"""\n\n'
           'def calculate_pair(first: "Symbol", second: tuple[int, int] = (1, 2), *rest: int, flag: bool = False,\n'
           '    **options: object) -> tuple[int, int]:\n    """\n    Returns a pair.\n    """\n    return second\n\n\n'
           '@__import__("functools").lru_cache(maxsize=None)\n'
           'def calculate_optional(value: int | None = None) -> __import__("typing").Optional[int]:\n'
           '    """Returns the value."""\n    return value\n\n\n'
           'unrelated = x * x * 0\n')
_WORK = {}


def _names(case):
    n = case["n"]
    names = {0: "pkg"}
    for i, node in enumerate(case["t"], start=1):
        base = f"n{n + 1 - i:02d}"
        k = node["k"]
        names[i] = ("_" + base) if k.startswith("priv") else (base + ".py" if k.startswith("law") else base)
    return names


def _relpath(case, names, i):
    parts = []
    while i != 0:
        parts.append(names[i])
        i = case["t"][i - 1]["p"]
    return list(reversed(parts))


def _stem(case, names, i):
    parts = _relpath(case, names, i)
    if parts and parts[-1].endswith(".py"):
        parts[-1] = parts[-1][:-3]
    return ".".join(parts)


def parse_toctree(text: str) -> list[str]:
    lines = text.splitlines()
    out = []
    for n, line in enumerate(lines):
        if line.strip() == ".. toctree::":
            for l2 in lines[n + 1:]:
                if l2.strip() == "":
                    if out:
                        break
                    continue
                if not l2.startswith(" "):
                    break
                if l2.strip().startswith(":"):
                    continue
                out.append(l2.strip())
            break
    return out


def _workdir(case) -> Path:
    base = _WORK.get(os.getpid())
    if base is None:
        base = Path(case["scratch"]) / f"w{os.getpid()}"
        base.mkdir(parents=True, exist_ok=True)
        _WORK[os.getpid()] = base
    work = base / "case"
    shutil.rmtree(work, ignore_errors=True)
    (work / "pkg").mkdir(parents=True)
    return work


def _write_init(path: Path, kind: str, name: str, i: int, rev: int = 0) -> None:
    if kind.endswith("_t"):
        title = f"Package {name}"
        text = DOC_INIT.format(name=name, ul=("=" if i % 2 == 0 else "-") * len(title))
        path.write_text(text if rev == 0 else text.replace("Description of", f"Revision {rev} of the description of"))
    else:
        path.write_text("" if i % 2 == 0 else '"""\nNo title here.\n"""\n')


def _write_node(case, names, root: Path, i: int, excluded: list, rev: int = 0) -> Path:
    """Materialise node i of the abstract tree (rev > 0: a modified version of its source)."""
    node = case["t"][i - 1]
    rel = _relpath(case, names, i)
    path = root.joinpath(*rel)
    k = node["k"]
    if k.startswith("law"):
        title = f"Law {names[i]}"
        if k == "law_d":
            text = LAW_DOC.format(name=names[i], ul="=" * len(title))
            path.write_text(text if rev == 0 else text.replace("The symbol of", f"Revision {rev} of the symbol of"))
        else:
            path.write_text("x = 1\n" if i % 2 == 0 else '"""\nJust a comment, no title.\n"""\nx = 1\n')
        return path
    path.mkdir(exist_ok=True)
    _write_init(path / "__init__.py", k, names[i], i, rev)
    if k.startswith("excl"):
        excluded.append("/".join(rel))
    return path / "__init__.py"


def _generate(work: Path, outname: str, excluded) -> list:
    from sympy.core.parameters import global_parameters
    from symplyphysics.docs.build import generate_laws_docs
    problems = []
    cwd = os.getcwd()
    os.chdir(work)
    global_parameters.evaluate = True
    try:
        generate_laws_docs("pkg", outname, excluded, True)
    except Exception as e:  # pylint: disable=broad-except
        problems.append(f"generation raised {type(e).__name__}: {e}")
    finally:
        os.chdir(cwd)
    if not global_parameters.evaluate:
        problems.append("evaluation is off after generation")
        global_parameters.evaluate = True
    return problems


def _verify(case, names, out: Path, revs=None) -> list:
    """Compare an output directory with the model's page set / toctrees for the tree of `case`."""
    tree = case["t"]
    problems = []
    produced = sorted(os.listdir(out))
    expected = {}
    for i in case["pages"]:
        expected[_stem(case, names, i) + ".rst"] = i
    if sorted(expected) != produced:
        problems.append(f"pages produced {produced}, model expects {sorted(expected)}")
        return problems
    for entry in case["toc"]:
        d = entry["d"]
        text = (out / (_stem(case, names, d) + ".rst")).read_text()
        listed = [e.lstrip(".") for e in parse_toctree(text)]      # the root package's entries carry a leading dot
        must_pk = [_stem(case, names, i) for i in entry["pk"]]
        may_pk = {_stem(case, names, i) for i in entry["opt"]}
        laws = [_stem(case, names, i) for i in entry["lw"]]
        got_laws = [e for e in listed if e in set(laws) or (e not in must_pk and e not in may_pk)]
        got_pk = [e for e in listed if e in must_pk]
        if got_laws != laws:
            problems.append(f"page of {_stem(case, names, d) or '<root>'} lists laws {got_laws}, model {laws}")
        if got_pk != must_pk:
            problems.append(f"page of {_stem(case, names, d) or '<root>'} lists packages {got_pk}, model {must_pk} (+ optionally {sorted(may_pk)})")
        if len(set(listed)) != len(listed):
            problems.append(f"page of {_stem(case, names, d) or '<root>'} lists an entry twice: {listed}")
    for i in case["pages"]:
        if i != 0 and tree[i - 1]["k"] == "law_d":
            text = (out / (_stem(case, names, i) + ".rst")).read_text()
            if ":code:`x + x`" not in text or ":laws:" in text:
                problems.append(f"law page {_stem(case, names, i)} does not show the formula as written")
            own = {b[1]: b[2] for b in page_blocks(text) if b[0] == "data"}
            nm = names[i]
            rv = revs[i] if revs else 0
            desc = f"The symbol of {nm}." if rv == 0 else f"Revision {rv} of the symbol of {nm}."
            if sorted(own) != ["law", "x"] or desc not in own["x"] or f"The law of {nm}." not in own["law"] \
                    or "Text after a" in text:
                problems.append(f"law page {_stem(case, names, i)}: members {sorted(own)} are not listed with their own "
                                f"(current) descriptions")
            if ".. py:function:: calculate_pair(" not in text or ".. py:function:: calculate_optional(" not in text:
                problems.append(f"law page {_stem(case, names, i)} does not list the module's documented functions")
    return problems


def replay_tree(case):
    """One abstract source tree through the real generate_laws_docs.  Returns (case, [problem, ...])."""
    work = _workdir(case)
    names = _names(case)
    root = work / "pkg"
    (work / "out").mkdir()
    excluded = []
    _write_init(root / "__init__.py", case["r"], "pkg", 0)
    for i in range(1, len(case["t"]) + 1):
        _write_node(case, names, root, i, excluded)
    problems = _generate(work, "out", excluded)
    if problems:
        return case, problems
    return case, _verify(case, names, work / "out")


def replay_history(case):
    """One history of spec/DocGenHist.tla (generate; edit the sources; generate again into the SAME output
    directory; ...) through the real generate_laws_docs.  The final output must be what the model expects for the
    final sources and byte-identical to a generation of the final sources into an empty directory."""
    work = _workdir(case)
    names = _names(case)
    root = work / "pkg"
    (work / "out").mkdir()
    excluded = []
    _write_init(root / "__init__.py", case["r"], "pkg", 0)
    have = 0
    revs = {i: 0 for i in range(0, len(case["t"]) + 1)}
    clock = 2_000_000_000            # edited sources get modification times later than anything written before
    for ev in case["h"]:
        if ev["ev"] == "gen":
            while have < ev["n"]:     # nodes present at the first generation
                have += 1
                _write_node(case, names, root, have, excluded)
            problems = _generate(work, "out", excluded)
            if problems:
                return case, problems
        elif ev["ev"] == "add":
            have = max(have, ev["n"])
            path = _write_node(case, names, root, ev["n"], excluded)
            clock += 100
            os.utime(path, (clock, clock))
        else:
            i = ev["n"]
            revs[i] += 1
            if i == 0:
                path = root / "__init__.py"
                _write_init(path, case["r"], "pkg", 0, revs[0])
            else:
                path = _write_node(case, names, root, i, excluded, revs[i])
            clock += 100
            os.utime(path, (clock, clock))
    problems = _verify(case, names, work / "out", revs)
    (work / "fresh").mkdir()
    problems += _generate(work, "fresh", excluded)
    fresh = {f.name: f.read_bytes() for f in (work / "fresh").iterdir()}
    kept = {f.name: f.read_bytes() for f in (work / "out").iterdir()}
    if sorted(fresh) != sorted(kept):
        problems.append(f"output directory after the history holds {sorted(kept)}, a fresh generation gives {sorted(fresh)}")
    stale = sorted(k for k in fresh if k in kept and kept[k] != fresh[k])
    if stale:
        problems.append(f"pages {stale} differ from a fresh generation of the current sources (stale after the history)")
    return case, problems


def hist_key(case) -> str:
    return tree_key(case) + " | " + " ".join(f"{e['ev']}{e['n']}" for e in case["h"])


def history_layer(run: Run, sc: Path, tier: dict, pool) -> None:
    cfgd = tier["hist"]
    consts = dict(NOP, MaxNodes=cfgd["MaxBase"] + cfgd["MaxEdits"], **cfgd)
    cfg = write_cfg(sc / "hist.cfg", init="HInit", next_="HNext", constants=consts,
                    invariants=["IncrementalEqualsFresh", "NoPageLost", "HTypeOK", "HEmit"])
    res = run_tlc("DocGenHist", cfg, sc, workers=1, coverage=True, allow_violation=False)
    run.add_tlc(res, f"history layer (persistent output directory): IncrementalEqualsFresh, NoPageLost over all histories with "
                     f"up to {cfgd['MaxBase']} nodes at the first generation and {cfgd['MaxEdits']} edits (add a node / "
                     f"modify a source), generating whenever the sources changed")
    cases = [c for c in res.printed if "h" in c]
    run.coverage["generation_histories_emitted"] = len(cases)
    for c in cases:
        c["scratch"] = str(sc)
    for case, problems in pmap(pool, replay_history, cases, chunk=50):
        run.traces += 1
        key = hist_key(case)
        run.count(key)
        if len(case["h"]) >= 4:
            run.sample({"layer": "history", "history": key, "pages": case["pages"]}, limit=7)
        if problems:
            c2 = {k: v for k, v in case.items() if k != "scratch"}
            run.violation(f"history: {key}", "; ".join(problems)[:500], {"layer": "history", "case": c2})


def tree_key(case) -> str:
    return case["r"] + ":" + " ".join(f"{n['p']}{n['k']}" for n in case["t"])


def walk_layer(run: Run, sc: Path, tier: dict, pool) -> None:
    for cfgd in tier["walk_check"]:
        consts = dict(NOP, **cfgd)
        cfg = write_cfg(sc / "walk_check.cfg", init="WInit", next_="WNext", constants=consts, invariants=W_INV)
        res = run_tlc("DocGen", cfg, sc, workers=8, coverage=True, allow_violation=False)
        run.add_tlc(res, f"walk layer: invariants {W_INV}, all trees up to {cfgd['MaxNodes']} nodes over "
                         f"{len(cfgd['NodeKinds'])} kinds, every visiting order")
    for n, cfgd in enumerate(tier["walk_emit"]):
        consts = dict(NOP, **cfgd)
        cfg = write_cfg(sc / f"walk_emit{n}.cfg", init="WInit", next_="WNext", constants=consts,
                        invariants=["WEmit", "OnePagePerDocumentedNode", "PackagePagesListTheirChildren"])
        res = run_tlc("DocGen", cfg, sc, workers=1, allow_violation=False)
        run.add_tlc(res, f"walk layer emission: trees up to {cfgd['MaxNodes']} nodes over {len(cfgd['NodeKinds'])} kinds, sorted visiting order")
        cases = res.printed
        label = f"walk{cfgd['MaxNodes']}x{len(cfgd['NodeKinds'])}"
        run.coverage.setdefault("source_trees_emitted", {})[label] = len(cases)
        for c in cases:
            c["scratch"] = str(sc)
        for case, problems in pmap(pool, replay_tree, cases, chunk=100):
            run.traces += 1
            key = tree_key(case)
            run.count(key if len(case["t"]) >= 2 else None)
            if len(case["pages"]) >= 3 and len(case["t"]) >= 4:
                run.sample({"layer": "walk", "tree": key, "pages": case["pages"], "toc": case["toc"]}, limit=5)
            if problems:
                c2 = {k: v for k, v in case.items() if k != "scratch"}
                run.violation(f"walk: {key}", "; ".join(problems)[:500], {"layer": "walk", "case": c2})


# --------------------------------------------------------------------------------------------------
# real tree

SRC = "symplyphysics"
EXCLUDE = ["core"]


def abstract_tree(src_root: Path):
    """The real source tree in the vocabulary of the walk layer.  Returns (nodes, rootk, stem -> id, id -> path)."""
    entries = []   # (parts, kind)
    for path, dirs, files in os.walk(src_root):
        rel = Path(path).relative_to(src_root).parts
        for d in dirs:
            parts = rel + (d,)
            init = Path(path, d, "__init__.py")
            titled = init.exists() and has_title(ast.parse(init.read_text(encoding="utf-8")))
            if d.startswith("_") or d.startswith("."):
                kind = "priv"
            elif "/".join(parts) in EXCLUDE:
                kind = "excl"
            else:
                kind = "pkg"
            entries.append((parts, kind + ("_t" if titled else "_u")))
        for f in files:
            if not f.endswith(".py") or f.startswith("__"):
                continue
            titled = has_title(ast.parse(Path(path, f).read_text(encoding="utf-8")))
            entries.append((rel + (f,), "law_d" if titled else "law_u"))
    entries.sort(key=lambda e: e[0], reverse=True)       # ids descend with the sorted path
    ids = {(): 0}
    for n, (parts, _k) in enumerate(entries, start=1):
        ids[parts] = n
    nodes = [{"p": ids[parts[:-1]], "k": k} for parts, k in entries]
    init = src_root / "__init__.py"
    rootk = "pkg_t" if init.exists() and has_title(ast.parse(init.read_text(encoding="utf-8"))) else "pkg_u"
    stems, paths = {}, {0: src_root / "__init__.py"}
    clashes = []
    for parts, k in entries:
        stem = ".".join(parts)[:-3] if k.startswith("law") else ".".join(parts)
        if stem in stems:
            clashes.append(stem)
        stems[stem] = ids[parts]
        paths[ids[parts]] = src_root.joinpath(*parts) if k.startswith("law") else src_root.joinpath(*parts, "__init__.py")
    stems[""] = 0
    return nodes, rootk, stems, paths, clashes


def extract_members(path_str: str):
    """Independent of the page generator: execute a documented module statement by statement, switching
    evaluation off exactly around the public assignments directly followed by a directive docstring, and
    print every documented public member with the library's own printers."""
    from sympy.core.parameters import global_parameters
    from symplyphysics.core.dimensions import print_dimension
    from symplyphysics.core.operations.symbolic import Symbolic
    from symplyphysics.core.symbols.symbols import DimensionSymbol
    from symplyphysics.docs.printer_code import code_str
    from symplyphysics.docs.printer_latex import latex_str
    path = Path(path_str)
    tree = ast.parse(path.read_text(encoding="utf-8"))
    kinds = classify(tree)
    last = max([i for i, k in enumerate(kinds) if k == "pubassign" and i + 1 < len(kinds) and kinds[i + 1] in DOC_KINDS],
               default=-1)
    ns: dict = {"__name__": "verif_c19_module", "__file__": str(path)}
    out = []
    try:
        for i, stmt in enumerate(tree.body[:last + 1]):
            off = kinds[i] == "pubassign" and kinds[i + 1] == "doc_dir"
            code = compile(ast.Module([stmt], type_ignores=[]), str(path), "exec")
            global_parameters.evaluate = not off
            try:
                exec(code, ns, ns)  # pylint: disable=exec-used
            finally:
                global_parameters.evaluate = True
            if kinds[i] == "pubassign" and kinds[i + 1] in DOC_KINDS:
                names = [t.id for t in stmt.targets if isinstance(t, ast.Name)]
                name = names[0]
                if name.startswith("_"):
                    continue
                value = ns[name]
                doc = tree.body[i + 1].value.value
                rec = {"name": name, "kind": kinds[i + 1], "has_symbol_dir": ":laws:symbol::" in doc,
                       "has_latex_dir": ":laws:latex::" in doc,
                       "doc_lines": [l.strip() for l in str(doc).splitlines() if l.strip() and ":laws:" not in l]}
                if isinstance(value, (DimensionSymbol, Symbolic)):
                    rec["row"] = [code_str(value), latex_str(value), print_dimension(value.dimension)]
                if rec["has_symbol_dir"]:
                    rec["code"] = code_str(value)
                if rec["has_latex_dir"]:
                    rec["latex"] = latex_str(value)
                out.append(rec)
    except Exception as e:  # pylint: disable=broad-except
        return path_str, None, f"{type(e).__name__}: {e}"
    return path_str, out, None


_BLOCK = re.compile(r"^\.\. py:(data|function):: (.*)$", re.M)
_ROW = re.compile(r"^Symbol:\n    :code:`(.*)`\n\nLatex:\n    :math:`(.*)`\n\nDimension:\n    :code:`(.*)`$", re.M)


def page_blocks(text: str):
    """Split a page into (kind, name, block text) per documented member / function."""
    marks = list(_BLOCK.finditer(text))
    blocks = []
    for n, m in enumerate(marks):
        end = marks[n + 1].start() if n + 1 < len(marks) else len(text)
        blocks.append((m.group(1), m.group(2), text[m.end():end]))
    return blocks


def formula_matches(page_block: str, own_code: str) -> bool:
    """EXTENSION POINT (C17 machinery, harness/printparse.py): compare the page's code formula with the module's
    own equation BY VALUE.  Until that parser is available the comparison is textual: the block must show
    exactly the code rendering of the module's own member."""
    return f":code:`{own_code}`" in page_block


def compare_page(text: str, members: list) -> list[str]:
    problems = []
    if ":laws:" in text:
        problems.append("a :laws: placeholder is left on the page")
    blocks = [(n, b) for k, n, b in page_blocks(text) if k == "data"]
    if [n for n, _ in blocks] != [m["name"] for m in members]:
        problems.append(f"members on the page {[n for n, _ in blocks]}, documented public members of the module "
                        f"{[m['name'] for m in members]}")
        return problems
    for (name, block), m in zip(blocks, members):
        have = [l.strip() for l in block.splitlines()]
        pos = 0
        for line in m.get("doc_lines", []):
            try:
                pos = have.index(line, pos) + 1
            except ValueError:
                problems.append(f"{name}: description on the page is not the member's own docstring (line {line!r} missing)")
                break
        row = _ROW.search(block)
        if "row" in m:
            if row is None:
                problems.append(f"{name}: symbol row missing")
            elif list(row.groups()) != m["row"]:
                problems.append(f"{name}: symbol row {list(row.groups())}, the member's own {m['row']}")
        elif row is not None:
            problems.append(f"{name}: symbol row {list(row.groups())} for a member that is not a symbol")
        if "code" in m and not formula_matches(block, m["code"]):
            problems.append(f"{name}: page does not show the member's own code formula {m['code']!r}")
        if "latex" in m:
            want = [l.strip() for l in m["latex"].splitlines() if l.strip()]
            have = [l.strip() for l in block.splitlines()]
            pos = have.index(".. math::") if ".. math::" in have else -1
            if pos < 0 or have[pos + 1:pos + 1 + len(want)] != want:
                problems.append(f"{name}: page does not show the member's own LaTeX formula {m['latex']!r}")
    return problems


_SYM_ROLE = re.compile(r":symbols:`(\w*)`")
_QTY_ROLE = re.compile(r":quantity_notation:`(\w*)`")
_SYM_ATTR = re.compile(r":attr:`~symplyphysics\.symbols\.(\w+)\.(\w+)`")
_QTY_ATTR = re.compile(r":attr:`~symplyphysics\.quantities\.(\w+)`")


def symbol_index():
    """name -> set of symbols.* modules that really define it (resolved here, not through the role code)."""
    import importlib
    import pkgutil
    import symplyphysics.symbols as sym_pkg
    from symplyphysics.core.symbols.symbols import DimensionSymbol
    index: dict = {}
    for info in pkgutil.iter_modules(sym_pkg.__path__):
        mod = importlib.import_module(f"symplyphysics.symbols.{info.name}")
        for attr, obj in vars(mod).items():
            if isinstance(obj, DimensionSymbol) and not attr.startswith("_"):
                index.setdefault(attr, set()).add(info.name)
    return index


def check_roles(run: Run, raw: Path, final: Path) -> None:
    from symplyphysics import quantities
    from symplyphysics.core.symbols.quantities import Quantity
    index = symbol_index()
    qty = {n for n, o in vars(quantities).items() if isinstance(o, Quantity)}
    nrefs = 0
    for f in sorted(raw.iterdir()):
        text = f.read_text(encoding="utf-8")
        done = (final / f.name).read_text(encoding="utf-8")
        syms = _SYM_ROLE.findall(text)
        qtys = _QTY_ROLE.findall(text)
        nrefs += len(syms) + len(qtys)
        for name in syms:
            if name not in index:
                run.violation(f"real: role {f.name} :symbols:`{name}`", f"{f.name}: :symbols:`{name}` does not resolve: "
                              "no module under symplyphysics.symbols defines it", {"layer": "real"})
        for name in qtys:
            if name not in qty:
                run.violation(f"real: role {f.name} :quantity_notation:`{name}`", f"{f.name}: :quantity_notation:`{name}` "
                              "does not resolve: symplyphysics.quantities has no such constant", {"layer": "real"})
        if _SYM_ROLE.search(done) or _QTY_ROLE.search(done):
            run.violation(f"real: role {f.name} unresolved", f"{f.name}: a :symbols: / :quantity_notation: reference is "
                          "left after role processing", {"layer": "real"})
        targets = _SYM_ATTR.findall(done)
        if len(targets) < len(syms):
            run.violation(f"real: role {f.name} lost", f"{f.name}: {len(syms)} :symbols: references, {len(targets)} links "
                          "after role processing", {"layer": "real"})
        for modname, name in targets:
            if modname not in index.get(name, ()):
                run.violation(f"real: role {f.name} -> symbols.{modname}.{name}",
                              f"{f.name}: link to symplyphysics.symbols.{modname}.{name}, which does not exist "
                              f"({name} is defined in {sorted(index.get(name, []))})", {"layer": "real"})
        for name in _QTY_ATTR.findall(done):
            if name not in qty:
                run.violation(f"real: role {f.name} -> quantities.{name}",
                              f"{f.name}: link to symplyphysics.quantities.{name}, which does not exist", {"layer": "real"})
    run.coverage["cross_references_resolved"] = nrefs
    run.evaluations += nrefs


def start_runs(sc: Path, runs):
    procs = []
    for n, (mode, seed) in enumerate(runs):
        out = sc / f"run{n}"
        cmd = [PY, "-m", "harness.c19_gen", str(out), mode] + ([str(sc / f"run{n}.json")] if mode == "probe" else [])
        procs.append((n, mode, seed, out, subprocess.Popen(cmd, env=repo_env(hashseed=seed), stdout=subprocess.PIPE,
                                                             stderr=subprocess.PIPE, text=True)))
    return procs


def real_tree(run: Run, sc: Path, procs, pool) -> None:
    from .c19_gen import DEFAULT_STATE
    results = []
    for n, mode, seed, out, p in procs:
        so, se = p.communicate(timeout=1800)
        if p.returncode != 0:
            run.violation(f"real: generation run {mode}", f"documentation generation ({mode}, PYTHONHASHSEED={seed}) failed: "
                          + se.strip().splitlines()[-1][:300] if se.strip() else "no output", {"layer": "real", "stderr": se[-3000:]})
            continue
        state = json.loads(so.strip().splitlines()[-1])
        if state != DEFAULT_STATE:
            run.violation(f"real: state after generation ({mode})", f"after generation ({mode}, seed {seed}) SymPy is not in "
                          f"its default mode: {state}", {"layer": "real", "state": state})
        results.append((n, mode, seed, out))
        run.traces += 1
    if not results or results[0][1] != "probe":
        return
    # --- determinism: byte-identical across hash seeds / histories
    ref = results[0][3] / "final"
    ref_files = {f.name: f.read_bytes() for f in ref.iterdir()}
    for n, mode, seed, out in results[1:]:
        other = {f.name: f.read_bytes() for f in (out / "final").iterdir()}
        if sorted(other) != sorted(ref_files):
            run.violation(f"real: determinism file set ({mode})", f"run {mode}/seed {seed} produced a different file set: "
                          f"{sorted(set(other) ^ set(ref_files))[:10]}", {"layer": "real"})
        diff = [k for k in ref_files if k in other and other[k] != ref_files[k]]
        for k in diff[:20]:
            run.violation(f"real: determinism {k}", f"{k} differs between PYTHONHASHSEED=0 and run {mode}/seed {seed}", {"layer": "real"})
        run.count(f"determinism {mode} {seed}", n=len(other))
    run.coverage["generation_runs_compared"] = [f"{m}/seed{s}" for _, m, s, _ in results]
    # --- trace + tree -> TLC
    raw = results[0][3] / "raw"
    trace = json.loads((sc / "run0.json").read_text())
    nodes, rootk, stems, paths, clashes = abstract_tree(REPO / SRC)
    for c in clashes:
        run.violation(f"real: page name clash {c}", f"a package and a module share the page name {c}", {"layer": "real"})
    produced, stray, toc = [], [], []
    for f in sorted(raw.iterdir()):
        stem = f.name[:-4] if f.name.endswith(".rst") else None
        if stem is None or stem not in stems:
            stray.append(f.name)
            continue
        i = stems[stem]
        produced.append(i)
        kind = rootk if i == 0 else nodes[i - 1]["k"]
        if not kind.startswith("law"):
            pk, lw, unknown = [], [], 0
            for e in parse_toctree(f.read_text(encoding="utf-8")):
                j = stems.get(e)
                if j is None:
                    unknown += 1
                elif nodes[j - 1]["k"].startswith("law"):
                    lw.append(j)
                else:
                    pk.append(j)
            toc.append({"d": i, "pk": pk, "lw": lw, "unknown": unknown})
    events = trace["events"]
    # one event list per module (begin .. end); anything recorded between modules forms a list of its own
    mods, curmod = [], None
    for e in events:
        if e["ev"] == "begin":
            curmod = {"path": e["path"], "ev": [e]}
            mods.append(curmod)
        elif e["ev"] == "finish":
            mods.append({"path": "(after the last module)", "ev": [e]})
            curmod = None
        elif curmod is None:
            mods.append({"path": "(between modules)", "ev": [e]})
        else:
            curmod["ev"].append(e)
            if e["ev"] == "end":
                curmod = None
    if not any(m["ev"][0]["ev"] == "finish" for m in mods):
        mods.append({"path": "(after the last module)", "ev": []})
    tdata = {"mods": mods, "tree": nodes, "rootk": rootk, "produced": produced, "stray": len(stray), "toc": toc}
    tf = sc / "docgen_trace.json"
    tf.write_text(json.dumps(tdata))
    cfg = write_cfg(sc / "trace.cfg", init="TInit", next_="TNext",
                    constants=dict(NOP, MaxNodes="<- TMaxNodes"),
                    invariants=["Accepted", "Stuck", "Unfinished", "FlagDefaultBetweenModules", "TreeReport"])
    res = run_tlc("DocGenTrace", cfg, sc, workers=1, env={"TRACE_FILE": str(tf)}, allow_violation=False)
    run.add_tlc(res, f"trace validation of the real generator run: {len(mods)} module traces, {len(events)} events, "
                     f"tree of {len(nodes)} nodes")
    run.traces += len(mods)
    run.coverage["real_tree"] = {
        "events": len(events), "modules": len(mods),
        "flag_changes": sum(1 for e in events if e["ev"] == "flag"),
        "statement_probes": sum(1 for e in events if e["ev"] == "stmt"),
        "pages": len(produced), "tree_nodes": len(nodes)}
    verdict = {}
    for line in res.raw_prints:
        m = re.match(r'<<"(ACCEPT|STUCK)", (\d+)(?:, (\d+))?>>', line)
        if m:
            verdict.setdefault(int(m.group(2)), (m.group(1), int(m.group(3) or 0)))
    if sorted(verdict) != list(range(1, len(mods) + 1)):
        raise RuntimeError(f"DocGenTrace gave {len(verdict)} verdicts for {len(mods)} module traces:\n" + res.output[-2000:])
    for n, mrec in enumerate(mods, start=1):
        v, at = verdict[n]
        if v == "ACCEPT":
            continue
        evs = mrec["ev"]
        ev = evs[at - 1] if at <= len(evs) else {"ev": "(trace ends before the module is closed)"}
        shape = evs[0].get("shape", []) if evs else []
        kind = shape[ev["i"] - 1] if ev.get("ev") == "stmt" and 0 < ev["i"] <= len(shape) else "-"
        run.violation(f"real: trace {mrec['path']} {ev.get('ev')}",
                      f"{mrec['path']}: event {at} {json.dumps({k: w for k, w in ev.items() if k not in ('shape', 'path')})} "
                      f"is not a step DocGenTrace allows (statement kind {kind}; evaluation flag protocol / expected mode / page)",
                      {"layer": "real", "event": ev, "module": mrec["path"], "shape": shape})
    rep = next((r for r in res.printed if isinstance(r, dict) and r.get("kind") == "tree"), None)
    if rep is None:
        raise RuntimeError("DocGenTrace printed no tree report")
    inv = {v: k for k, v in stems.items()}
    for i in rep["missing"]:
        run.violation(f"real: page missing {inv[i]}", f"no page for documented {inv[i]} ({paths[i]})", {"layer": "real"})
    for i in rep["extra"]:
        run.violation(f"real: page unexpected {inv[i]}", f"page {inv[i]}.rst although the walk layer expects none "
                      f"({paths[i]})", {"layer": "real"})
    for i in rep["notoc"] + rep["tocbad"]:
        run.violation(f"real: toctree {inv[i]}", f"package page {inv[i]} does not list exactly its documented laws and "
                      "sub-packages, sorted", {"layer": "real", "toc": [t for t in toc if t["d"] == i]})
    for name in stray:
        run.violation(f"real: stray file {name}", f"generated file {name} corresponds to no module or package", {"layer": "real"})
    # --- faithfulness of the pages: independent execution of every documented module
    documented = [(i, p) for i, p in paths.items() if i in set(produced)]
    own = {}
    for path_str, members, err in pmap(pool, extract_members, [str(p) for _, p in documented], chunk=8):
        own[path_str] = (members, err)
    rows = formulas = 0
    for i, p in documented:
        members, err = own[str(p)]
        stem = inv[i]
        if err is not None:
            run.outside(f"independent execution of a module failed ({err.split(':')[0]})")
            run.coverage.setdefault("modules_not_executed_independently", []).append(f"{stem}: {err[:120]}")
            continue
        text = (raw / (stem + ".rst")).read_text(encoding="utf-8")
        run.traces += 1
        rows += sum(1 for m in members if "row" in m)
        formulas += sum(1 for m in members if "code" in m)
        run.count(stem, n=len(members))
        for what in compare_page(text, members):
            run.violation(f"real: page {stem}: {what.split(':')[0]}", f"{stem}.rst: {what}"[:500],
                          {"layer": "real", "page": stem, "module": str(p)})
    run.coverage["real_tree"].update({"symbol_rows_compared": rows, "formulas_compared": formulas})
    check_roles(run, raw, results[0][3] / "final")
    run.sample({"layer": "real", "first_events": [({k: v for k, v in e.items() if k != "shape"}) for e in events[2:9]]}, limit=8)


# --------------------------------------------------------------------------------------------------

def main() -> int:
    tier = sys.argv[1] if len(sys.argv) > 1 else "quick"
    if tier == "--replay":
        return replay_file(sys.argv[2])
    run = Run(PID, tier)
    t = TIERS[tier]
    import symplyphysics  # noqa: F401  pylint: disable=unused-import,import-outside-toplevel
    import symplyphysics.docs.build  # noqa: F401  pylint: disable=unused-import,import-outside-toplevel
    with Scratch() as sc:
        procs = start_runs(sc, t["runs"])
        try:
            with make_pool() as pool:
                patch_layer(run, sc, t, pool, tier)
                walk_layer(run, sc, t, pool)
                history_layer(run, sc, t, pool)
                real_tree(run, sc, procs, pool)
        finally:
            for *_x, p in procs:
                if p.poll() is None:
                    p.kill()
    run.assumptions += [
        "a 'documented public member' is a public top-level assignment immediately followed by a string literal; a "
        "directive docstring elsewhere leaves the mode of the nearest preceding public assignment / documented function open",
        "statements after the last documented member may or may not be executed; string-literal statements cannot observe the mode",
        "package pages must list their documented laws and documented non-private sub-packages in sorted order; listing a "
        "non-private sub-directory that has no page is tolerated; the root package's entries may carry a leading dot",
        "formula faithfulness is textual (code_str / latex_str of the module's own member, obtained by an independent "
        "statement-by-statement execution); comparison by value is the C17 extension point formula_matches()",
        "Sphinx HTML building is not run; `:attr:` / py-domain references other than the two custom roles are not resolved",
    ]
    run.violations.sort(key=lambda v: not v["key"].startswith("real"))     # findings on the real tree first
    return run.finish(exhaustive=True)


def replay_file(path: str) -> int:
    data = json.loads(Path(path).read_text())
    case = data["case"]
    import symplyphysics.docs.build  # noqa: F401  pylint: disable=unused-import,import-outside-toplevel
    if case.get("layer") == "patch":
        _, problems = replay_shape(case["case"])
    elif case.get("layer") == "walk":
        with Scratch() as sc:
            c = dict(case["case"], scratch=str(sc))
            _, problems = replay_tree(c)
    elif case.get("layer") == "history":
        with Scratch() as sc:
            c = dict(case["case"], scratch=str(sc))
            _, problems = replay_history(c)
    else:
        # a finding on the real tree: run the real-tree phase again and look for the same key
        run = Run(PID, "replay")
        with Scratch() as sc:
            procs = start_runs(sc, TIERS["quick"]["runs"])
            with make_pool() as pool:
                real_tree(run, sc, procs, pool)
        problems = [v["what"] for v in run.violations if v["key"] == data["key"]]
        if data["key"] in run.known_hit:
            print(f"KNOWN-FINDING: property={PID} {data['key']}")
    for p in problems:
        print(f"VIOLATION property={PID} replay={path}\n  {p}")
    print("replayed:", data["key"], "->", "violation" if problems else "ok")
    return 1 if problems else 0


if __name__ == "__main__":
    main_wrapper(main)
