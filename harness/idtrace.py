"""Recording and validation of `next_id` events (hook H1), shared by C09 and C03.

The events of one process are split per prefix (order within a prefix preserved) and run-length encoded:
a run {"b", "lo", "hi"} stands for the consecutive events (b,lo) .. (b,hi).  spec/SymbolsTrace.tla decides
whether the recorded allocation is a behaviour of the counter of spec/Symbols.tla (every id fresh).
"""
from __future__ import annotations

import json
from pathlib import Path

from .tlc import parse_tla_tuple, run_tlc, write_cfg


class Recorder:
    """Sink for symplyphysics.core.verif_hooks: keeps (base, id) of every next_id event of this process."""

    def __init__(self):
        self.events: list = []
        self.owner = None     # optional callable returning a label for the current event

    def __call__(self, kind, payload):
        if kind == "next_id":
            self.events.append((payload["base"], payload["id"]))

    def install(self):
        """Install as the hook sink.  When symplyphysics is not imported yet, the hook module is loaded on its
        own first, so that the ids handed out while the package itself is imported are recorded as well."""
        import sys
        if "symplyphysics" not in sys.modules and "symplyphysics.core.verif_hooks" not in sys.modules:
            import importlib.util
            from .common import REPO
            spec = importlib.util.spec_from_file_location("symplyphysics.core.verif_hooks",
                                                          REPO / "symplyphysics" / "core" / "verif_hooks.py")
            mod = importlib.util.module_from_spec(spec)
            sys.modules[spec.name] = mod
            spec.loader.exec_module(mod)
            mod.sink = self
            import symplyphysics  # noqa: F401  pylint: disable=unused-import,import-outside-toplevel
            if sys.modules["symplyphysics.core.verif_hooks"] is not mod or sys.modules[
                    "symplyphysics.core.symbols.id_generator"]._verif_hooks is not mod:  # pylint: disable=protected-access
                raise RuntimeError("pre-loaded hook module was replaced during the import of symplyphysics")
        from symplyphysics.core import verif_hooks
        if not verif_hooks.enabled:
            raise RuntimeError("hooks are disabled: SYMPLYPHYSICS_VERIF=1 must be set before symplyphysics is imported")
        verif_hooks.sink = self
        return self

    def take(self) -> list:
        ev, self.events = self.events, []
        return ev


def to_runs(events) -> list:
    """[(base, id), ...] in recording order -> per-prefix runs (lossless for the per-prefix sequences)."""
    per: dict = {}
    for b, i in events:
        runs = per.setdefault(b, [])
        if runs and runs[-1][1] + 1 == i:
            runs[-1][1] = i
        else:
            runs.append([i, i])
    return [{"b": b, "lo": lo, "hi": hi} for b, runs in per.items() for lo, hi in runs]


def clash_candidates(events) -> list:
    """Events whose generated NAME (prefix followed by the id, Symbols!GenName) could coincide with the name of an
    event of another prefix: that needs one prefix to be the other one followed by digits ("m1" / "m"), so only the
    events of such prefix pairs are listed (none with the library's SYM / FUN / QTY / SYS / C / VEC prefixes).
    TLC builds the names and decides (invariant NameClash of the trace specifications)."""
    bases = {e[0] for e in events}
    related = set()
    for b in bases:
        for a in bases:
            if a != b and b.startswith(a) and b[len(a):].isdigit():
                related |= {a, b}
    seen, out = set(), []
    for e in events:
        if e[0] in related and (e[0], e[1]) not in seen:
            seen.add((e[0], e[1]))
            out.append({"b": e[0], "id": e[1]})
    return out[:3000]


# constants of Symbols.tla are irrelevant for trace validation (no model action is taken)
NULL_CONSTANTS = dict(MaxSteps=0, Actions=set(), Names=set(), Latexes=set(), DimNames=set(), Assums=set(),
                      CloneAssums=set(), Subs=set(), SysTypes=set(), BatchSizes=set(), XSysTypes=set())


def validate(run, sc: Path, traces: list, what: str, module: str = "SymbolsTrace", key_prefix: str = "next_id") -> dict:
    """traces: [{"tid": str, "runs": [...]}, ...].  Every trace must be ACCEPTed by the trace specification.
    Returns {tid: None | (index, base, lo, hi)}."""
    if not traces:
        return {}
    f = sc / f"idtrace_{abs(hash(what)) % 10**8}.json"
    names = [t["tid"] for t in traces]
    f.write_text(json.dumps({"traces": [{"tid": i, "runs": t["runs"], "named": t.get("named", [])}
                                        for i, t in enumerate(traces)]}))  # short tids:
    # TLC wraps long printed tuples over several lines
    cfg = write_cfg(sc / f"{f.stem}.cfg", init="TraceInit", next_="TraceNext", constants=NULL_CONSTANTS,
                    invariants=["Accepted", "Stuck", "NameClash"])
    res = run_tlc(module, cfg, sc, workers=1, env={"TRACE_FILE": str(f)}, allow_violation=False)
    run.add_tlc(res, f"trace validation ({module}): {what}")
    verdict: dict = {}
    for line in res.raw_prints:
        v = parse_tla_tuple(line)
        if v[0] == "ACCEPT":
            verdict.setdefault(names[v[1]], None)
        elif v[0] == "STUCK":
            verdict[names[v[1]]] = tuple(v[2:])
        elif v[0] == "CLASH":
            t = traces[v[1]]
            a, b = t["named"][v[2] - 1], t["named"][v[3] - 1]
            run.violation(f"{key_prefix}:alias:{a['b']}{a['id']}",
                          f"trace {t['tid']}: the generated name {a['b']}{a['id']} is built twice - from prefix "
                          f"{a['b']!r} id {a['id']} and from prefix {b['b']!r} id {b['id']} (NoAlias of Symbols.tla)",
                          {"trace": t["tid"], "events": [a, b]})
    missing = [t["tid"] for t in traces if t["tid"] not in verdict]
    if missing:
        raise RuntimeError(f"trace validation gave no verdict for {missing[:5]}")
    n_events = 0
    for t in traces:
        n_events += sum(r["hi"] - r["lo"] + 1 for r in t["runs"])
        run.traces += 1
        st = verdict[t["tid"]]
        if st is not None:
            idx, b, lo, hi = st
            run.violation(f"{key_prefix}:{t['tid']}:{b}{lo}",
                          f"recorded next_id events are not a behaviour of Symbols.tla: run {idx} of trace "
                          f"{t['tid']} hands out {b}{lo}..{b}{hi} again (ids must be fresh)",
                          {"trace": t, "stuck_at": list(st)})
    run.coverage["next_id_events_validated"] = run.coverage.get("next_id_events_validated", 0) + n_events
    return verdict
