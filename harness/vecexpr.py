"""Shared by C14 and C16: the leaf alphabet of spec/VecVal.tla mapped to real objects of
symplyphysics.core.experimental.vectors, construction of real expressions from postfix programs,
an independent exact evaluator of returned expressions, and the compiler real expression -> postfix
program (for the trace specifications, where TLC evaluates what the library returned).

Exact numbers on the Python side are finite sums  sum_i q_i * sqrt(n_i)  (q_i rational, n_i squarefree),
a superset of the model's  x * sqrt(n) / d.
"""
from __future__ import annotations

import itertools
import shutil
from fractions import Fraction
from math import isqrt
from pathlib import Path

from .tlc import SPEC, tla_value

INT_LIMIT = 2_000_000_000


class Outside(Exception):
    """The expression / value leaves the fragment decided exactly (never an alarm)."""


# ---------------------------------------------------------------------------------------------------
# exact numbers: {squarefree n: Fraction}, zero = {}; a negative n stands for the principal root i*sqrt(|n|)
def _sqsplit(s: int):
    """s = m*m*r with r squarefree (s > 0)."""
    m, r, p = 1, s, 2
    while p * p <= r:
        while r % (p * p) == 0:
            r //= p * p
            m *= p
        p += 1
    return m, r


def s_int(c) -> dict:
    c = Fraction(c)
    return {1: c} if c else {}


def s_add(a: dict, b: dict) -> dict:
    out = dict(a)
    for n, q in b.items():
        v = out.get(n, 0) + q
        if v:
            out[n] = v
        else:
            out.pop(n, None)
    return out


def s_neg(a: dict) -> dict:
    return {n: -q for n, q in a.items()}


def s_mul(a: dict, b: dict) -> dict:
    out: dict = {}
    for n1, q1 in a.items():
        for n2, q2 in b.items():
            m, r = _sqsplit(abs(n1 * n2))
            if n1 < 0 and n2 < 0:
                m = -m                      # i sqrt(a) * i sqrt(b) = -sqrt(a b)
            elif (n1 < 0) != (n2 < 0):
                r = -r
            v = out.get(r, 0) + q1 * q2 * m
            if v:
                out[r] = v
            else:
                out.pop(r, None)
    return out


def s_inv(a: dict) -> dict:
    if not a:
        raise Outside("division by zero")
    if len(a) == 1:
        (n, q), = a.items()
        return {n: 1 / (q * n)}
    if len(a) == 2:
        (n1, q1), (n2, q2) = a.items()
        den = q1 * q1 * n1 - q2 * q2 * n2          # (p + r)(p - r), rational and non-zero
        return {n1: q1 / den, n2: -q2 / den}
    raise Outside("reciprocal of a sum of three surds")


def s_pow(a: dict, e: int) -> dict:
    if e < 0:
        a, e = s_inv(a), -e
    out = s_int(1)
    for _ in range(e):
        out = s_mul(out, a)
    return out


def s_sign(a: dict) -> int:
    if not a:
        return 0
    if any(n < 0 for n in a):
        raise Outside("sign of a non-real number")
    if len(a) == 1:
        (_, q), = a.items()
        return 1 if q > 0 else -1
    from decimal import Decimal, getcontext
    getcontext().prec = 60
    v = sum(Decimal(q.numerator) / Decimal(q.denominator) * Decimal(n).sqrt() for n, q in a.items())
    if abs(v) < Decimal(10) ** -40:
        raise Outside("sign of a surd sum too close to zero")
    return 1 if v > 0 else -1


def s_sqrt(a: dict) -> dict:
    if not a:
        return {}
    if set(a) != {1}:
        raise Outside("square root of an irrational number")
    q = a[1]
    m, r = _sqsplit(abs(q.numerator) * q.denominator)
    return {(r if q > 0 else -r): Fraction(m, q.denominator)}      # sqrt(-q) = i sqrt(q)


def from_model(val: dict):
    """Model value (record of VecVal.tla) -> ('s'|'v', value, derivative)."""
    n, d = val["n"], val["d"]

    def one(c):
        return {n: Fraction(c, d)} if c else {}
    if val["k"] == "s":
        return "s", one(val["x"][0]), one(val["dx"][0])
    return "v", tuple(one(c) for c in val["x"]), tuple(one(c) for c in val["dx"])


def same_value(kind, want, got) -> bool:
    """got = ('s'|'v', value) from the evaluator; a numeric zero also stands for the zero vector."""
    gk, gv = got
    if kind == "v" and gk == "s":
        return gv == {} and all(c == {} for c in want)
    if kind != gk:
        return False
    return want == gv


def show(v) -> str:
    def one(s):
        if not s:
            return "0"
        return "+".join(f"{q}" + (f"*sqrt({n})" if n != 1 else "") for n, q in sorted(s.items()))
    k, val = v
    return one(val) if k == "s" else "(" + ", ".join(one(c) for c in val) + ")"


# ---------------------------------------------------------------------------------------------------
# assignments (shared with the specification through the generated constants module)
# vector leaves 1..4 = symbols a b c d, 5..7 = functions f(t) g(t) h(t), 8 = p(2t), 9 = q(-t) (vector functions at a
# scaled parameter: the tabulated derivative is the total t-derivative of the leaf); scalar leaves 1 = x, 2 = y, 3 = t
ASSIGNS = (
    (((1, 2, 2), (2, -1, 3), (-1, 3, 1), (3, 1, -2), (1, -2, 2), (2, 1, -1), (-1, 1, 3), (3, -1, 2), (-2, 3, 1)),
     ((0, 0, 0),) * 4 + ((2, 1, -1), (1, -3, 2), (3, 1, 1), (2, -2, 4), (1, 2, -3)),
     (-3, 2, 3), (0, 0, 1)),
    (((2, -3, 1), (1, 1, -2), (3, 2, 2), (-2, 1, 3), (2, 1, -3), (-1, 2, 2), (1, 3, -1), (1, -2, 3), (3, 1, -1)),
     ((0, 0, 0),) * 4 + ((1, -1, 2), (2, 2, -1), (-1, 2, 1), (-2, 4, 2), (-1, 1, 2)),
     (2, -3, -3), (0, 0, 1)),
)
VEC_NAMES = {1: "a", 2: "b", 3: "c", 4: "d", 5: "f", 6: "g", 7: "h", 8: "p(2t)", 9: "q(-t)"}
SCAL_NAMES = {1: "x", 2: "y", 3: "t"}


def prog_str(prog, vec_names=None) -> str:
    names = dict(VEC_NAMES)
    names.update(vec_names or {})
    out = []
    for op, k in prog:
        if op == "vec":
            out.append(names[k])
        elif op == "dvec":
            out.append("d" + names[k])
        elif op == "scal":
            out.append(SCAL_NAMES[k])
        elif op == "int":
            out.append(str(k))
        elif op == "pow":
            out.append(f"pow{k}")
        else:
            out.append(op)
    return " ".join(out)


# ---------------------------------------------------------------------------------------------------
# real objects
N_SYMS = 10
SYM_NAMES = ["F", "F", "G", "v3", "F", "G", "v6", "F", "v8", "G"]     # distinct symbols may share a display name


class Pool:
    """Pre-created leaves and compound operands.  Operand ordering in the library is by id(), also of the cross
    products that occur as operands of other products.  N_SYMS vector symbols and the cross product object of
    every pair of them (the very object the library's cached constructors hand out, args in id order) are created
    once, before the workers fork, interleaved with filler allocations so that the addresses of symbols and cross
    objects interleave; all are kept alive.  Roles a b c d are given to symbols by index in the id-sorted list,
    chosen so that every relative order of the operand objects (symbols and pre-created crosses) occurs (see
    `assignments`).  Several symbols share a display name: names are labels, distinct symbols stay distinct.
    8 applied vector functions are created likewise; f g h take three of them by rank."""

    def __init__(self):
        import sympy as sp
        from symplyphysics.core.experimental.vectors import VectorCross, VectorFunction, VectorSymbol
        self._cross = VectorCross
        self.t = sp.Symbol("t", real=True)
        self.x = sp.Symbol("x", real=True)
        self.y = sp.Symbol("y", real=True)
        created, crosses, self._keep = [], {}, []
        for i in range(N_SYMS):
            sym = VectorSymbol(SYM_NAMES[i])
            for other in created:
                v, w = sorted((other, sym), key=id)
                crosses[(v, w)] = VectorCross(v, w, evaluate=False)
            created.append(sym)
            fill = [VectorSymbol(f"fill{i}_{k}") for k in range(60)]
            self._keep.append(fill)
            self._keep.append([VectorCross(fill[k], fill[k + 1], evaluate=False) for k in range(59)])
        self.syms = sorted(created, key=id)
        self.comp = {}
        for (v, w), obj in crosses.items():
            self.comp[(self.syms.index(v), self.syms.index(w))] = obj
        self.names = [str(sym.display_name) for sym in self.syms]
        self.fun_classes = [VectorFunction(f"F{i}") for i in range(8)]
        self.funs = sorted((f(self.t) for f in self.fun_classes), key=id)
        self.fun_slots = [self.funs[i] for i in (1, 3, 6)]
        self.scaled_funs = {8: VectorFunction("P")(2 * self.t), 9: VectorFunction("Q")(-self.t)}
        self._assign_cache = {}

    def touch(self) -> int:
        """Keep the pre-created cross objects the most recently used entries of SymPy's cache, so that the
        library's constructors keep handing out these very objects; returns how many were lost (0 expected)."""
        lost = 0
        for (i, j), obj in self.comp.items():
            if self._cross(self.syms[i], self.syms[j], evaluate=False) is not obj:
                lost += 1
        return lost

    def leaves(self, order, forder=(0, 1, 2)):
        """order: index (in the id-sorted symbol list) of the symbol playing a, b, c, d; forder: ranks of f g h."""
        vec = {i + 1: self.syms[order[i]] for i in range(len(order))}
        for i in range(3):
            vec[5 + i] = self.fun_slots[forder[i]]
        vec.update(self.scaled_funs)
        return {"vec": vec, "scal": {1: self.x, 2: self.y, 3: self.t}}

    # -- which id() orders a program can see ---------------------------------------------------------
    def objects(self, sig, order):
        """ids of the operand objects of a program signature under a role assignment: the symbols of the used
        roles, then the pre-created cross object of every cross(leaf, leaf) node."""
        roles, pairs = sig
        ids = [id(self.syms[order[r - 1]]) for r in roles]
        for r, q in pairs:
            i, j = sorted((order[r - 1], order[q - 1]))
            ids.append(id(self.comp[(i, j)]))
        return ids

    def assignments(self, sig, strength: int, cap: int):
        """Role assignments (tuples of 4 symbol indices) such that every relative id() order of every `strength`
        operand objects that some assignment realises is realised by a chosen one, and every pair of roles is seen
        both with equal and with different display names; greedy cover, at most `cap`, deterministic."""
        key = (sig, strength, cap)
        if key in self._assign_cache:
            return self._assign_cache[key]
        roles, pairs = sig
        nobj = len(roles) + len(pairs)
        groups = list(itertools.combinations(range(nobj), min(strength, nobj)))
        cands = []
        for pick in itertools.permutations(range(N_SYMS), len(roles)):
            order = [0, 1, 2, 3]
            free = [i for i in range(N_SYMS) if i not in pick]
            full = {}
            for r, idx in zip(roles, pick):
                full[r] = idx
            for r in (1, 2, 3, 4):
                if r not in full:
                    full[r] = free.pop(0)
            order = tuple(full[r] for r in (1, 2, 3, 4))
            ids = self.objects(sig, order)
            feats = set()
            for g in groups:
                feats.add((g, tuple(sorted(g, key=lambda k: ids[k]))))
            for r, q in itertools.combinations(roles, 2):
                feats.add(("name", r, q, self.names[full[r]] == self.names[full[q]]))
            cands.append((order, feats))
        universe = set().union(*(f for _, f in cands)) if cands else set()
        chosen, covered = [], set()
        while covered != universe and len(chosen) < cap:
            best = max(cands, key=lambda c: len(c[1] - covered))
            if not best[1] - covered:
                break
            chosen.append(best[0])
            covered |= best[1]
        if not chosen:
            chosen = [(0, 1, 2, 3)]
        self._assign_cache[key] = (chosen, len(covered), len(universe))
        return self._assign_cache[key]

    def pattern(self, sig, order):
        """The relative id() order of the operand objects (for evidence and replay files)."""
        ids = self.objects(sig, order)
        return sorted(range(len(ids)), key=lambda k: ids[k])

    def env(self, leaves, assign):
        """Evaluation environment of one assignment for the given role assignment."""
        vecs, dvecs, scals, _ = assign
        env = {}
        for i, obj in leaves["vec"].items():
            env[obj] = ("v", tuple(s_int(c) for c in vecs[i - 1]))
            if i >= 5:
                env[("d", obj)] = ("v", tuple(s_int(c) for c in dvecs[i - 1]))
        for j, obj in leaves["scal"].items():
            env[obj] = ("s", s_int(scals[j - 1]))
        return env

    def names_of(self, leaves):
        """object -> token, for the compiler."""
        out = {}
        for i, obj in leaves["vec"].items():
            out[obj] = ["vec", i]
            if i >= 5:
                out[("d", obj)] = ["dvec", i]
        for j, obj in leaves["scal"].items():
            out[obj] = ["scal", j]
        return out


def signature(prog):
    """(roles used, cross(leaf, leaf) pairs) of a program: the operand objects whose id() order the harness
    controls.  A leaf stays a leaf under negation and scaling (the library splits the factor off)."""
    st, pairs, roles = [], set(), set()
    for op, k in prog:
        if op == "vec":
            st.append(k if k <= 4 else None)
            if k <= 4:
                roles.add(k)
            continue
        if op in ("scal", "int"):
            st.append(None)
            continue
        n = ARITY.get(op, 2)
        args = st[-n:]
        del st[-n:]
        if op == "neg":
            st.append(args[0])
        elif op == "scalev":
            st.append(args[1])
        else:
            if op == "cross" and args[0] and args[1] and args[0] != args[1]:
                pairs.add(tuple(sorted(args)))
            st.append(None)
    return tuple(sorted(roles)), tuple(sorted(pairs))


def covering_orders(n_quick: int = 6):
    """All 24 rank permutations of four roles, the first `n_quick` of which already show every relative
    order of every three roles (a perfect sequence covering array; found by search, deterministic)."""
    perms = list(itertools.permutations(range(4)))
    triples = list(itertools.combinations(range(4), 3))

    def pattern(p, tr):
        return tuple(sorted(tr, key=lambda r: p[r]))
    for combo in itertools.combinations(perms[1:], n_quick - 1):
        chosen = (perms[0],) + combo
        if all(len({pattern(p, tr) for p in chosen}) == 6 for tr in triples):
            rest = [p for p in perms if p not in chosen]
            return list(chosen) + rest
    raise RuntimeError("no covering set")


def orders_for(prog, orders):
    """The rank permutations that matter for a program using the roles 1..k (canonical naming): one per
    distinct relative order of those roles."""
    used = sorted({k for op, k in prog if op == "vec" and k <= 4})
    seen, out = set(), []
    for p in orders:
        pat = tuple(sorted(used, key=lambda r: p[r - 1]))
        if pat not in seen:
            seen.add(pat)
            out.append(p)
    return out


def forders_for(prog):
    used = sorted({k for op, k in prog if op == "vec" and 5 <= k <= 7})
    seen, out = set(), []
    for p in itertools.permutations(range(3)):
        pat = tuple(sorted(used, key=lambda r: p[r - 5]))
        if pat not in seen:
            seen.add(pat)
            out.append(p)
    return out


ARITY = {"vec": 0, "dvec": 0, "scal": 0, "int": 0, "neg": 1, "norm": 1, "pow": 1, "abs": 1, "sign": 1, "sqrt": 1,
         "mixed": 3}


def build(prog, leaves, evaluate: bool):
    """Postfix program -> real expression.  evaluate=True: every node is constructed the ordinary way
    (the library evaluates automatically); evaluate=False: every node is kept as written."""
    import sympy as sp
    from symplyphysics.core.experimental.vectors import VectorCross, VectorDot, VectorMixedProduct, VectorNorm
    st = []
    for op, k in prog:
        if op == "vec":
            st.append(leaves["vec"][k])
            continue
        if op == "scal":
            st.append(leaves["scal"][k])
            continue
        if op == "int":
            st.append(sp.Integer(k))
            continue
        n = ARITY.get(op, 2)
        args = st[-n:]
        del st[-n:]
        if op == "neg":
            st.append(sp.Mul(sp.S.NegativeOne, args[0], evaluate=evaluate))
        elif op in ("addv", "adds"):
            st.append(sp.Add(args[0], args[1], evaluate=evaluate))
        elif op in ("scalev", "muls"):
            st.append(sp.Mul(args[0], args[1], evaluate=evaluate))
        elif op == "pow":
            st.append(sp.Pow(args[0], sp.Integer(k), evaluate=evaluate))
        elif op == "dot":
            st.append(VectorDot(args[0], args[1], evaluate=evaluate))
        elif op == "cross":
            st.append(VectorCross(args[0], args[1], evaluate=evaluate))
        elif op == "mixed":
            st.append(VectorMixedProduct(args[0], args[1], args[2], evaluate=evaluate))
        elif op == "norm":
            st.append(VectorNorm(args[0], evaluate=evaluate))
        else:
            raise KeyError(op)
    assert len(st) == 1, prog
    return st[0]


# ---------------------------------------------------------------------------------------------------
# the independent evaluator
def _vec_op(f, *vs):
    return tuple(f(*cs) for cs in zip(*vs))


def v_dot(u, v):
    out = {}
    for a, b in zip(u, v):
        out = s_add(out, s_mul(a, b))
    return out


def v_cross(u, v):
    def c(i):
        j, m = (i + 1) % 3, (i + 2) % 3
        return s_add(s_mul(u[j], v[m]), s_neg(s_mul(u[m], v[j])))
    return (c(0), c(1), c(2))


ZERO_V = ({}, {}, {})


def _as_vec(val):
    k, v = val
    if k == "v":
        return v
    if v == {}:
        return ZERO_V          # the library writes the zero vector as the number 0
    raise Outside("scalar where a vector is expected")


def evaluate(expr, env):
    """Value of a real expression under env: ('s', number) or ('v', (n1, n2, n3))."""
    import sympy as sp
    from symplyphysics.core.experimental import vectors as V
    if expr in env:
        return env[expr]
    if isinstance(expr, V.VectorDerivative):
        fn = expr.args[0]
        if len(expr.args) == 2 and tuple(expr.args[1]) == (env["__t__"], 1) and ("d", fn) in env:
            return env[("d", fn)]
        raise Outside(f"derivative node {expr}")
    if isinstance(expr, sp.Integer):
        return "s", s_int(int(expr))
    if isinstance(expr, sp.Rational):
        return "s", s_int(Fraction(int(expr.p), int(expr.q)))
    if isinstance(expr, sp.Add):
        vals = [evaluate(a, env) for a in expr.args]
        if any(k == "v" for k, _ in vals):
            out = ZERO_V
            for val in vals:
                out = _vec_op(s_add, out, _as_vec(val))
            return "v", out
        out = {}
        for _, v in vals:
            out = s_add(out, v)
        return "s", out
    if isinstance(expr, sp.Mul):
        vals = [evaluate(a, env) for a in expr.args]
        vecs = [v for k, v in vals if k == "v"]
        if len(vecs) > 1:
            raise Outside("product of two vectors")
        f = s_int(1)
        for k, v in vals:
            if k == "s":
                f = s_mul(f, v)
        if vecs:
            return "v", tuple(s_mul(f, c) for c in vecs[0])
        return "s", f
    if isinstance(expr, sp.Pow):
        k, b = evaluate(expr.base, env)
        if k != "s":
            raise Outside("power of a vector")
        e = expr.exp
        if isinstance(e, sp.Integer) and abs(int(e)) <= 64:
            return "s", s_pow(b, int(e))
        if isinstance(e, sp.Rational) and int(e.q) == 2 and abs(int(e.p)) <= 12:
            return "s", s_pow(s_sqrt(b), int(e.p))
        raise Outside(f"exponent {e}")
    if isinstance(expr, sp.Abs):
        k, v = evaluate(expr.args[0], env)
        if k != "s":
            raise Outside("Abs of a vector")
        return "s", (v if s_sign(v) >= 0 else s_neg(v))
    if isinstance(expr, sp.sign):
        k, v = evaluate(expr.args[0], env)
        if k != "s" or not v:
            raise Outside("sign of zero / of a vector")
        return "s", s_int(s_sign(v))
    if isinstance(expr, V.VectorDot):
        u, v = (_as_vec(evaluate(a, env)) for a in expr.args)
        return "s", v_dot(u, v)
    if isinstance(expr, V.VectorCross):
        u, v = (_as_vec(evaluate(a, env)) for a in expr.args)
        return "v", v_cross(u, v)
    if isinstance(expr, V.VectorMixedProduct):
        a, b, c = (_as_vec(evaluate(x, env)) for x in expr.args)
        return "s", v_dot(a, v_cross(b, c))
    if isinstance(expr, V.VectorNorm):
        u = _as_vec(evaluate(expr.args[0], env))
        return "s", s_sqrt(v_dot(u, u))
    raise Outside(f"node {type(expr).__name__}")


# ---------------------------------------------------------------------------------------------------
# the compiler: real expression -> postfix program of VecVal.tla
def _int_tok(c: int):
    if abs(c) >= INT_LIMIT:
        raise Outside("integer literal beyond 32 bits")
    return ["int", int(c)]


def compile_expr(expr, names, t=None, want=None):
    """Returns (tokens, kind).  `want` = 'v' turns a bare 0 into the zero vector."""
    toks, kind = _compile(expr, names, t)
    if kind == "z":
        if want == "v":
            first = next(tok for tok in names.values() if tok[0] == "vec")
            return [["int", 0], first, ["scalev", 0]], "v"
        return toks, "s"
    return toks, kind


def _compile(expr, names, t):  # pylint: disable=too-many-return-statements,too-many-branches
    import sympy as sp
    from symplyphysics.core.experimental import vectors as V
    if expr in names:
        tok = names[expr]
        return [tok], ("v" if tok[0] in ("vec", "dvec") else "s")
    if isinstance(expr, V.VectorDerivative):
        fn = expr.args[0]
        if len(expr.args) == 2 and tuple(expr.args[1]) == (t, 1) and ("d", fn) in names:
            return [names[("d", fn)]], "v"
        raise Outside(f"derivative node {expr}")
    if isinstance(expr, sp.Integer):
        return [_int_tok(int(expr))], ("z" if expr == 0 else "s")
    if isinstance(expr, sp.Rational):
        return [_int_tok(int(expr.p)), _int_tok(int(expr.q)), ["pow", -1], ["muls", 0]], "s"
    if isinstance(expr, sp.Add):
        parts = [_compile(a, names, t) for a in expr.args]
        kinds = {k for _, k in parts} - {"z"}
        if len(kinds) > 1:
            raise Outside("sum of a scalar and a vector")
        kind = kinds.pop() if kinds else "z"
        parts = [p for p in parts if p[1] != "z"] or parts[:1]
        toks = list(parts[0][0])
        for p, _ in parts[1:]:
            toks += p + [["addv" if kind == "v" else "adds", 0]]
        return toks, kind
    if isinstance(expr, sp.Mul):
        parts = [_compile(a, names, t) for a in expr.args]
        if any(k == "z" for _, k in parts):
            return [["int", 0]], "z"
        scal = [p for p, k in parts if k == "s"]
        vecs = [p for p, k in parts if k == "v"]
        if len(vecs) > 1:
            raise Outside("product of two vectors")
        toks = []
        for i, p in enumerate(scal):
            toks += p + ([["muls", 0]] if i else [])
        if vecs:
            if not scal:
                return vecs[0], "v"
            return toks + vecs[0] + [["scalev", 0]], "v"
        return toks, "s"
    if isinstance(expr, sp.Pow):
        b, k = _compile(expr.base, names, t)
        if k == "s" and isinstance(expr.exp, sp.Rational) and int(expr.exp.q) == 2 and abs(int(expr.exp.p)) <= 16:
            return b + [["sqrt", 0]] + ([["pow", int(expr.exp.p)]] if int(expr.exp.p) != 1 else []), "s"
        if k != "s" or not isinstance(expr.exp, sp.Integer) or abs(int(expr.exp)) > 16:
            raise Outside(f"power {expr.exp} / base kind {k}")
        return b + [["pow", int(expr.exp)]], "s"
    if isinstance(expr, (sp.Abs, sp.sign)):
        b, k = _compile(expr.args[0], names, t)
        if k != "s":
            raise Outside("Abs of a non-scalar")
        return b + [["abs" if isinstance(expr, sp.Abs) else "sign", 0]], "s"
    table = ((V.VectorDot, "dot", "s"), (V.VectorCross, "cross", "v"), (V.VectorMixedProduct, "mixed", "s"),
             (V.VectorNorm, "norm", "s"))
    for cls, op, kind in table:
        if isinstance(expr, cls):
            toks = []
            for a in expr.args:
                p, k = _compile(a, names, t)
                if k == "z":
                    return [["int", 0]], "z"
                if k != "v":
                    raise Outside("scalar operand of a vector product")
                toks += p
            return toks + [[op, 0]], kind
    raise Outside(f"node {type(expr).__name__}")


# ---------------------------------------------------------------------------------------------------
# TLC plumbing: cfg files cannot hold negative numbers, so constants go through a generated module
MODULES = ("Rat", "VecVal", "VecAlgebra", "VecAlgebraTrace", "VecSolve", "VecSolveTrace")


def copy_specs(sc: Path) -> None:
    """The generated constants modules EXTEND the specifications: TLC wants them in one directory."""
    for m in MODULES:
        f = SPEC / f"{m}.tla"
        if f.exists():
            shutil.copy(f, sc / f.name)


def mc_module(sc: Path, base: str, name: str, consts: dict) -> dict:
    """Write <name>.tla = EXTENDS <base> + one definition per constant; returns the cfg constant map."""
    lines = [f"---- MODULE {name} ----", f"EXTENDS {base}"]
    cmap = {}
    for k, v in consts.items():
        lines.append(f"mc{k} == {tla_value(v)}")
        cmap[k] = f"<- mc{k}"
    lines.append("====")
    (sc / f"{name}.tla").write_text("\n".join(lines) + "\n")
    return cmap
