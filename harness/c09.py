"""C09: distinct symbols never alias; clones keep dimension and assumptions; printing shows display names.

spec -> code : TLC enumerates every creation history of spec/Symbols.tla within the bounds (after checking the
               invariants NoAlias / CloneKeeps / PrintsDisplayNames / counter properties on the model); each
               complete history is replayed with the real constructors and clone helpers.  After every action
               the real object is projected (generated name, display name, LaTeX name, dimension,
               assumptions0) and compared with the record the model appended; at the end of the history the
               behavioural non-aliasing test runs: a linear form over all live objects, and subs / diff /
               solve with respect to each object must touch only that object's term; the printers must show
               the model's display / LaTeX names and no generated name.
code -> spec : the `next_id` hook events of every worker process (all replays) and of one process importing the
               whole catalogue are validated by spec/SymbolsTrace.tla (an id is never handed out twice).
"""
from __future__ import annotations

import json
import os
import re
import subprocess
import sys
from pathlib import Path

from . import idtrace
from .common import PY, HardTimeout, Run, main_wrapper, make_pool, pmap, repo_env, time_limit
from .tlc import Scratch, run_tlc, write_cfg

PID = "C09"

CREATE = ["NewSymbol", "NewIndexed", "NewFunction", "NewQuantity", "NewSystem", "Transform", "Rotate",
          "NewVectorSymbol", "NewVectorFunction", "NewQuantityVector"]
CLONE = ["CloneAsSymbol", "CloneAsFunction", "CloneAsIndexed"]


def _c(steps, actions, names, latexes=("none",), dims=("length",), assums=("positive",), cassums=("inherit",),
       subs=("none",), systypes=("cartesian",), batch=(), xsys=()):
    return dict(MaxSteps=steps, Actions=set(actions), Names=set(names), Latexes=set(latexes), DimNames=set(dims),
                Assums=set(assums), CloneAssums=set(cassums), Subs=set(subs), SysTypes=set(systypes),
                BatchSizes=set(batch), XSysTypes=set(xsys))


# Several configurations per tier: TLC explores ALL histories of each (the alphabets are sub-domains of the
# parameters; depth 5 = quick, depth 7 = thorough, plus wide alphabets at smaller depth).
FULL = dict(latexes=("none", "R"), assums=("none", "positive", "real"), cassums=("inherit", "positive", "real"),
            subs=("none", "0"))
CFG = {
    "quick": {
        # the creation kinds of the statement, the same display name everywhere (the aliasing hazard), depth 5
        "kinds5": _c(5, ["NewSymbol", "NewIndexed", "NewFunction", "NewQuantity", "NewSystem", "Rotate"], {"r"}),
        # every creation kind incl. transforms and the vector classes that draw on the same counters, depth 4
        "create4": _c(4, CREATE, {"r"}, systypes=("cartesian", "cylindrical")),
        # creations and all three clone helpers with a subscript, depth 5
        "clones5": _c(5, ["NewSymbol", "NewIndexed"] + CLONE, {"r"}, subs=("0",)),
        # names given / not given, assumptions passed / inherited through chains of clones, depth 3
        "chains3": _c(3, ["NewSymbol"] + CLONE, {"none", "r"}, assums=("none", "positive"),
                      cassums=("inherit", "real"), subs=("none", "0")),
        # LaTeX overrides through chains of clones, depth 3
        "latex3": _c(3, ["NewSymbol", "NewIndexed"] + CLONE, {"r"}, latexes=("none", "R"), subs=("none", "0")),
        # full parameter domains (3 names, 2 LaTeX names, 2 dimensions, 3 assumption sets, subscripts), depth 2
        "wide2": _c(2, ["NewSymbol", "NewIndexed"] + CLONE, {"none", "r", "T"}, dims=("one", "length"), **FULL),
        # functions whose declared argument is a symbol / an unapplied function / an applied function, printed bare
        "functionals3": _c(3, ["NewSymbol", "NewFunction", "NewFunctional", "CloneAsFunction"], {"r", "T"}),
        # several experimental coordinate systems of each kind: their base scalars and base vectors are objects of
        # their own although all systems of a kind use the same display names
        "xsystems3": _c(3, ["NewSymbol", "NewExpSystem"], {"r"}, xsys=("xcartesian", "xcylindrical", "xspherical")),
        # counters reaching two digits + display names of which one is another one followed by digits
        # ("zq" used for the 11th time, "zq1" for the 1st): a batch of 10 equally named objects, then singles
        "digits3": _c(3, ["NewSymbol", "NewIndexed", "NewFunction", "NewQuantity", "NewBatch"], {"zq", "zq1"}, batch=(10,)),
        # assumption sets made of FALSE facts that no true fact implies, through chains of clones
        "falsefacts4": _c(4, ["NewSymbol"] + CLONE, {"r"}, assums=("noncommutative", "zerofalse", "notinteger")),
    },
    "thorough": {
        # functions whose declared argument is a symbol / an unapplied function / an applied function, printed bare
        "functionals3": _c(3, ["NewSymbol", "NewFunction", "NewFunctional", "CloneAsFunction"], {"r", "T"}),
        # several experimental coordinate systems of each kind: their base scalars and base vectors are objects of
        # their own although all systems of a kind use the same display names
        "xsystems3": _c(3, ["NewSymbol", "NewExpSystem"], {"r"}, xsys=("xcartesian", "xcylindrical", "xspherical")),
        # counters reaching two digits + display names of which one is another one followed by digits
        # ("zq" used for the 11th time, "zq1" for the 1st): a batch of 10 equally named objects, then singles
        "digits3": _c(3, ["NewSymbol", "NewIndexed", "NewFunction", "NewQuantity", "NewBatch"], {"zq", "zq1"}, batch=(10,)),
        # assumption sets made of FALSE facts that no true fact implies, through chains of clones
        "falsefacts4": _c(4, ["NewSymbol"] + CLONE, {"r"}, assums=("noncommutative", "zerofalse", "notinteger")),
        "kinds7": _c(7, ["NewSymbol", "NewFunction", "NewQuantity", "NewSystem", "Rotate"], {"r"}),
        "create5": _c(5, CREATE, {"r"}, systypes=("cartesian", "cylindrical")),
        "clones7": _c(7, ["NewSymbol", "CloneAsSymbol", "CloneAsFunction"], {"r"}, subs=("0",)),
        "clones5": _c(5, ["NewSymbol", "NewIndexed"] + CLONE, {"r"}, subs=("0",)),
        "chains3": _c(3, ["NewSymbol"] + CLONE, {"none", "r"}, assums=("none", "positive"),
                      cassums=("inherit", "real"), subs=("none", "0")),
        "latex4": _c(4, ["NewSymbol", "NewIndexed"] + CLONE, {"r"}, latexes=("none", "R"), subs=("none", "0")),
        "wide2": _c(2, CREATE + CLONE, {"none", "r", "T"}, dims=("one", "length", "time"),
                    systypes=("cartesian", "cylindrical", "spherical"), **FULL),
    },
}

INVARIANTS = ["TypeOK", "NoAlias", "NamesFromCounters", "CloneKeeps", "PrintsDisplayNames", "ModelIdsAreFresh"]
PROPERTIES = ["CountersNeverDecrease", "CreationTakesFreshId"]

GENERATED = re.compile(r"(?:SYM|FUN|QTY)\d+")
MODEL_NAME = re.compile(r"^(?:SYM|FUN|QTY|SYS|C|VEC)\d+")

_L = None          # library objects, built once per process
_REC = None        # next_id recorder of this process
_SEQ = 0           # per-process sequence number of replays (orders the recorded events)


class _Lib:
    def __init__(self):
        import sympy as sp
        import symplyphysics as sy
        from symplyphysics import units
        from symplyphysics.core.symbols import symbols as sm
        from symplyphysics.core.coordinate_systems import coordinate_systems as cs
        from symplyphysics.core.experimental.vectors import VectorFunction, VectorSymbol
        from symplyphysics.docs.printer_code import code_str
        from symplyphysics.docs.printer_latex import latex_str
        self.sp, self.sy, self.sm, self.cs = sp, sy, sm, cs
        self.VectorSymbol, self.VectorFunction = VectorSymbol, VectorFunction
        self.code_str, self.latex_str = code_str, latex_str
        self.dims = {"one": sy.dimensionless, "length": units.length, "time": units.time, "angle": sy.angle_type}
        from symplyphysics.core.experimental import coordinate_systems as xcs
        self.xsys = {"xcartesian": xcs.CartesianCoordinateSystem, "xcylindrical": xcs.CylindricalCoordinateSystem,
                     "xspherical": xcs.SphericalCoordinateSystem}
        self.qexpr = {"one": sp.Integer(2), "length": 2 * units.meter, "time": 2 * units.second}
        self.assum = {"none": {}, "positive": {"positive": True}, "real": {"real": True},
                      # false facts that no true fact implies (a clone rebuilt from the true facts only loses them)
                      "noncommutative": {"commutative": False}, "zerofalse": {"zero": False},
                      "notinteger": {"integer": False}}
        # the abstraction of assumptions0: which model label has this closure (computed by SymPy itself)
        self.closure = {k: dict(sp.Symbol("verif_ref", **v).assumptions0) for k, v in self.assum.items()}
        self.systype = {"cartesian": cs.CoordinateSystem.System.CARTESIAN,
                        "cylindrical": cs.CoordinateSystem.System.CYLINDRICAL,
                        "spherical": cs.CoordinateSystem.System.SPHERICAL}
        self.arg = sp.Symbol("verif_arg")
        self.meter = units.meter


def _init():
    global _L, _REC  # pylint: disable=global-statement
    if _L is None:
        _REC = idtrace.Recorder().install()
        _L = _Lib()
    return _L


def _opt(v):
    return None if v == "none" else v


def _create(L, st, live):
    """Perform one model action with the real API.  Returns the real object (None for containers)."""
    op = st["op"]
    n, lx = _opt(st["n"]), _opt(st["l"])
    dim = L.dims.get(st["d"])
    if op == "NewSymbol":
        return L.sy.Symbol(n, dim, display_latex=lx, **L.assum[st["a"]])
    if op == "NewIndexed":
        return L.sy.IndexedSymbol(n, None, dim, display_latex=lx, **L.assum[st["a"]])
    if op == "NewFunction":
        return L.sy.Function(n, [L.arg], dim, display_latex=lx)
    if op == "NewQuantity":
        return L.sy.Quantity(L.qexpr[st["d"]], display_symbol=n, display_latex=lx)
    if op == "NewSystem":
        return L.cs.CoordinateSystem(L.systype[st["t"]])
    if op == "Transform":
        return L.cs.coordinates_transform(live[st["src"] - 1], L.systype[st["t"]])
    if op == "Rotate":
        src = live[st["src"] - 1]
        return L.cs.coordinates_rotate(src, L.sp.pi / 2, src.coord_system.k)
    if op == "NewVectorSymbol":
        return L.VectorSymbol(n, dim)
    if op == "NewVectorFunction":
        return L.VectorFunction(n, [L.arg], dimension=dim)
    if op == "NewQuantityVector":
        L.sy.QuantityVector([1 * L.meter, 2 * L.meter, 3 * L.meter])
        return None
    if op == "NewFunctional":
        src = live[st["src"] - 1]
        return L.sy.Function(n, [src(L.arg) if st["t"] == "applied" else src], dim)
    if op == "NewExpSystem":
        system = L.xsys[st["t"]]()
        return list(system.base_scalars) + list(system.args[1])      # the model's order: scalars, then vectors
    if op == "NewBatch":
        one = {"symbol": "NewSymbol", "indexed": "NewIndexed", "function": "NewFunction", "quantity": "NewQuantity"}[st["t"]]
        return [_create(L, dict(st, op=one, a=st["a"] if st["a"] in L.assum else "none"), live) for _ in range(st["k"])]
    src = live[st["src"] - 1]
    kw = {} if st["a"] in ("inherit", "none") else L.assum[st["a"]]
    if op == "CloneAsSymbol":
        return L.sm.clone_as_symbol(src, display_symbol=n, display_latex=lx, subscript=_opt(st["s"]), **kw)
    if op == "CloneAsFunction":
        return L.sm.clone_as_function(src, [L.arg], display_symbol=n, display_latex=lx, subscript=_opt(st["s"]))
    if op == "CloneAsIndexed":
        return L.sm.clone_as_indexed(src, None, display_symbol=n, display_latex=lx, **kw)
    raise ValueError(op)


def _internal_name(kind, o) -> str:
    if kind == "system":
        return str(o.coord_system)
    return str(o.name)


def _term(L, kind, o):
    """The expression through which an object enters a formula."""
    if kind in ("symbol", "quantity"):
        return o
    if kind == "indexed":
        return o[L.sy.global_index]
    if kind == "function":
        return o(L.arg)
    if kind == "system":
        return o.coord_system.base_scalars()[0]
    return None     # vector-valued objects do not enter a scalar linear form


def _shown(kind, display):
    """How code_str / print_expression must show the term of an object whose display name is `display`."""
    return {"indexed": f"{display}[i]", "function": f"{display}(verif_arg)"}.get(kind, display)


def _latex_forms(name: str):
    """A LaTeX name and the way the LaTeX printer typesets a name ending in digits (zq1 -> zq_{1})."""
    m = re.match(r"^(.*?[^\d_{}])(\d+)$", name)
    forms = {name, f"\\operatorname{{{name}}}"}              # multi-letter function names are wrapped
    if m:
        forms |= {f"{m.group(1)}_{{{m.group(2)}}}", f"\\operatorname{{{m.group(1)}}}_{{{m.group(2)}}}"}
    return forms


PRIMES = [p for p in range(2, 400) if all(p % q for q in range(2, int(p ** 0.5) + 1))]


def _letters(n: int) -> str:
    """A digit-free word that the LaTeX printer leaves alone (it ends in q: not one of SymPy's name modifiers such
    as bm / hat / dot, not a Greek letter)."""
    out = ""
    while True:
        out = "wxz"[n % 3] + out
        n //= 3
        if n == 0:
            return out + "q"


def _fresh_names(case):
    """The model's display-name tokens zq / zq1 stand for "a name" and "that name followed by a digit".  Every
    history gets its own digit-free base name for them, so that whatever the library keys on display names
    starts afresh in every history although the worker process is long-lived."""
    if not any(st["n"].startswith("zq") for st in case["h"]):
        return case
    base = "zq" + _letters(_SEQ)

    def ren(s_):
        return base + s_[2:] if isinstance(s_, str) and s_.startswith("zq") else s_
    return dict(case, h=[dict(st, n=ren(st["n"])) for st in case["h"]],
                o=[dict(o, display=ren(o["display"]), latex=ren(o["latex"])) for o in case["o"]])


def replay_one(case):
    """Replay one history.  Returns (case, findings, meta); findings = [(kind, clause, text)]."""
    global _SEQ  # pylint: disable=global-statement
    L = _init()
    _REC.take()
    out = []
    try:
        with time_limit(60):
            _replay(L, _fresh_names(case), out)
    except HardTimeout:
        out.append(("outside", "timeout", "replay did not finish within 60 s"))
    _SEQ += 1
    return case, out, (os.getpid(), _SEQ, _REC.take())


def _replay(L, case, out):
    hist, mobjs = case["h"], case["o"]
    live, names, name_map, declared = [], [], {}, {}

    def bad(clause, text):
        out.append(("violation", clause, text))

    def translate(s):
        """A model string derived from a generated name -> the same string over the real generated name."""
        m = MODEL_NAME.match(s)
        if m and m.group(0) in name_map:
            return name_map[m.group(0)] + s[m.end():]
        return s

    for k, st in enumerate(hist):
        try:
            made = _create(L, st, live)
        except Exception as e:  # pylint: disable=broad-except
            bad("creation", f"step {k + 1} {st['op']} raised {type(e).__name__}: {str(e)[:160]}")
            return
        if st["obj"] == 0:
            continue
        for idx, o in enumerate(made if isinstance(made, list) else [made]):
            _check_object(L, k, st, mobjs[st["obj"] - 1 + idx], o, mobjs, live, names, name_map, translate, bad)
            if mobjs[st["obj"] - 1 + idx]["kind"] == "function":
                # what the bare function's declared argument must be shown as
                if st["op"] == "NewFunctional":
                    sm = mobjs[st["src"] - 1]
                    shown = translate(sm["display"]) + ("(verif_arg)" if st["t"] == "applied" else "")
                    declared[len(live) - 1] = shown if sm["explicitD"] else None
                else:
                    declared[len(live) - 1] = "verif_arg"
    _behaviour(L, mobjs, live, names, translate, bad, out, case)
    # bare (unapplied) functions are printed through their declared arguments: display names there too
    for j, shown in declared.items():
        m, o = mobjs[j], live[j]
        if shown is None or not m["explicitD"]:
            continue
        want = f"{translate(m['display'])}({shown})"
        got = L.code_str(o)
        if got != want or GENERATED.search(got):
            bad("PrintsDisplayNames", f"code_str of the bare function object {j + 1} shows {got!r}, expected {want!r}")
        if not m["explicitL"]:
            continue          # its LaTeX name derives from a generated name (nothing else was given)
        got = L.latex_str(o)
        if GENERATED.search(got) or re.search(r"(?:SYM|FUN|QTY)_\{\d+\}", got) or \
                not any(f in got for f in _latex_forms(translate(m["latex"]))):
            bad("PrintsDisplayNames", f"latex_str of the bare function object {j + 1} shows {got!r}: a generated name, "
                                      f"or not the LaTeX name {translate(m['latex'])!r}")


def _check_object(L, k, st, m, o, mobjs, live, names, name_map, translate, bad):
    """Projection of one new real object against the record the model appended."""
    kind = m["kind"]
    live.append(o)
    name = _internal_name(kind, o)
    # NoAlias: the REAL generated names of all live objects are pairwise distinct, and so are the objects
    for j, other in enumerate(live[:-1]):
        if names[j] == name:
            bad("NoAlias", f"step {k + 1}: object {len(live)} ({kind}) got the generated name {name} of object {j + 1}")
        if other is o or (mobjs[j]["kind"] == kind and other == o):
            bad("NoAlias", f"step {k + 1}: object {len(live)} ({kind} {name}) is / compares equal to object {j + 1}")
    names.append(name)
    name_map[m["name"]] = name
    if kind in ("system", "vecsym", "vecfun"):
        if kind != "system" and m["explicitD"] and o.display_name != m["display"]:
            bad("display", f"step {k + 1}: {kind} display name {o.display_name!r}, model {m['display']!r}")
        return
    # display / LaTeX names
    want_d = translate(m["display"])
    if o.display_name != want_d:
        bad("CloneKeeps.display" if st["src"] else "display",
            f"step {k + 1} {st['op']}: display name {o.display_name!r}, model {want_d!r}")
    want_l = translate(m["latex"])
    if st["op"] != "NewExpSystem" and o.display_latex != want_l:       # a system chooses the LaTeX names of its parts
        bad("CloneKeeps.latex" if st["src"] else "latex",
            f"step {k + 1} {st['op']}: LaTeX name {o.display_latex!r}, model {want_l!r}")
    # a display name that was given must never become the internal (SymPy) name
    if m["explicitD"] and name == m["display"]:
        bad("NoAlias", f"step {k + 1}: the display name {name!r} is used as the internal name")
    # dimension
    if o.dimension != L.dims[m["dim"]]:
        bad("CloneKeeps.dimension" if st["src"] else "dimension",
            f"step {k + 1} {st['op']}: dimension {o.dimension}, model {m['dim']}")
    # assumptions (symbols and indexed symbols; "open" = the statement does not say): the whole of
    # assumptions0, true AND false facts
    if kind in ("symbol", "indexed") and m["assum"] != "open":
        got = dict(o.assumptions0)
        if got != L.closure[m["assum"]]:
            lost = sorted(f"{k_}={v}" for k_, v in L.closure[m["assum"]].items() if got.get(k_) != v)
            bad("CloneKeeps.assumptions" if st["src"] else "assumptions",
                f"step {k + 1} {st['op']}: assumptions0 differ from the model's '{m['assum']}' in {lost[:6]}")
        if st["src"] and st["a"] == "inherit" and got != dict(live[st["src"] - 1].assumptions0):
            bad("CloneKeeps.assumptions", f"step {k + 1} {st['op']}: assumptions0 differ from the source's")


def _behaviour(L, mobjs, live, names, translate, bad, out, case):
    """Non-aliasing as behaviour: in a linear form over all live objects, subs / diff / solve with respect to one
    object touch only that object's own term; printing shows display names."""
    sp = L.sp
    # earlier objects must still be what they were when created (an aliasing creation overwrites them)
    for j, (m, o) in enumerate(zip(mobjs, live)):
        if m["kind"] in ("symbol", "indexed", "function", "quantity"):
            if o.display_name != translate(m["display"]) or o.dimension != L.dims[m["dim"]]:
                bad("NoAlias", f"object {j + 1} ({m['kind']} {names[j]}) changed after its creation: display name "
                               f"{o.display_name!r} / dimension {o.dimension}, model {translate(m['display'])!r} / {m['dim']}")
    # non-commutative symbols stay non-commutative: the commutator of two of them must not collapse
    nc = [o for m, o in zip(mobjs, live) if m["kind"] == "symbol" and m["assum"] == "noncommutative"]
    for a, b in zip(nc, nc[1:]):
        if a * b - b * a == 0:
            bad("behaviour.commutator", f"the commutator of the non-commutative symbols {a.name} and {b.name} is 0")
    terms = []
    for m, o in zip(mobjs, live):
        t = _term(L, m["kind"], o)
        if t is not None:
            terms.append((len(terms), m, o, t))
    if not terms:
        return
    form = sp.Add(*[PRIMES[i] * t for i, _m, _o, t in terms])
    # solve (the expensive part) w.r.t. the newest object and one more, chosen by the history's number:
    # histories share prefixes, so every object of every prefix is solved for in some extension
    solve_for = {len(terms) - 1, case.get("nr", 0) % len(terms)}
    for i, m, _o, t in terms:
        c = PRIMES[i]
        rest = sp.Add(*[PRIMES[j] * u for j, _m2, _o2, u in terms if j != i])
        tag = f"object {i + 1} ({m['kind']} {names[live.index(_o)]})"
        got = form.subs(t, 0)
        if got != rest:
            bad("behaviour.subs", f"substituting 0 for {tag} in {form} gave {got}, expected {rest}")
        try:
            d = sp.diff(form, t)
        except Exception as e:  # pylint: disable=broad-except
            out.append(("outside", "diff", f"diff w.r.t. a {m['kind']} raised {type(e).__name__}"))
            d = None
        if d is not None and d != c:
            bad("behaviour.diff", f"d/d({tag}) of {form} gave {d}, expected {c}")
        sol = None
        if i in solve_for:
            try:
                # check=False: SymPy's own check would drop a solution that contradicts the assumptions of the
                # unknown (a positive symbol equal to a negative combination), which is not aliasing
                sol = sp.solve(form, t, check=False, simplify=False)
            except Exception as e:  # pylint: disable=broad-except
                out.append(("outside", "solve", f"solve w.r.t. a {m['kind']} raised {type(e).__name__}"))
        if sol is not None:
            if len(sol) != 1 or sp.expand(c * sol[0] + rest) != 0:
                bad("behaviour.solve", f"solving {form} = 0 for {tag} gave {sol}, expected [{-rest / c}]")
    # printing
    for i, m, o, t in terms:
        if m["kind"] == "system":
            continue
        if m["explicitD"]:
            want = _shown(m["kind"], translate(m["display"]))
            for pname, fn in (("code_str", L.code_str), ("print_expression", L.sy.print_expression)):
                s = fn(t)
                if s != want or GENERATED.search(s):
                    bad("PrintsDisplayNames", f"{pname} of object {i + 1} ({m['kind']}) shows {s!r}, expected {want!r}")
        if m["explicitL"]:
            s = L.latex_str(t)
            if not any(f in s for f in _latex_forms(translate(m["latex"]))) or GENERATED.search(s):
                bad("PrintsDisplayNames", f"latex_str of object {i + 1} ({m['kind']}) shows {s!r}, "
                                          f"expected the LaTeX name {translate(m['latex'])!r}")
    # print_expression of the live objects AS A WHOLE: the bare object (not its term), lists / tuples of bare objects
    # and an equation between two of them.  (Bare functions are left out: print_expression is typed for expressions.)
    bare = [(j, m, o, translate(m["display"])) for j, (m, o) in enumerate(zip(mobjs, live))
            if m["kind"] in ("symbol", "indexed", "quantity") and m["explicitD"]]
    for j, m, o, disp in bare:
        s = L.sy.print_expression(o)
        if s != disp:
            bad("PrintsDisplayNames", f"print_expression of the bare object {j + 1} ({m['kind']}) shows {s!r}, expected {disp!r}")
    few = bare[:4]
    if len(few) >= 2 and sum(len(d) for _j, _m, _o, d in few) < 50:       # short enough not to be wrapped
        inner = ", ".join(d for _j, _m, _o, d in few)
        cases = [("list", [o for _j, _m, o, _d in few], f"[{inner}]"), ("tuple", tuple(o for _j, _m, o, _d in few), f"({inner})")]
        (_j1, _m1, o1, d1), (_j2, _m2, o2, d2) = few[0], few[1]
        try:
            cases.append(("equation", sp.Eq(o1, o2, evaluate=False), f"{d1} = {d2}"))
        except Exception as e:  # pylint: disable=broad-except
            out.append(("outside", "print", f"Eq of two bare objects raised {type(e).__name__}"))
        for what, obj, want in cases:
            try:
                s = L.sy.print_expression(obj)
            except Exception as e:  # pylint: disable=broad-except
                out.append(("outside", "print", f"print_expression of a {what} of bare objects raised {type(e).__name__}"))
                continue
            if s != want or GENERATED.search(s):
                bad("PrintsDisplayNames", f"print_expression of the {what} of objects {[j + 1 for j, *_ in few]} shows {s!r}, "
                                          f"expected {want!r}")
    shown = [(i, m, t) for i, m, _o, t in terms if m["kind"] != "system" and m["explicitD"] and m["explicitL"]]
    if len(shown) >= 2:
        sub = sp.Add(*[PRIMES[i] * t for i, _m, t in shown])
        for pname, fn in (("code_str", L.code_str), ("print_expression", L.sy.print_expression), ("latex_str", L.latex_str)):
            s = fn(sub)
            if GENERATED.search(s):
                bad("PrintsDisplayNames", f"{pname} of the form over named objects shows a generated name: {s!r}")


def _key(case) -> str:
    def one(st):
        bits = [st["op"]] + [f"{f}={st[f]}" for f in ("n", "l", "d", "a", "s", "t") if st[f] != "none"]
        if st["k"] > 1:
            bits.append(f"k={st['k']}")
        if st["src"]:
            bits.append(f"src={st['src']}")
        return "(" + " ".join(bits) + ")"
    return " ".join(one(st) for st in case["h"])


def enumerate_and_replay(run: Run, sc, cfgd: dict, pool, label: str, streams: dict) -> None:
    cfg = write_cfg(sc / f"sym_{label}.cfg", constants=cfgd, invariants=INVARIANTS, properties=PROPERTIES)
    res = run_tlc("Symbols", cfg, sc, workers=8, coverage=True, allow_violation=False, timeout=1500)
    # TLC names coverage by operator: keep Init, the shared New, and the container action only if it is enabled
    res.coverage = {k: v for k, v in res.coverage.items() if k in ("Init", "New") or k in cfgd["Actions"]}
    run.add_tlc(res, f"model check {label}: invariants {INVARIANTS} + properties {PROPERTIES}; all histories of "
                     f"{cfgd['MaxSteps']} actions over {len(cfgd['Actions'])} action kinds")
    cfg2 = write_cfg(sc / f"sym_{label}_emit.cfg", constants=cfgd, invariants=["Emit"])
    res2 = run_tlc("Symbols", cfg2, sc, workers=1, allow_violation=False, timeout=1500)
    cases = res2.printed
    for i, c in enumerate(cases):
        c["nr"] = i
    run.coverage.setdefault("histories_emitted", {})[label] = len(cases)
    ops: dict = {}
    for case, out, (pid, seq, events) in pmap(pool, replay_one, cases, chunk=100):
        run.traces += 1
        key = _key(case)
        run.count(key)
        for st in case["h"]:
            ops[st["op"]] = ops.get(st["op"], 0) + 1
        if len(case["h"]) >= 4 and any(st["src"] for st in case["h"]):
            run.sample({"history": key, "model_objects": [{f: o[f] for f in ("kind", "name", "display", "latex", "dim", "assum")}
                                                          for o in case["o"]]}, limit=4)
        streams.setdefault(pid, []).append((seq, events))
        for kind, clause, what in out:
            if kind == "outside":
                run.outside(f"{clause}: {what}")
            else:
                run.violation(f"{clause}: {key}", what, {"history": case["h"], "model_objects": case["o"], "clause": clause,
                                                          "nr": case["nr"]})
    run.coverage.setdefault("actions_replayed", {})[label] = dict(sorted(ops.items()))
    never = sorted(set(cfgd["Actions"]) - set(ops))
    if never:
        run.coverage.setdefault("actions_never_taken", {})[label] = never


def catalogue_trace(out_path: str) -> int:
    """Child process: import the whole catalogue with the hook sink installed; write the recorded runs."""
    import importlib
    rec = idtrace.Recorder().install()      # installed before the package is imported: its own ids are recorded too
    import symplyphysics
    root = Path(symplyphysics.__file__).parent
    mods, failed = [], []
    for top in ("definitions", "laws", "conditions"):
        for f in sorted((root / top).rglob("*.py")):
            if f.name != "__init__.py":
                mods.append("symplyphysics." + ".".join(f.relative_to(root).with_suffix("").parts))
    for mname in mods:
        try:
            importlib.import_module(mname)
        except Exception as e:  # pylint: disable=broad-except
            failed.append([mname, type(e).__name__])     # import failures are C03's subject, not C09's
    events = rec.events
    Path(out_path).write_text(json.dumps({"runs": idtrace.to_runs(events), "named": idtrace.clash_candidates(events),
                                          "modules": len(mods), "failed": failed,
                                          "events": len(events)}))
    return 0


def apalache_inductive(run: Run, sc) -> None:
    """Unbounded-counter inductive check of NoAlias (spec/SymbolsInd.tla) with Apalache; dropped on a stall."""
    spec = Path(__file__).resolve().parent.parent / "spec" / "SymbolsInd.tla"
    if not spec.exists():
        return
    results = {}
    for name, args in (("initiation", ["--init=Init", "--inv=IndInv", "--length=0"]),
                       ("consecution", ["--init=IndInit", "--inv=IndInv", "--length=1"]),
                       ("implies NoAlias", ["--init=IndInit", "--inv=NoAlias", "--length=0"])):
        out = sc / f"apalache_{name.split()[0]}"
        cmd = ["timeout", "300", "apalache-mc", "check", f"--out-dir={out}", f"--run-dir={out}/run"] + args + [str(spec)]
        try:
            p = subprocess.run(cmd, capture_output=True, text=True, timeout=330, cwd=sc, check=False)
            txt = p.stdout + p.stderr
            results[name] = "proved" if "The outcome is: NoError" in txt else \
                ("VIOLATED" if "The outcome is: Error" in txt else f"dropped (rc={p.returncode})")
        except (subprocess.TimeoutExpired, OSError) as e:
            results[name] = f"dropped ({type(e).__name__})"
    run.coverage["apalache_inductive_NoAlias_unbounded_counters"] = results
    if any(v == "VIOLATED" for v in results.values()):
        raise RuntimeError(f"Apalache: the inductive invariant of SymbolsInd.tla fails: {results}")


def selftest(run: Run, sc) -> None:
    """Binding of the trace specification: a stream in which SYM7 is handed out twice must be rejected at that
    run, a clean stream (with skipped ids: distinctness, not 'last + 1', is required) must be accepted."""
    probe = Run(PID, "selftest")
    bad = {"tid": "planted-repeat", "runs": [{"b": "SYM", "lo": 1, "hi": 7}, {"b": "FUN", "lo": 1, "hi": 2}, {"b": "SYM", "lo": 7, "hi": 9}],
           "named": [{"b": "m", "id": 11}, {"b": "m1", "id": 1}]}
    good = {"tid": "skipping-ids", "runs": [{"b": "SYM", "lo": 1, "hi": 7}, {"b": "SYM", "lo": 20, "hi": 29}, {"b": "FUN", "lo": 5, "hi": 5}]}
    v = idtrace.validate(probe, sc, [bad, good], "self-test")
    if v.get("skipping-ids") is not None or v.get("planted-repeat") is None or v["planted-repeat"][0] != 3:
        raise RuntimeError(f"self-test of SymbolsTrace.tla failed: {v}")
    if not any(x["key"].startswith("next_id:alias:m11") for x in probe.violations):
        raise RuntimeError("self-test of SymbolsTrace.tla failed: the planted name clash m11 = m1 + 1 was not reported")
    run.coverage["selftest_trace_spec"] = "planted repeated id rejected at its run; planted name clash (m + 11 = m1 + 1) reported; stream with skipped ids accepted"


def main() -> int:
    if len(sys.argv) > 2 and sys.argv[1] == "--catalogue-trace":
        return catalogue_trace(sys.argv[2])
    tier = sys.argv[1] if len(sys.argv) > 1 else "quick"
    if tier == "--replay":
        return replay_file(sys.argv[2])
    run = Run(PID, tier)
    with Scratch() as sc:
        cat_out = sc / "catalogue_trace.json"
        cat = subprocess.Popen([PY, "-m", "harness.c09", "--catalogue-trace", str(cat_out)], env=repo_env(),
                               stdout=subprocess.DEVNULL, stderr=subprocess.PIPE, text=True)
        _init()
        streams: dict = {}
        with make_pool() as pool:
            only = [x for x in os.environ.get("VERIF_ONLY", "").split(",") if x]     # development aid
            for label, cfgd in CFG[tier].items():
                if only and label not in only:
                    continue
                enumerate_and_replay(run, sc, cfgd, pool, label, streams)
        # code -> spec: the next_id streams of all worker processes and of the catalogue import
        traces = []
        for pid, parts in sorted(streams.items()):
            events = [e for _seq, ev in sorted(parts, key=lambda x: x[0]) for e in ev]
            traces.append({"tid": f"replay-worker-{pid}", "runs": idtrace.to_runs(events),
                           "named": idtrace.clash_candidates(events)})
        try:
            _, err = cat.communicate(timeout=900)
        except subprocess.TimeoutExpired:
            cat.kill()
            err = "timeout"
        if cat.returncode == 0 and cat_out.exists():
            data = json.loads(cat_out.read_text())
            traces.append({"tid": "catalogue-import", "runs": data["runs"], "named": data.get("named", [])})
            run.coverage["catalogue_import_trace"] = {k: data[k] for k in ("modules", "events", "failed")}
        else:
            run.outside(f"catalogue import trace not recorded: {str(err)[-200:]}")
        selftest(run, sc)
        idtrace.validate(run, sc, traces, f"next_id events of {len(traces)} processes (replay workers + catalogue import)")
        if tier == "thorough":
            apalache_inductive(run, sc)
    run.assumptions += [
        "a display name that was not given IS the generated name (nothing else can be shown); the printing clause "
        "is checked for objects whose display / LaTeX name was given by a caller",
        "assumptions of a clone are compared only when none are passed (statement); function clones have no "
        "assumptions0 and are not compared",
        "coordinate systems have no display name: only distinctness and the behaviour of their base scalars are checked",
        "counters are not compared exactly: the statement requires distinct names, not 'last + 1'",
        "histories are replayed in long-lived worker processes (counters only grow), not in fresh interpreters",
    ]
    return run.finish(exhaustive=True)


def replay_file(path: str) -> int:
    data = json.loads(Path(path).read_text())
    c = data["case"]
    if "history" not in c:
        print("this replay file records a trace-validation finding; rerun the tier to reproduce it")
        return 0
    case = {"h": c["history"], "o": c["model_objects"], "nr": c.get("nr", 0)}
    _, out, _ = replay_one(case)
    bad = [o for o in out if o[0] == "violation"]
    for o in bad:
        print(f"VIOLATION property={PID} replay={path}\n  {o[1]}: {o[2]}")
    print("replayed:", _key(case), "->", "violation" if bad else "ok")
    return 1 if bad else 0


if __name__ == "__main__":
    main_wrapper(main)
