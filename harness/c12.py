"""C12: gradient, divergence and curl are the true operators in Cartesian, cylindrical and spherical
coordinates; curl grad = 0, div curl = 0; fewer than three components behave as zero-padded.

model        : spec/FieldOps.tla over spec/Poly.tla.  TLC checks curl grad = 0, div curl = 0, commuting mixed
               partials, linearity, the product rule for the coordinate functions and the value on constants
               (which together characterise the three operators) on all basis fields up to degree 3 and their
               pairwise sums.
spec -> code : TLC emits, for every basis field (and pair sums in thorough), the model's Cartesian
               gradient / divergence / curl at three exact Pythagorean points.  The harness gives the field
               (a) to the real operators in the Cartesian system with 0..3 components (padding clause),
               (b) re-expressed with the harness' own textbook coordinate maps and local orthonormal frames in
                   cylindrical / spherical coordinates to the real operators of that system, rotating the result
                   back to Cartesian components,
               and compares the values at the points with the model's, exactly.
               (c) reverse route: fields whose curvilinear components are monomials in (r, theta, z) /
                   (r, theta, phi), 0..3 components given; the library's curvilinear result, rotated back, must equal
                   the plain Cartesian derivative of the same field written in x, y, z (computed by the harness with
                   sympy.diff, no curvilinear formula involved).  Where that Cartesian field is a polynomial it is
                   handed to TLC, which decides; the others are decided by the harness (counted separately as
                   outside the TLC-decided fragment).
               (d) scalar fields with radicals / absolute values of signed coordinates, at one exact point in every octant:
                   m * |x_v|^3 written as m * (x_v^2)^(3/2) in all three systems - TLC-decided, the model carries the
                   sign of the point's coordinate (FieldOps AbsLocal) - and a few non-polynomial fields given natively in
                   cylindrical / spherical coordinates (r*(z^2)^(3/2), sqrt(r^2+z^2), ...), decided by the harness against
                   the Cartesian sympy.diff of the same field.
               Every case is replayed in several CoordinateSystem objects of the same type in one process, interleaved
               (object A, object B, a newly created one, A again); a result containing symbols foreign to the system of
               the field is a violation.
               Second step: the operators are applied to the RESULT OBJECTS of the operators (curl curl, grad div, div grad,
               div curl, curl grad; FieldOps!Composition says the result is a field of the same system) and compared with
               the model at the points; a result bound to another coordinate system than its argument is a violation.
               Fields with a free parameter as coefficient (FieldOps!ParamNames: symbols named like coordinates of the
               three systems, and one that is not) must give the operator of the scaled field (FieldOps!Homogeneous).
code -> spec : every value the real operators returned at a point for a polynomial field is written to a JSON
               trace; spec/FieldOpsTrace.tla lets TLC recompute it from the coefficient maps (Pad, Grad, Div,
               Curl, PEval) and reject differing records.  The verdict on those is TLC's.
thorough     : curl(grad f) = 0 and div(curl F) = 0 on the real operators for generic sympy.Function fields in all
               three systems (simplify; time-limited, a timeout is undecided).
"""
from __future__ import annotations

import json
import sys

import sympy as sp

from . import fields_common as fc
from .common import HardTimeout, Run, main_wrapper, make_pool, pmap, time_limit
from .tlc import Scratch, parse_tla_tuple, run_tlc, write_cfg

PID = "C12"
SYSTEMS = ("cart", "cyl", "sph")

TIERS = {
    "quick": dict(model=dict(D=3, MaxDeg=3, MaxTerms=2, EmitDeg=0, EmitTerms=0),
                  emit=dict(D=3, MaxDeg=2, MaxTerms=1, EmitDeg=2, EmitTerms=1),
                  curv_deg=2, generic=False, call_limit=30),
    "thorough": dict(model=dict(D=3, MaxDeg=3, MaxTerms=2, EmitDeg=0, EmitTerms=0),
                     emit=dict(D=3, MaxDeg=3, MaxTerms=2, EmitDeg=3, EmitTerms=2),
                     curv_deg=3, generic=True, call_limit=60),
}
MODEL_INVARIANTS = ["TypeOK", "CurlGradZero", "DivCurlZero", "MixedPartials", "Leibniz", "ShiftEval", "Composition", "Homogeneous"]
TRACE_D = 4

CS = {}
CALL_LIMIT = 30


CUR = {}       # the coordinate-system object of each type used by the next operator calls
PASSES = ("A", "B", "new", "A")


def _types():
    from symplyphysics.core.coordinate_systems.coordinate_systems import CoordinateSystem
    s = CoordinateSystem.System
    return CoordinateSystem, {"cart": s.CARTESIAN, "cyl": s.CYLINDRICAL, "sph": s.SPHERICAL}


def _init():
    """Two CoordinateSystem objects per type are created up front; a third one is created afresh whenever asked for
    ("new"): every comparison runs in several distinct objects of the same type, interleaved in one process."""
    cls, types = _types()
    for name, t in types.items():
        CS[name] = {"A": cls(t), "B": cls(t)}
    _use("A")


def _use(label):
    CUR["label"] = label
    cls, types = _types()
    for name, t in types.items():
        CUR[name] = cls(t) if label == "new" else CS[name][label]


def scalars(system):
    return list(CUR[system].coord_system.base_scalars())


def _coords(p):
    return [p.coordinate(0), p.coordinate(1), p.coordinate(2)]


# ---- the real operators ----------------------------------------------------------------------------
def lib_grad(system, fn):
    """fn(q) -> expression of the scalar field in the coordinates q.  Returns the 3 components."""
    from symplyphysics.core.fields.operators import gradient_operator
    from symplyphysics.core.fields.scalar_field import ScalarField
    field = ScalarField(lambda p: fn(_coords(p)), CUR[system])
    return list(gradient_operator(field).components)


def lib_div(system, fn):
    """fn(q) -> list of 0..3 component expressions."""
    from symplyphysics.core.fields.operators import divergence_operator
    from symplyphysics.core.fields.vector_field import VectorField
    field = VectorField(lambda p: fn(_coords(p)), CUR[system])
    return divergence_operator(field)


def lib_curl(system, fn):
    from symplyphysics.core.fields.operators import curl_operator
    from symplyphysics.core.fields.vector_field import VectorField
    field = VectorField(lambda p: fn(_coords(p)), CUR[system])
    rot = curl_operator(field)
    _same_system(rot, system, "the curl")
    return list(rot.apply_to_basis().components)


class WrongSystem(Exception):
    """An operator returned its result bound to another coordinate system than the one of its argument."""


def _same_system(obj, system, what):
    mine, got = CUR[system], obj.coordinate_system
    if got.coord_system_type != mine.coord_system_type or got.coord_system != mine.coord_system:
        raise WrongSystem(f"{what} of a field in the {system} system {mine.coord_system} is bound to the "
                          f"{got.coord_system_type.name} system {got.coord_system}")


def lib_compose(system, kind, fn):
    """The operators applied one after the other, each to the RESULT OBJECT of the previous one.
    kind "s": fn(q) scalar expression -> {"divgrad": expr, "curlgrad": comps}
    kind "v": fn(q) components        -> {"curlcurl": comps, "divcurl": expr, "graddiv": comps}"""
    from symplyphysics.core.fields.operators import curl_operator, divergence_operator, gradient_operator
    from symplyphysics.core.fields.scalar_field import ScalarField
    from symplyphysics.core.fields.vector_field import VectorField
    cs = CUR[system]
    if kind == "s":
        grad = gradient_operator(ScalarField(lambda p: fn(_coords(p)), cs))
        _same_system(grad, system, "the gradient")
        gfield = VectorField.from_vector(grad)
        rot = curl_operator(gfield)
        _same_system(rot, system, "the curl of the gradient")
        return {"divgrad": divergence_operator(gfield), "curlgrad": list(rot.apply_to_basis().components)}
    field = VectorField(lambda p: fn(_coords(p)), cs)
    rot = curl_operator(field)
    _same_system(rot, system, "the curl")
    rot2 = curl_operator(rot)
    _same_system(rot2, system, "the curl of the curl")
    # the divergence is an expression over the base scalars of the system: a scalar field of that system
    dfield = ScalarField.from_expression(divergence_operator(field), cs)
    return {"curlcurl": list(rot2.apply_to_basis().components), "divcurl": divergence_operator(rot),
            "graddiv": list(gradient_operator(dfield).components)}


class Out:
    def __init__(self, case):
        self.case = case
        self.records = []      # for the TLC trace
        self.verdicts = []     # (kind, key, what) kind in violation / outside
        self.calls = 0
        self.py_decided = 0    # comparisons decided by the harness only (outside the TLC fragment)

    def result(self):
        return {"case": self.case, "records": self.records, "verdicts": self.verdicts, "calls": self.calls,
                "py_decided": self.py_decided}


def _call(out, key, fn):
    """Run one library call under the time limit.  Returns the result or None (verdict already recorded)."""
    out.calls += 1
    try:
        with time_limit(CALL_LIMIT):
            return fn()
    except HardTimeout:
        out.verdicts.append(("outside", key, f"operator call timed out after {CALL_LIMIT} s"))
        return None
    except WrongSystem as e:
        out.verdicts.append(("violation", key, str(e)))
        return None


def _compare(out, key, op, given, info, pt, observed, expected=None, record=True, absinfo=(0, 0)):
    """observed: list of sympy values (Cartesian components / [divergence]) at pt.
    expected: list of sympy values or None (then only TLC decides)."""
    observed = [sp.sympify(v) for v in observed]
    foreign = set().union(*[v.free_symbols for v in observed]) - {fc.THETA, fc.PHI}
    if foreign:
        out.verdicts.append(("violation", key, f"{op} at point ({pt.x},{pt.y},{pt.z}): the result contains symbols foreign "
                                               f"to the coordinate system of the field: {sorted(map(str, foreign))}"))
        return
    pairs = [fc.pair_of(v) for v in observed]
    if expected is not None and any(fc.has_inverse_trig(v) for v in list(expected) + list(observed)):
        out.verdicts.append(("outside", key, "value at the point is not reduced to a polynomial in the bare angles"))
        return
    if expected is not None:
        bad = [i for i, (o, e) in enumerate(zip(observed, expected)) if not fc.is_zero(sp.sympify(o) - e)]
        if bad:
            out.verdicts.append(("violation", key,
                                 f"{op} at point ({pt.x},{pt.y},{pt.z}): code {[str(v) for v in observed]}, "
                                 f"expected {[str(v) for v in expected]}"))
    if record:
        if all(p is not None for p in pairs):
            rec = {"op": op, "comps": given, "abs": list(absinfo), "pt": pt.pairs, "val": pairs, "key": key}
            rec.update(info)
            out.records.append(rec)
        elif expected is None:
            out.verdicts.append(("outside", key, "value is not a small rational: cannot be handed to TLC"))


def _rat_list(vals):
    return [fc.rat(v) for v in vals]


# ---- spec -> code: emitted Cartesian basis fields, routes (a) and (b) -------------------------------
def _compositions(out, case, system, kind, comps, name, pts):
    """Second step: the operators applied to the result objects of the operators (curl curl, grad div, div grad,
    div curl, curl grad), compared with the model's values at the points."""
    key = f"compose:{system}:{name}"
    if kind == "s":
        res = _call(out, key, lambda: lib_compose(system, "s", lambda q: fc.scalar_in(system, comps[0], q)))
    else:
        res = _call(out, key, lambda: lib_compose(system, "v", lambda q: fc.vector_in(system, comps, q)))
    if res is None:
        return
    q = scalars(system)
    info = {"sys": system, "route": "a" if system == "cart" else "b"}
    zero3 = [sp.S.Zero] * 3
    for k, pt in enumerate(pts):
        for op, val in res.items():
            if isinstance(val, list):
                obs = fc.rotate_back(system, [fc.eval_at(c, system, q, pt) for c in val], pt)
                exp = zero3 if op == "curlgrad" else _rat_list(case[op][k])
            else:
                obs = [fc.eval_at(val, system, q, pt)]
                exp = [sp.S.Zero] if op == "divcurl" else [fc.rat(case[op][k])]
            obs = [sp.simplify(v) if not sp.sympify(v).is_Rational else v for v in obs]
            _compare(out, f"{op}:{system}:{name}", op, comps, info, pt, obs, exp)


def _scaled(comps, c):
    return [[[e, fc.pair_of(fc.rat(v) * c)] for e, v in t] for t in comps]


def _parametrised(out, case, system, kind, comps, name, pts):
    """The field with a free parameter as coefficient (symbols named like coordinates, and one that is not): the result,
    with the parameter given its values AFTER the operator call, must be the operator of the scaled field."""
    q = scalars(system)
    info = {"sys": system, "route": "param"}
    vals = [fc.rat(v) for v in case["pvals"]]
    own = {"cart": ("x", "y", "z"), "cyl": ("r", "theta", "z"), "sph": ("r", "theta", "phi")}[system]
    for pname in case["pnames"]:
        a = sp.Symbol(pname)
        ops = ("grad",) if kind == "s" else (("div", "curl") if pname in (own[0], own[2], "a") else ())
        for op in ops:
            key = f"{op}:{system}:{pname}*{name}"
            if kind == "s":
                res = _call(out, key, lambda: lib_grad(system, lambda qq: a * fc.scalar_in(system, comps[0], qq)))
            elif op == "div":
                res = _call(out, key, lambda: lib_div(system, lambda qq: [a * c for c in fc.vector_in(system, comps, qq)]))
            else:
                res = _call(out, key, lambda: lib_curl(system, lambda qq: [a * c for c in fc.vector_in(system, comps, qq)]))
            if res is None:
                continue
            for k, pt in enumerate(pts):
                if op == "div":
                    sym = [fc.eval_at(res, system, q, pt)]
                    model = [fc.rat(case["div"][k])]
                else:
                    sym = fc.rotate_back(system, [fc.eval_at(c, system, q, pt) for c in res], pt)
                    model = _rat_list(case[op][k])
                for c in vals:
                    obs = [sp.sympify(v).subs(a, c) for v in sym]
                    _compare(out, key, op, _scaled(comps, c), info, pt, obs, [c * m for m in model])


def replay_emit(case):
    if not CS:
        _init()
    out = Out(case)
    comps = fc.basis_terms(case["terms"])
    pts = [fc.ExactPoint(p) for p in case["pts"]]
    name = fc.field_name(comps)
    if case["kind"] == "s":
        for system in SYSTEMS:
            key = f"grad:{system}:{name}"
            g = _call(out, key, lambda s=system: lib_grad(s, lambda q: fc.scalar_in(s, comps[0], q)))
            if g is None:
                continue
            q = scalars(system)
            for k, pt in enumerate(pts):
                obs = fc.rotate_back(system, [fc.eval_at(c, system, q, pt) for c in g], pt)
                _compare(out, key, "grad", [comps[0]], {"sys": system, "route": "a" if system == "cart" else "b"},
                         pt, obs, _rat_list(case["grad"][k]))
            _compositions(out, case, system, "s", [comps[0]], name, pts)
            if CUR.get("first") and len(case["terms"]) == 1:
                _parametrised(out, case, system, "s", [comps[0]], name, pts)
        return out.result()
    used = [i + 1 for i, c in enumerate(comps) if c]
    # (a) Cartesian system, 0..3 components given
    for n in range(0, 4):
        given = comps[:n]
        same = n >= max(used)           # only zero components were dropped: the same field
        zero = n < min(used)            # nothing of the field is left: the zero field
        for op in ("div", "curl"):
            key = f"{op}:cart:{name}:given={n}"

            def fn(q, given=given):
                return [fc.poly_expr(t, *q) for t in given]
            res = _call(out, key, (lambda: lib_div("cart", fn)) if op == "div" else (lambda: lib_curl("cart", fn)))
            if res is None:
                continue
            q = scalars("cart")
            for k, pt in enumerate(pts):
                if op == "div":
                    obs = [fc.eval_at(res, "cart", q, pt)]
                    exp = [fc.rat(case["div"][k])] if same else ([sp.S.Zero] if zero else None)
                else:
                    obs = fc.rotate_back("cart", [fc.eval_at(c, "cart", q, pt) for c in res], pt)
                    exp = _rat_list(case["curl"][k]) if same else ([sp.S.Zero] * 3 if zero else None)
                _compare(out, key, op, given, {"sys": "cart", "route": "a"}, pt, obs, exp)
    # (b) the same field in cylindrical / spherical coordinates and local orthonormal components
    for system in ("cyl", "sph"):
        for op in ("div", "curl"):
            key = f"{op}:{system}:{name}"

            def fn(q, system=system):
                return fc.vector_in(system, comps, q)
            res = _call(out, key, (lambda: lib_div(system, fn)) if op == "div" else (lambda: lib_curl(system, fn)))
            if res is None:
                continue
            q = scalars(system)
            for k, pt in enumerate(pts):
                if op == "div":
                    obs = [fc.eval_at(res, system, q, pt)]
                    exp = [fc.rat(case["div"][k])]
                else:
                    obs = fc.rotate_back(system, [fc.eval_at(c, system, q, pt) for c in res], pt)
                    exp = _rat_list(case["curl"][k])
                _compare(out, key, op, comps, {"sys": system, "route": "b"}, pt, obs, exp)
    for system in SYSTEMS:
        _compositions(out, case, system, "v", comps, name, pts)
        if CUR.get("first") and len(case["terms"]) == 1:
            _parametrised(out, case, system, "v", comps, name, pts)
    return out.result()


# ---- (c) reverse route: curvilinear monomial fields ----------------------------------------------------
def curv_cases(deg):
    monos = [(a, b, c) for a in range(deg + 1) for b in range(deg + 1) for c in range(deg + 1) if a + b + c <= deg]
    cases = []
    for system in ("cyl", "sph"):
        for e in monos:
            cases.append({"type": "curv", "sys": system, "kind": "s", "e": list(e)})
            for comp in (1, 2, 3):
                for n in range(comp, 4):
                    cases.append({"type": "curv", "sys": system, "kind": "v", "e": list(e), "comp": comp, "given": n})
        for n in range(0, 3):      # nothing but zeros given
            cases.append({"type": "curv", "sys": system, "kind": "v", "e": [0, 0, 0], "comp": 0, "given": n})
    return cases


def curv_name(case):
    names = {"cyl": ("r", "theta", "z"), "sph": ("r", "theta", "phi")}[case["sys"]]
    mono = "*".join(f"{n}^{k}" for n, k in zip(names, case["e"]) if k) or "1"
    if case["kind"] == "s":
        return f"{case['sys']}:{mono}"
    return f"{case['sys']}:{mono}*e{case['comp']}:given={case['given']}"


def replay_curv(case, pts_raw):
    if not CS:
        _init()
    out = Out(case)
    system, e = case["sys"], case["e"]
    pts = [fc.ExactPoint(p) for p in pts_raw]
    name = curv_name(case)
    q = scalars(system)
    cq = fc.curv_coords_of_cart(system)

    def mono(c):
        return c[0] ** e[0] * c[1] ** e[1] * c[2] ** e[2]

    if case["kind"] == "s":
        key = f"grad:{name}"
        g = _call(out, key, lambda: lib_grad(system, mono))
        if g is None:
            return out.result()
        cart_f = mono(cq)
        exp_cart = fc.cart_grad(cart_f)
        terms = fc.terms_of(cart_f, TRACE_D)
        for pt in pts:
            obs = fc.rotate_back(system, [fc.eval_at(c, system, q, pt) for c in g], pt)
            exp = [fc.cart_eval(x, pt) for x in exp_cart]
            _compare(out, key, "grad", [terms], {"sys": system, "route": "c"}, pt, obs, exp, record=terms is not None)
            if terms is None:
                out.py_decided += 1
        return out.result()

    n, comp = case["given"], case["comp"]

    def fn(c):
        return [mono(c) if i + 1 == comp else sp.S.Zero for i in range(n)]
    frame = fc.frame_of_cart(system)
    given_cart = fn(cq) + [sp.S.Zero] * (3 - n)              # padded with zeros: the statement's meaning
    cart_f = [sum(given_cart[i] * frame[i][j] for i in range(3)) for j in range(3)]
    terms = [fc.terms_of(c, TRACE_D) for c in cart_f]
    poly = all(t is not None for t in terms)
    for op in ("div", "curl"):
        key = f"{op}:{name}"
        res = _call(out, key, (lambda: lib_div(system, fn)) if op == "div" else (lambda: lib_curl(system, fn)))
        if res is None:
            continue
        exp_cart = [fc.cart_div(cart_f)] if op == "div" else fc.cart_curl(cart_f)
        for pt in pts:
            if op == "div":
                obs = [fc.eval_at(res, system, q, pt)]
            else:
                obs = fc.rotate_back(system, [fc.eval_at(c, system, q, pt) for c in res], pt)
            exp = [fc.cart_eval(x, pt) for x in exp_cart]
            _compare(out, key, op, terms, {"sys": system, "route": "c"}, pt, obs, exp, record=poly)
            if not poly:
                out.py_decided += 1
    return out.result()


# ---- (d) radicals / absolute values of signed coordinates, points in all octants ------------------------
def replay_abs(case):
    """Emitted by FieldOps!AbsEmit: f = x^e * |x_v|^k, given as x^e * (x_v^2)^(k/2) in each system."""
    if not CS:
        _init()
    out = Out(case)
    a = case["abs"]
    v, k, base = a["v"], a["k"], [[list(a["e"]), [1, 1]]]
    pts = [fc.ExactPoint(p) for p in case["pts"]]
    name = f"{fc.field_name([base])}*|{'xyz'[v - 1]}|^{k}"
    for system in SYSTEMS:
        key = f"grad:{system}:{name}"

        def fn(q, system=system):
            return fc.scalar_in(system, base, q) * (fc.cart_coords_in(system, q)[v - 1] ** 2) ** sp.Rational(k, 2)
        g = _call(out, key, lambda system=system, fn=fn: lib_grad(system, fn))
        if g is None:
            continue
        q = scalars(system)
        for i, pt in enumerate(pts):
            obs = [sp.nsimplify(sp.simplify(x)) for x in
                   fc.rotate_back(system, [fc.eval_at(c, system, q, pt) for c in g], pt)]
            _compare(out, key, "grad", [base], {"sys": system, "route": "d"}, pt, obs, _rat_list(case["grad"][i]),
                     absinfo=(v, k))
    return out.result()


def _rad_fields():
    h = sp.Rational(1, 2)
    return {
        "cyl": {"r*(z^2)^(3/2)": lambda q: q[0] * (q[2] ** 2) ** (3 * h),
                "r^2*(z^2)^(1/2)*z": lambda q: q[0] ** 2 * (q[2] ** 2) ** h * q[2],
                "sqrt(r^2+z^2)": lambda q: sp.sqrt(q[0] ** 2 + q[2] ** 2),
                "(r^2+z^2)^(3/2)*z": lambda q: (q[0] ** 2 + q[2] ** 2) ** (3 * h) * q[2],
                "((r*cos(theta))^2)^(3/2)": lambda q: ((q[0] * sp.cos(q[1])) ** 2) ** (3 * h)},
        "sph": {"r^3*(cos(phi)^2)^(3/2)": lambda q: q[0] ** 3 * (sp.cos(q[2]) ** 2) ** (3 * h),
                "r^2*cos(phi)*sqrt(cos(phi)^2)": lambda q: q[0] ** 2 * sp.cos(q[2]) * sp.sqrt(sp.cos(q[2]) ** 2),
                "(r^2)^(3/2)*sin(phi)": lambda q: (q[0] ** 2) ** (3 * h) * sp.sin(q[2]),
                "((r*sin(phi)*sin(theta))^2)^(3/2)": lambda q: ((q[0] * sp.sin(q[2]) * sp.sin(q[1])) ** 2) ** (3 * h)},
    }


def rad_cases(pts):
    return [{"type": "rad", "sys": s, "field": f, "pts": pts} for s, d in _rad_fields().items() for f in d]


def replay_rad(case):
    """Non-polynomial scalar fields given natively in curvilinear coordinates: the library's gradient, rotated back,
    against the Cartesian sympy.diff of the same field (decided by the harness, outside the TLC fragment)."""
    if not CS:
        _init()
    out = Out(case)
    system = case["sys"]
    fn = _rad_fields()[system][case["field"]]
    key = f"grad:{system}:{case['field']}"
    g = _call(out, key, lambda: lib_grad(system, fn))
    if g is None:
        return out.result()
    q = scalars(system)
    cq = fc.curv_coords_of_cart(system)
    # cos(phi), sin(phi), cos(theta), sin(theta) of the point are algebraic in x, y, z: write them so
    cart_f = fn(cq).subs({sp.cos(fc.POL): fc.Z / fc.RAD, sp.sin(fc.POL): fc.RHO / fc.RAD,
                          sp.cos(fc.AZ): fc.X / fc.RHO, sp.sin(fc.AZ): fc.Y / fc.RHO})
    exp_cart = fc.cart_grad(cart_f)
    for p in case["pts"]:
        pt = fc.ExactPoint(p)
        obs = [sp.simplify(x) for x in fc.rotate_back(system, [fc.eval_at(c, system, q, pt) for c in g], pt)]
        exp = [sp.simplify(fc.cart_eval(x, pt)) for x in exp_cart]
        _compare(out, key, "grad", None, {"sys": system, "route": "d"}, pt, obs, exp, record=False)
        out.py_decided += 1
    return out.result()


# ---- thorough: the identities on generic smooth fields ---------------------------------------------------
def generic_cases():
    cases = []
    for system in SYSTEMS:
        cases.append({"type": "generic", "sys": system, "id": "curlgrad"})
        for n in (1, 2, 3):
            cases.append({"type": "generic", "sys": system, "id": "divcurl", "given": n})
    return cases


def _numeric_zero(expr, q, funcs):
    """Decide expr == 0 by inserting concrete smooth functions and a numeric point (used only when simplify
    could not reduce the expression)."""
    a, b, c = sp.symbols("a_ b_ c_")
    concrete = [sp.exp(a / 3) * sp.sin(b + 2 * c) + a * b * c ** 2, sp.cos(a * b) + c ** 3 * a + sp.exp(b / 5),
                sp.sin(a + c) * b ** 2 + sp.exp(c / 4) * a]
    e = expr
    for f, body in zip(funcs, concrete):
        e = e.subs(f, sp.Lambda((a, b, c), body))
    e = e.doit()
    val = e.subs({q[0]: sp.Rational(13, 10), q[1]: sp.Rational(7, 10), q[2]: sp.Rational(9, 10)})
    if val.free_symbols:          # symbols foreign to the system of the field: certainly not identically zero
        return False
    return abs(complex(sp.N(val, 30))) < 1e-20


def replay_generic(case):
    from symplyphysics.core.fields.operators import curl_operator, divergence_operator, gradient_operator
    from symplyphysics.core.fields.scalar_field import ScalarField
    from symplyphysics.core.fields.vector_field import VectorField
    if not CS:
        _init()
    out = Out(case)
    system = case["sys"]
    cs = CUR[system]
    q = scalars(system)
    key = f"generic:{case['id']}:{system}" + (f":given={case['given']}" if "given" in case else "")
    out.calls += 1
    try:
        with time_limit(300):
            if case["id"] == "curlgrad":
                funcs = [sp.Function("f")]
                field = ScalarField(lambda p: funcs[0](*_coords(p)), cs)
                grad = gradient_operator(field)
                res = list(curl_operator(VectorField.from_vector(grad)).apply_to_basis().components)
            else:
                funcs = [sp.Function(f"F{i}") for i in range(case["given"])]
                field = VectorField(lambda p: [f(*_coords(p)) for f in funcs], cs)
                res = [divergence_operator(curl_operator(field))]
            left = [sp.simplify(r) for r in res]
            if all(r == 0 for r in left):
                return out.result()
            if all(_numeric_zero(r, q, funcs) for r in left):
                out.verdicts.append(("outside", key, "simplify did not reduce the identity to 0 (numerically zero)"))
            else:
                out.verdicts.append(("violation", key, f"{case['id']} of a generic field is not zero: {left}"[:400]))
    except HardTimeout:
        out.verdicts.append(("outside", key, "simplify of the generic identity timed out (300 s)"))
    return out.result()


def _replay_one(case):
    t = case.get("type", "emit")
    if "abs" in case:
        return replay_abs(case)
    if t == "rad":
        return replay_rad(case)
    if t == "emit":
        return replay_emit(case)
    if t == "curv":
        return replay_curv(case, case["pts"])
    return replay_generic(case)


def replay_any(case):
    """Replay the case in several CoordinateSystem objects of each type, one after the other in this process:
    A, B, a newly created one, A again (case["passes"] may narrow this)."""
    if not CS:
        _init()
    merged = None
    for i, label in enumerate(case.get("passes") or PASSES):
        _use(label)
        CUR["first"] = i == 0
        res = _replay_one(case)
        for r in res["records"]:
            r["inst"] = label
        res["verdicts"] = [(k, key, what + (f" [coordinate-system object {label}]" if k == "violation" else ""))
                           for k, key, what in res["verdicts"]]
        if merged is None:
            merged = res
        else:
            for k in ("records", "verdicts"):
                merged[k] += res[k]
            for k in ("calls", "py_decided"):
                merged[k] += res[k]
    return merged


# ---- driver ------------------------------------------------------------------------------------------
def _tlc_trace(sc, records, label):
    path = sc / f"c12_{label}.ndjson"
    with open(path, "w") as f:
        for r in records:
            f.write(json.dumps({k: r[k] for k in ("op", "comps", "abs", "pt", "val")}) + "\n")
    cfg = write_cfg(sc / f"fo_trace_{label}.cfg", init="TInit", next_="TNext",
                    constants=dict(D=TRACE_D, MaxDeg=0, MaxTerms=0, EmitDeg=0, EmitTerms=0),
                    invariants=["Validate", "CurlGradZero", "DivCurlZero"], postcondition="AllSeen")
    res = run_tlc("FieldOpsTrace", cfg, sc, workers=1, env={"TRACE_FILE": str(path)}, allow_violation=False)
    if res.distinct != len(records):
        raise RuntimeError(f"trace validation visited {res.distinct} states for {len(records)} records")
    rejected = [int(v[1]) for v in map(parse_tla_tuple, res.raw_prints) if v and v[0] == "REJECT"]
    return res, rejected


def validate_trace(run: Run, sc, records, label):
    """code -> spec: TLC decides every recorded value."""
    if not records:
        return []
    res, rejected = _tlc_trace(sc, records, label)
    run.add_tlc(res, f"trace validation ({label}): {len(records)} recorded operator values recomputed by TLC "
                     f"(FieldOpsTrace: Pad/Grad/Div/Curl/PEval, D={TRACE_D})")
    run.traces += len(records)
    run.coverage.setdefault("trace_records_validated", {})[label] = len(records)
    run.coverage.setdefault("trace_records_rejected", {})[label] = len(rejected)
    for i in rejected:
        r = records[i - 1]
        run.violation(r["key"], f"TLC rejects the recorded {r['op']} value {r['val']} at point {r['pt']} "
                                f"(system {r.get('sys')}, route {r.get('route')}, field components {r['comps']})",
                      r.get("replay", {}))
    return rejected


def selftest_trace(run: Run, sc, records):
    """Binding self-test: one recorded value is corrupted; TLC must reject exactly that record."""
    sample = [dict(r) for r in records if r["op"] == "curl"][:30]
    if len(sample) < 10:
        return
    k = 6
    val = [list(v) for v in sample[k]["val"]]
    val[1] = [val[1][0] + val[1][1], val[1][1]]           # second component + 1
    sample[k]["val"] = val
    _, rejected = _tlc_trace(sc, sample, "selftest")
    if rejected != [k + 1]:
        raise RuntimeError(f"trace self-test: corrupted record {k + 1}, TLC rejected {rejected}")
    run.coverage["selftest"] = "a corrupted curl value in a 30-record trace was rejected by TLC (and only that record)"


def collect(run: Run, results, label):
    records = []
    for res in results:
        case = res["case"]
        run.traces += 1
        run.count(json.dumps({k: v for k, v in case.items() if k not in ("pts", "grad", "div", "curl")}, sort_keys=True,
                             default=str),
                  n=res["calls"])
        if res["py_decided"]:
            run.coverage["decided_by_harness_outside_TLC_fragment"] = \
                run.coverage.get("decided_by_harness_outside_TLC_fragment", 0) + res["py_decided"]
        for r in res["records"]:
            r["replay"] = case
            records.append(r)
        for kind, key, what in res["verdicts"]:
            if kind == "outside":
                run.outside(what)
            else:
                run.violation(key, what, case)
    run.coverage.setdefault("cases_replayed", {})[label] = len(results)
    return records


def main() -> int:
    global CALL_LIMIT  # pylint: disable=global-statement
    tier = sys.argv[1] if len(sys.argv) > 1 else "quick"
    if tier == "--replay":
        return replay_file(sys.argv[2])
    t = TIERS[tier]
    CALL_LIMIT = t["call_limit"]
    run = Run(PID, tier)
    _init()
    with Scratch() as sc, make_pool() as pool:
        # 1. the model itself
        cfg = write_cfg(sc / "fo_model.cfg", constants=t["model"], invariants=MODEL_INVARIANTS, properties=["Linear"])
        res = run_tlc("FieldOps", cfg, sc, workers=8, coverage=True, allow_violation=False)
        run.add_tlc(res, f"model check FieldOps: {MODEL_INVARIANTS} + Linear + ASSUME OnConstants on all basis fields "
                         f"(monomials of degree <= {t['model']['MaxDeg']}, per component) and sums of <= "
                         f"{t['model']['MaxTerms']} of them")
        # 2. spec -> code
        cfg2 = write_cfg(sc / "fo_emit.cfg", constants=t["emit"], invariants=["Emit", "AbsEmit"])
        res2 = run_tlc("FieldOps", cfg2, sc, workers=1, allow_violation=False)
        abs_cases = [c for c in res2.printed if "abs" in c]
        emitted = [c for c in res2.printed if "abs" not in c]
        run.add_tlc(res2, f"emission: basis fields of degree <= {t['emit']['EmitDeg']}, sums of <= "
                          f"{t['emit']['EmitTerms']}, values of grad/div/curl at 3 exact points")
        if not emitted:
            raise RuntimeError("TLC emitted no cases")
        pts = emitted[0]["pts"]
        for i, c in enumerate(emitted):
            c["type"] = "emit"
            if len(c["terms"]) > 1:           # pair sums (thorough): one object each, rotating through A, B, new
                c["passes"] = [("A", "B", "new")[i % 3]]
        single = [c for c in emitted if len(c["terms"]) == 1]
        for c in single[:3] + single[-3:]:
            run.sample({"field": fc.field_name(fc.basis_terms(c["terms"])), "points": c["pts"],
                        **{k: c[k] for k in ("grad", "div", "curl") if k in c}})
        results = list(pmap(pool, replay_any, emitted, chunk=8))
        records = collect(run, results, "emitted_cartesian_fields_routes_a_b")
        # (c) reverse route
        ccases = curv_cases(t["curv_deg"])
        for c in ccases:
            c["pts"] = pts
        results = list(pmap(pool, replay_any, ccases, chunk=8))
        records += collect(run, results, "curvilinear_monomial_fields_route_c")
        # (d) radicals / absolute values at points of all octants
        if not abs_cases:
            raise RuntimeError("TLC emitted no absolute-value fields")
        run.sample({"field": f"x^{abs_cases[0]['abs']['e']} * |x_{abs_cases[0]['abs']['v']}|^{abs_cases[0]['abs']['k']}",
                    "points": abs_cases[0]["pts"], "grad": abs_cases[0]["grad"]}, limit=8)
        results = list(pmap(pool, replay_any, abs_cases + rad_cases(abs_cases[0]["pts"]), chunk=1))
        records += collect(run, results, "abs_and_radical_fields_all_octants_route_d")
        # 3. code -> spec
        rejected = set(validate_trace(run, sc, records, "all"))
        selftest_trace(run, sc, [r for i, r in enumerate(records, 1) if i not in rejected])
        # 4. generic identities
        if t["generic"]:
            gcases = generic_cases()
            for c in gcases:
                c["passes"] = ["A", "B"]
            results = list(pmap(pool, replay_any, gcases, chunk=1))
            collect(run, results, "generic_function_identities")
    run.coverage["bounds"] = {"model": t["model"], "emit": t["emit"], "curvilinear_monomial_degree": t["curv_deg"],
                              "points": pts, "trace_D": TRACE_D}
    run.coverage["coordinate_system_objects"] = ("every case is replayed in the objects A, B, a newly created one and A again "
                                                 "(same type, same process, in this order); pair sums in one of them, rotating")
    run.assumptions += [
        "the harness' own coordinate maps and local orthonormal frames (harness/fields_common.py) are the textbook "
        "ones; spherical order is (r, azimuth theta, polar phi) as documented by the library",
        "values are compared at three exact points where all sines/cosines are rational; first-order linear "
        "differential operators that agree on all polynomials of degree <= 1 at a point have equal coefficients "
        "there, so a wrong factor, sign or component in a formula is detected at generic points",
        "route (c) cases whose Cartesian form is not a polynomial are decided by the harness (sympy.diff in Cartesian "
        "coordinates), not by TLC; bare angles theta, phi are kept as symbols and compared as polynomials",
    ]
    return run.finish(exhaustive=True)


def replay_file(path: str) -> int:
    data = json.loads(open(path).read())
    case = data["case"]
    _init()
    res = replay_any(case)
    bad = [v for v in res["verdicts"] if v[0] == "violation"]
    # let TLC decide the recorded values as well
    with Scratch() as sc:
        run = Run(PID, "replay")
        for r in res["records"]:
            r["replay"] = case
        validate_trace(run, sc, res["records"], "replay")
        for v in run.violations:
            bad.append(("violation", v["key"], v["what"]))
    for b in bad:
        print(f"VIOLATION property={PID} replay={path}\n  {b[1]}: {b[2]}"[:700])
    print("replayed:", data.get("key"), "->", "violation" if bad else "ok")
    return 1 if bad else 0


if __name__ == "__main__":
    main_wrapper(main)
