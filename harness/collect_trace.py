"""code -> spec for C05 / C06: validate recorded collector traces (hook H3) with spec/CollectTrace.tla.

Sources of real executions:
  * the repository's own tests, run under pytest with the recorder installed as a plugin
    (quick: a seeded sample of the test files; thorough: the whole suite);
  * a sample of the TLC-generated programs of the property, executed once more in this process with the
    recorder installed (this adds the refusal paths, which the test-suite hardly exercises).
"""
from __future__ import annotations

import json
import os
import random
import subprocess
import sys
from pathlib import Path

from .common import PY, REPO, Run, repo_env
from .tlc import run_tlc, write_cfg


def record_tests(sc: Path, tier: str, seed: int) -> dict:
    """Run (a sample of) the repository's tests with the recorder plugin; merge the per-worker dumps."""
    out = sc / "traces"
    out.mkdir(exist_ok=True)
    files = sorted(str(p) for p in (REPO / "test").rglob("*_test.py"))
    if tier == "quick":
        rnd = random.Random(seed)
        core = [f for f in files if "/test/core/" in f]
        rest = [f for f in files if "/test/core/" not in f]
        files = core + rnd.sample(rest, min(len(rest), 60))
    env = repo_env(hooks=True, extra={"VERIF_TRACE_DIR": str(out)})
    cmd = [PY, "-m", "pytest", "-q", "-p", "no:cacheprovider", "-p", "harness.collect_sink", "-n", "16",
           "--timeout=900", "-x", "--no-header", *files]
    p = subprocess.run(cmd, cwd=REPO, env=env, capture_output=True, text=True, timeout=3000)
    merged = {"traces": {}, "dropped": {}, "events": 0, "pytest_rc": p.returncode, "files": len(files),
              "pytest_tail": p.stdout.strip().splitlines()[-1:] if p.stdout.strip() else []}
    for f in out.glob("collect-*.json"):
        d = json.loads(f.read_text())
        for k, v in d["traces"].items():
            merged["traces"][k] = merged["traces"].get(k, 0) + v
        for k, v in d["dropped"].items():
            merged["dropped"][k] = merged["dropped"].get(k, 0) + v
        merged["events"] += d["events"]
    return merged


def validate_traces(run: Run, sc: Path, traces: dict, kind: str, label: str) -> None:
    """traces: {json(token list): count}; only traces of the given collector kind ('q' / 'e') are used."""
    items = []
    for i, (js, cnt) in enumerate(sorted(traces.items())):
        ev = json.loads(js)
        if not ev or ev[-1]["k"] != kind:
            continue
        items.append({"tid": f"{label}{i}", "ev": ev, "count": cnt})
    if not items:
        return
    path = sc / f"collect_{label}_{kind}.json"
    # self-test: a copy of one accepted-looking product trace with the product's dimension corrupted must be STUCK
    probe = next((x for x in items if x["ev"][-1]["op"] == "mul" and x["ev"][-1]["c"] in ("fin", "sym")
                  and all(t["c"] in ("fin", "sym") for t in x["ev"])), None)
    extra = []
    if probe is not None:
        ev = json.loads(json.dumps(probe["ev"]))
        ev[-1]["d"] = [[ev[-1]["d"][0][0] + ev[-1]["d"][0][1], ev[-1]["d"][0][1]]] + ev[-1]["d"][1:]   # length exponent + 1
        extra = [{"tid": "__selftest__", "ev": ev}]
    path.write_text(json.dumps([{"tid": x["tid"], "ev": x["ev"]} for x in items] + extra))
    cfg = write_cfg(sc / f"collect_{label}_{kind}.cfg", invariants=["Accepted", "Stuck"], next_="Step")
    res = run_tlc("CollectTrace", cfg, sc, workers=1, env={"TRACE_FILE": str(path)}, allow_violation=False)
    run.add_tlc(res, f"trace validation ({label}): {len(items)} distinct recorded collector traces")
    verdict = {}
    for v in res.printed:
        verdict.setdefault(v[1], []).append(v)
    if extra:
        st = verdict.pop("__selftest__", [[None]])[0][0]
        if st != "STUCK":
            raise RuntimeError(f"self-test of CollectTrace failed: corrupted product dimension gave {st}")
        run.coverage.setdefault("selftest", {})[label] = "a recorded product with its dimension corrupted is rejected"
    nodes = 0
    for x in items:
        vs = verdict.get(x["tid"], [])
        if len(vs) != 1:
            raise RuntimeError(f"trace {x['tid']}: expected exactly one verdict, got {vs}")
        v = vs[0]
        run.traces += 1
        nodes += len(x["ev"])
        shape = " ".join(f"{t['op']}{t['n'] if t['n'] else ''}" for t in x["ev"])
        if v[0] == "ACCEPT":
            if len(x["ev"]) > 2:
                run.count("trace:" + json.dumps(x["ev"], separators=(",", ":")))
            if len(x["ev"]) >= 5 and sum(1 for s_ in run.samples if isinstance(s_, dict) and "recorded" in s_) < 3:
                run.sample({"recorded": label, "nodes": shape, "result_class": x["ev"][-1]["c"],
                            "result_dim": x["ev"][-1]["d"]}, limit=12)
        else:
            tok = x["ev"][v[2] - 1]
            run.violation(f"recorded {label} trace: {shape} @{v[2]}",
                          f"recorded collector step not allowed by the specification: node {v[2]} ({v[3]}) returned "
                          f"class={tok['c']} dim={tok['d']} for operands recorded before it ({x['count']} occurrences)",
                          {"trace": x["ev"], "stuck_at": v[2], "source": label})
    cov = run.coverage.setdefault("recorded_traces", {})
    cov[label] = {"distinct_traces": len(items), "occurrences": sum(x["count"] for x in items), "nodes": nodes}


def record_programs(cases, build, call, limit: int, seed: int) -> dict:
    """Execute a sample of generated programs in this process with the recorder installed."""
    from . import collect_sink
    from symplyphysics.core import verif_hooks
    rec = collect_sink.install()
    rnd = random.Random(seed)
    sample = cases if len(cases) <= limit else rnd.sample(cases, limit)
    try:
        for case in sample:
            try:
                expr = build(case)
            except Exception:  # pylint: disable=broad-except
                continue
            try:
                call(expr)
            except Exception:  # pylint: disable=broad-except
                pass
    finally:
        verif_hooks.sink = None
    return {"traces": rec.traces, "dropped": rec.dropped, "events": rec.events}
