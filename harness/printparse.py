"""Shared by C17 / C18: meaning of formulas as postfix programs over the alphabet of spec/PrintEval.tla.

* ``tree_to_ast``   SymPy tree (canonical or unevaluated) -> AST; symbols are identified by their display name
                    (code) / LaTeX display name (latex) - the "display-name table" of the tree (``NameTable``)
* ``parse_code``    plain-text rendering -> AST: ordinary arithmetic precedence, ``^`` right-associative power
                    binding tighter than unary minus, ``* /`` left-associative on one level, function-call syntax
* ``parse_latex``   LaTeX rendering -> AST: \\frac \\sqrt[n] ^{} _{} \\left( \\right) juxtaposition and \\cdot as
                    product, leading minus, \\log \\exp \\sin .., function application
* ``compile_pair``  two ASTs -> two postfix programs over one shared symbol / function numbering
* ``bracket_events`` LaTeX token stream -> open/close events for spec/Balance.tla

The parsers define how a rendering is *read*; they never look at the printers.  Names are resolved only through
the display-name table of the tree that was printed.  What a parser cannot read raises ``Outside`` (counted, never
an alarm); an identifier that is neither in the table nor a known mathematical name raises ``UnknownName``
(a violation: symbols must appear under their display names).
"""
from __future__ import annotations

import re
from fractions import Fraction

# --------------------------------------------------------------------------------------------------------------
# AST: tuples
#   ("num", n, d)  ("sym", key)  ("cst", name)  ("add", [..])  ("mul", [..])  ("neg", x)  ("div", a, b)
#   ("pow", b, e)  ("sqrt", x)  ("exp", x)  ("fn", name, [args])
# --------------------------------------------------------------------------------------------------------------


class Outside(Exception):
    """Construct outside the grammar / the alphabet: counted, never an alarm."""


class UnknownName(Exception):
    """A name that is not in the display-name table of the printed tree."""


GREEK = {"alpha", "beta", "gamma", "delta", "epsilon", "zeta", "eta", "theta", "iota", "kappa", "lambda", "mu", "nu",
         "xi", "omicron", "pi", "rho", "sigma", "tau", "upsilon", "phi", "chi", "psi", "omega", "varepsilon",
         "vartheta", "varphi", "varrho", "varsigma", "varpi", "varkappa"}
GREEK |= {g.capitalize() for g in list(GREEK) if not g.startswith("var")}

CONSTS = {"pi": 1, "E": 2, "I": 3, "oo": 4, "zoo": 5, "nan": 6}

# mathematical function names the grammars know (everything else must come from the display-name table)
KNOWN_FUNCS = {
    "sin", "cos", "tan", "cot", "sec", "csc", "asin", "acos", "atan", "acot", "asec", "acsc", "atan2",
    "sinh", "cosh", "tanh", "coth", "sech", "csch", "asinh", "acosh", "atanh", "acoth", "asech", "acsch",
    "log", "exp", "sqrt", "Abs", "sign", "Min", "Max", "factorial", "conjugate", "re", "im", "arg", "floor", "ceiling",
    "besselj", "bessely", "besseli", "besselk", "hermite", "legendre", "assoc_legendre", "assoc_laguerre", "laguerre",
    "erf", "erfc", "gamma", "Derivative", "Integral", "Sum", "Product", "Piecewise", "Order", "O", "Mod",
    "avg", "Delta", "d", "delta", "dot", "cross", "norm", "Heaviside", "DiracDelta", "binomial", "root", "cbrt",
    "Ynm", "Znm", "jn", "yn", "cot", "sinc", "LambertW", "zeta", "elliptic_k", "elliptic_e",
}
NOT_NAMES = {"True", "False", "None", "if", "else", "otherwise", "for", "and", "or", "not", "in"}
# functions whose LaTeX notation the LaTeX grammar reads (special-function notations such as J_n(x), H_n(x) do not)
LATEX_READABLE = {"sin", "cos", "tan", "cot", "sec", "csc", "sinh", "cosh", "tanh", "coth", "asin", "acos", "atan",
                  "acot", "asinh", "acosh", "atanh", "acoth", "atan2", "log", "Abs", "factorial", "Min", "Max",
                  "conjugate"}
INTERNAL_NAME = re.compile(r"^(SYM|FUN|QTY|IDX|VEC)\d+$")


# --------------------------------------------------------------------------------------------------------------
# display-name table
# --------------------------------------------------------------------------------------------------------------

_LTOK = re.compile(r"\\[A-Za-z]+|\\.|\d+(?:\.\d+)?|\s+|.", re.S)


def latex_tokens(s: str) -> list[str]:
    """LaTeX lexer: commands, numbers, single characters; white space dropped.  TeX ignores blanks in math mode, so
    two numbers separated only by blanks are typeset - and read - as one digit string ("2 3" is 23)."""
    out: list[str] = []
    for t in _LTOK.findall(s):
        if t.isspace():
            continue
        if t[0].isdigit() and "." not in t and out and out[-1][0].isdigit() and \
                (len(out) < 2 or out[-2] not in ("^", "_")):
            out[-1] += t      # a number directly after a number (only blanks between): one digit string
        else:
            out.append(t)
    return out


def normalise_scripts(toks: list[str]) -> list[str]:
    """x_{1} == x_1, a^{2} == a^2: drop the braces of a single-token group after _ or ^ (LaTeX reads them alike)."""
    out, i, n = [], 0, len(toks)
    while i < n:
        t = toks[i]
        if t in ("_", "^") and i + 3 < n + 0 and toks[i + 1] == "{" and toks[i + 3] == "}" and toks[i + 2] not in "{}":
            out += [t, toks[i + 2]]
            i += 4
        else:
            out.append(t)
            i += 1
    return out


_PLAIN_NAME = re.compile(r"^[A-Za-z0-9]+(?:[_^][A-Za-z0-9]+)*$")


def latex_name_variants(display_latex: str) -> set[tuple]:
    """Token sequences under which a LaTeX display name may appear: itself, and - for plain word names such as
    ``mu`` or ``w_max`` - the usual typeset form (Greek letter names as commands, multi-letter scripts grouped)."""
    out = {tuple(normalise_scripts(latex_tokens(display_latex)))}
    if _PLAIN_NAME.match(display_latex):
        parts = re.split(r"([_^])", display_latex)
        toks: list[str] = []
        for i, part in enumerate(parts):
            if part in ("_", "^"):
                toks.append(part)
                continue
            if part in GREEK:
                ptoks = ["\\" + part]
            else:
                m = re.match(r"^([A-Za-z]+)(\d+)$", part)
                ptoks = latex_tokens(part)
                if i == 0 and m and len(m.group(1)) >= 1:
                    # name followed by digits: x1 / SYM12 is typeset x_{1} / SYM_{12}
                    alt = latex_tokens(m.group(1)) + ["_", m.group(2)]
                    out.add(tuple(normalise_scripts(toks + alt)))
            if i > 0 and len(ptoks) > 1:
                ptoks = ["{"] + ptoks + ["}"]
            toks += ptoks
        out.add(tuple(normalise_scripts(toks)))
    return {v for v in out if v}


class NameTable:
    """Display names of the symbols / functions of one printed tree."""

    def __init__(self, mode: str):
        self.mode = mode              # "code" | "latex"
        self.syms: dict[str, str] = {}    # key -> kind ("sym" | "fn")
        self.variants: dict = {}          # code: name string -> key ; latex: token tuple -> key
        self.notes: list[str] = []
        self.objs: dict = {}              # (kind, key) -> the first object carrying that display name

    def add(self, key: str, kind: str, obj=None) -> None:
        if obj is not None:
            if (kind, key) in self.objs and self.objs[(kind, key)] != obj:
                note = f"distinct {'symbols' if kind == 'sym' else 'functions'} share the display name {key!r}"
                if note not in self.notes:
                    self.notes.append(note)
            self.objs.setdefault((kind, key), obj)
        old = self.syms.get(key)
        if old is not None and old != kind:
            self.notes.append(f"display name {key!r} used for a symbol and a function")
            kind = "both"
        self.syms[key] = kind
        if self.mode == "code":
            self.variants[key] = key
        else:
            for v in latex_name_variants(key):
                self.variants[v] = key

    def finish(self) -> None:
        if self.mode == "code":
            self._sorted = sorted(self.variants, key=len, reverse=True)
        else:
            self._sorted = sorted(self.variants, key=len, reverse=True)
            self._by_first: dict[str, list] = {}
            for v in self._sorted:
                self._by_first.setdefault(v[0], []).append(v)

    # code: longest display name matching at s[pos:], with identifier boundaries
    def match_code(self, s: str, pos: int):
        for name in self._sorted:
            if s.startswith(name, pos):
                end = pos + len(name)
                if (name[-1].isalnum() or name[-1] == "_") and end < len(s) and (s[end].isalnum() or s[end] == "_"):
                    continue
                return name, end
        return None

    # latex: longest display name matching at toks[pos:]
    def match_latex(self, toks: list[str], pos: int):
        for v in self._by_first.get(toks[pos], ()):
            n = len(v)
            if tuple(toks[pos:pos + n]) == v:
                # a name ending in a letter must not continue into a longer word-like command / number run
                return self.variants[v], pos + n
        return None


_LEAF_CACHE: dict = {}


def leaf_name_check(table: NameTable, render) -> list:
    """'Symbols appear under their display names', checked at the leaves: every symbol of the printed tree, rendered
    on its own, must give its display name (LaTeX: one of the token forms of its LaTeX display name)."""
    import sympy as sp
    from sympy.physics.units import Quantity as SymQuantity
    bad = []
    for (kind, key), obj in table.objs.items():
        if kind != "sym" or not isinstance(obj, (sp.Symbol, SymQuantity)):
            continue
        ck = (table.mode, id(obj))
        if ck not in _LEAF_CACHE:
            try:
                text = render(obj)
            except Exception:  # pylint: disable=broad-except
                text = None     # a symbol the printer cannot render on its own: nothing to compare
            if text is None:
                ok = True
            elif table.mode == "code":
                ok = text == key
            else:
                ok = tuple(normalise_scripts(latex_tokens(text))) in latex_name_variants(key)
            _LEAF_CACHE[ck] = (ok, text, obj)     # keep obj alive: id() stays unique
        ok, text, _ = _LEAF_CACHE[ck]
        if not ok:
            bad.append([key, text])
    return bad


def _sym_key(obj, mode: str) -> str:
    from symplyphysics.core.symbols.symbols import DimensionSymbol
    if isinstance(obj, DimensionSymbol):
        return obj.display_name if mode == "code" else obj.display_latex
    return str(getattr(obj, "name", obj))


# --------------------------------------------------------------------------------------------------------------
# SymPy tree -> AST (the meaning of the original)
# --------------------------------------------------------------------------------------------------------------

def _num(fr: Fraction):
    return ("num", fr.numerator, fr.denominator)


def tree_to_ast(e, mode: str, table: NameTable):
    """Meaning of a SymPy tree.  The tree is taken as it is (no canonicalisation)."""
    import sympy as sp
    from sympy.core.function import AppliedUndef
    from sympy.physics.units import Quantity as SymQuantity
    from sympy.tensor.indexed import Indexed, IndexedBase, Idx
    from symplyphysics.core.symbols.symbols import DimensionSymbol
    from symplyphysics.core.operations.symbolic import (Symbolic, Average, FiniteDifference, ExactDifferential,
                                                        InexactDifferential)
    from symplyphysics.core.operations.sum_indexed import IndexedSum
    from symplyphysics.core.operations.product_indexed import IndexedProduct

    def rec(x):
        return tree_to_ast(x, mode, table)

    def sym(obj):
        key = _sym_key(obj, mode)
        table.add(key, "sym", obj)
        return ("sym", key)

    if isinstance(e, Symbolic):
        name = {Average: "avg", FiniteDifference: "Delta", ExactDifferential: "d", InexactDifferential: "delta"}.get(type(e))
        if name is None:
            raise Outside(f"node {type(e).__name__}")
        return ("fn", name, [rec(e.factor)])
    if isinstance(e, (sp.Symbol, SymQuantity)):
        return sym(e)
    if isinstance(e, Idx):
        return sym(e.label)
    if isinstance(e, Indexed):
        return ("fn", "indexed", [rec(e.base)] + [rec(i) for i in e.indices])
    if isinstance(e, IndexedBase):
        if isinstance(e, DimensionSymbol):
            return sym(e)
        return sym(e.label)
    if isinstance(e, sp.Integer):
        return ("num", int(e), 1)
    if isinstance(e, sp.Rational):
        return ("num", int(e.p), int(e.q))
    if isinstance(e, sp.Float):
        try:
            fr = Fraction(str(e))
        except ValueError as ex:
            raise Outside("float literal") from ex
        return _num(fr)
    if e is sp.pi:
        return ("cst", "pi")
    if e is sp.E:
        return ("cst", "E")
    if e is sp.I:
        return ("cst", "I")
    if e is sp.oo:
        return ("cst", "oo")
    if e is sp.S.NegativeInfinity:
        return ("neg", ("cst", "oo"))
    if e is sp.zoo or e is sp.nan:
        raise Outside("non-finite value (zoo / nan)")
    if isinstance(e, sp.Add):
        return ("add", [rec(a) for a in e.args])
    if isinstance(e, sp.Mul):
        return ("mul", [rec(a) for a in e.args])
    if isinstance(e, sp.Pow):
        return ("pow", rec(e.base), rec(e.exp))
    if isinstance(e, sp.exp):
        return ("exp", rec(e.args[0]))
    if isinstance(e, sp.Equality):
        return ("fn", "Eq", [rec(e.lhs), rec(e.rhs)])
    if isinstance(e, sp.Derivative):
        args = [rec(e.expr)]
        for v, c in e.variable_count:
            args.append(rec(v) if c == 1 else ("fn", "tuple", [rec(v), rec(c)]))
        return ("fn", "Derivative", args)
    if isinstance(e, (sp.Integral, sp.Sum, sp.Product)):
        args = [rec(e.function)]
        for lim in e.limits:
            args.append(rec(lim[0]) if len(lim) == 1 else ("fn", "tuple", [rec(x) for x in lim]))
        return ("fn", type(e).__name__, args)
    if isinstance(e, IndexedSum):
        return ("fn", "Sum", [rec(a) for a in e.args])
    if isinstance(e, IndexedProduct):
        return ("fn", "Product", [rec(a) for a in e.args])
    if isinstance(e, sp.Tuple):
        return ("fn", "tuple", [rec(a) for a in e.args])
    if isinstance(e, sp.MatrixBase):
        rows, cols = e.shape
        if cols == 1 or rows == 1:
            return ("fn", "matrix" if cols == 1 else "matrixT", [rec(x) for x in e])
        return ("fn", "matrix", [("fn", "matrix", [rec(e[r, c]) for c in range(cols)]) for r in range(rows)])
    if isinstance(e, sp.MatMul):
        return ("mul", [rec(a) for a in e.args])
    if isinstance(e, sp.MatAdd):
        return ("add", [rec(a) for a in e.args])
    if isinstance(e, AppliedUndef):
        f = e.func
        key = _sym_key(f, mode) if isinstance(f, DimensionSymbol) else f.__name__
        table.add(key, "fn", f)
        return ("fn", "F:" + key, [rec(a) for a in e.args])
    if isinstance(e, sp.Function):
        name = type(e).__name__
        if mode == "latex" and name not in LATEX_READABLE:
            raise Outside(f"function {name}: its LaTeX notation is not in the grammar")
        return ("fn", name, [rec(a) for a in e.args])
    raise Outside(f"node {type(e).__name__}")


# --------------------------------------------------------------------------------------------------------------
# AST -> postfix program (alphabet of spec/PrintEval.tla)
# --------------------------------------------------------------------------------------------------------------

INT_LIMIT = 2 ** 31 - 1     # TLC integers are 32-bit
INT_BASE = 10 ** 9


class Alloc:
    """Numbering of symbols, named constants and functions shared by the two programs of a pair."""

    def __init__(self):
        self.sym: dict[str, int] = {}
        self.fn: dict[str, int] = {}
        self.cst: dict[str, int] = dict(CONSTS)

    def sym_id(self, key):
        return self.sym.setdefault(key, len(self.sym) + 1)

    def fn_id(self, name):
        return self.fn.setdefault(name, len(self.fn) + 16)

    def cst_id(self, name):
        return self.cst.setdefault(name, len(self.cst) + 1)


def _int_tokens(n: int, out: list) -> None:
    """Integer literal of any size as tokens with |value| < 10^9 (TLC has 32-bit integers)."""
    if abs(n) < INT_LIMIT:
        out.append(["int", n, 0])
        return
    if abs(n) >= 10 ** 72:
        raise Outside("integer literal with more than 72 digits")
    q, r = divmod(abs(n), INT_BASE)          # n = +-(q * 10^9 + r)
    _int_tokens(q, out)
    out.append(["int", INT_BASE, 0])
    out.append(["mul", 2, 0])
    out.append(["int", r, 0])
    out.append(["add", 2, 0])
    if n < 0:
        out.append(["neg", 0, 0])


def _num_tokens(n: int, d: int, out: list) -> None:
    if d == 1:
        _int_tokens(n, out)
    elif abs(n) < INT_LIMIT and d < INT_LIMIT:
        out.append(["rat", n, d])
    else:
        _int_tokens(n, out)
        _int_tokens(d, out)
        out.append(["div", 0, 0])


def compile_ast(ast, al: Alloc, out: list | None = None) -> list:
    out = [] if out is None else out
    k = ast[0]
    if k == "num":
        _num_tokens(ast[1], ast[2], out)
    elif k == "sym":
        out.append(["sym", al.sym_id(ast[1]), 0])
    elif k == "cst":
        out.append(["cst", al.cst_id(ast[1]), 0])
    elif k in ("add", "mul"):
        args = ast[1]
        if not args:
            out.append(["int", 0 if k == "add" else 1, 0])
        else:
            for a in args:
                compile_ast(a, al, out)
            if len(args) > 1:
                out.append([k, len(args), 0])
    elif k == "neg":
        compile_ast(ast[1], al, out)
        out.append(["neg", 0, 0])
    elif k == "div":
        compile_ast(ast[1], al, out)
        compile_ast(ast[2], al, out)
        out.append(["div", 0, 0])
    elif k == "pow" and ast[1][0] == "num" and ast[1][1] == 1 and ast[1][2] > 1:
        # normal form (both sides): (1/q)^e = 1/q^e for a positive integer q
        compile_ast(("div", ("num", 1, 1), ("pow", ("num", ast[1][2], 1), ast[2])), al, out)
    elif k == "pow":
        compile_ast(ast[1], al, out)
        e = ast[2]
        if e[0] == "num" and e[2] == 1 and abs(e[1]) < INT_LIMIT:
            out.append(["powi", e[1], 0])
        elif e[0] == "num" and abs(e[1]) < INT_LIMIT and e[2] < INT_LIMIT:
            out.append(["powr", e[1], e[2]])
        else:
            compile_ast(e, al, out)
            out.append(["pow", 0, 0])
    elif k == "sqrt":
        compile_ast(ast[1], al, out)
        out.append(["sqrt", 0, 0])
    elif k == "exp":
        compile_ast(ast[1], al, out)
        out.append(["exp", 0, 0])
    elif k == "fn":
        for a in ast[2]:
            compile_ast(a, al, out)
        out.append(["fn", al.fn_id(ast[1]), len(ast[2])])
    else:
        raise Outside(f"ast node {k}")
    return out


def well_formed(prog: list) -> bool:
    depth = 0
    for op, a, b in prog:
        ar = 0 if op in ("sym", "int", "rat", "cst") else a if op in ("add", "mul") else 2 if op in ("div", "pow") \
            else b if op == "fn" else 1
        if depth < ar:
            return False
        depth += 1 - ar
    return depth == 1


def fold_literals(ast):
    """Exact arithmetic on literals only: -(3) is the literal -3, 3/2 is the literal 3/2 (both sides alike)."""
    k = ast[0]
    if k in ("num", "sym", "cst"):
        return ast
    if k in ("add", "mul"):
        return (k, [fold_literals(a) for a in ast[1]])
    if k == "fn":
        args = [fold_literals(a) for a in ast[2]]
        if ast[1] in ("Integral", "Sum", "Product") and len(args) > 2:
            # several limits are the iterated operator, the first limit innermost (both sides alike)
            inner = args[0]
            for lim in args[1:]:
                inner = ("fn", ast[1], [inner, lim])
            return inner
        return (k, ast[1], args)
    if k == "neg":
        x = fold_literals(ast[1])
        return ("num", -x[1], x[2]) if x[0] == "num" else ("neg", x)
    if k == "div":
        x, y = fold_literals(ast[1]), fold_literals(ast[2])
        if x[0] == "num" and y[0] == "num" and y[1] != 0:
            return _num(Fraction(x[1], x[2]) / Fraction(y[1], y[2]))
        return ("div", x, y)
    if k == "pow":
        return ("pow", fold_literals(ast[1]), fold_literals(ast[2]))
    return (k, fold_literals(ast[1]))


def compile_pair(ast_a, ast_b):
    """-> (program a, program b, number of symbols)."""
    al = Alloc()
    pa = compile_ast(fold_literals(ast_a), al)
    pb = compile_ast(fold_literals(ast_b), al)
    assert well_formed(pa) and well_formed(pb)
    return pa, pb, max(len(al.sym), 1)


def ast_to_sympy(ast, table: NameTable):
    """AST -> SymPy expression with ORDINARY (evaluating) construction over the symbols of the table.
    Named functions other than sqrt / exp / powers become undefined functions (they are never evaluated)."""
    import sympy as sp
    k = ast[0]

    def rec(x):
        return ast_to_sympy(x, table)

    if k == "num":
        return sp.Rational(ast[1], ast[2])
    if k == "sym":
        return table.objs[("sym", ast[1])]
    if k == "cst":
        return {"pi": sp.pi, "E": sp.E, "I": sp.I, "oo": sp.oo}.get(ast[1]) or sp.Symbol("CST_" + ast[1])
    if k == "add":
        return sp.Add(*[rec(a) for a in ast[1]])
    if k == "mul":
        return sp.Mul(*[rec(a) for a in ast[1]])
    if k == "neg":
        return -rec(ast[1])
    if k == "div":
        return rec(ast[1]) / rec(ast[2])
    if k == "pow":
        return rec(ast[1]) ** rec(ast[2])
    if k == "sqrt":
        return sp.sqrt(rec(ast[1]))
    if k == "exp":
        return sp.exp(rec(ast[1]))
    if k == "fn":
        return sp.Function("U_" + ast[1])(*[rec(a) for a in ast[2]])
    raise Outside(f"ast node {k}")


def canonical_ast(ast, table: NameTable):
    """The normal form used when the as-written comparison fails: SymPy's own automatic evaluation (which is
    value-preserving under the assumptions of the symbols), applied to the original and to the re-read formula alike."""
    return tree_to_ast(ast_to_sympy(ast, table), table.mode, NameTable(table.mode))


def constant_name_clash(ast, table: NameTable):
    """A named constant of the tree whose notation is also a display name of the tree (imaginary unit i next to an
    index i, Euler's e next to a charge e): the rendering is ambiguous by the choice of names, not by the printer."""
    found = set()
    fnames = set()

    def walk(x):
        if x[0] == "cst":
            found.add(x[1])
        elif x[0] == "fn" and not x[1].startswith("F:"):
            fnames.add(x[1])
        if x[0] in ("add", "mul"):
            for y in x[1]:
                walk(y)
        elif x[0] == "fn":
            for y in x[2]:
                walk(y)
        elif x[0] not in ("num", "sym", "cst"):
            for y in x[1:]:
                walk(y)

    walk(ast)
    for name in sorted(found):
        if table.mode == "code":
            clash = name in table.variants
        else:
            tok = {"I": "i", "E": "e", "pi": "\\pi", "oo": "\\infty"}.get(name)
            clash = tok is not None and (tok,) in table.variants
        if clash:
            return name
    for name in sorted(fnames):
        if table.syms.get(name) in ("fn", "both"):
            return name + "()"          # e.g. the logarithm next to a declared function named log
    return None


def ast_str(ast) -> str:
    k = ast[0]
    if k == "num":
        return str(ast[1]) if ast[2] == 1 else f"({ast[1]}/{ast[2]})"
    if k in ("sym", "cst"):
        return str(ast[1])
    if k in ("add", "mul"):
        return "(" + (" + " if k == "add" else " * ").join(ast_str(a) for a in ast[1]) + ")"
    if k == "neg":
        return f"-({ast_str(ast[1])})"
    if k == "div":
        return f"({ast_str(ast[1])} / {ast_str(ast[2])})"
    if k == "pow":
        return f"({ast_str(ast[1])})^({ast_str(ast[2])})"
    if k in ("sqrt", "exp"):
        return f"{k}({ast_str(ast[1])})"
    return f"{ast[1]}[{', '.join(ast_str(a) for a in ast[2])}]"


# --------------------------------------------------------------------------------------------------------------
# C17: the plain-text grammar
#   eq     := sum ('=' sum)?
#   sum    := term (('+'|'-') term)*
#   term   := unary (('*'|'/') unary)*            left-associative, one level
#   unary  := '-' unary | power
#   power  := postfix ('^' unary)?                ^ binds tighter than unary minus on its left, right-associative
#   postfix:= atom ('[' args ']' | '.T')*
#   atom   := number | name | name '(' args ')' | '(' sum (',' sum)* ')' | '[' args ']'
# --------------------------------------------------------------------------------------------------------------

_NUM = re.compile(r"\d+(?:\.\d*)?(?:[eE][+-]?\d+)?")
_IDENT = re.compile(r"[A-Za-z_][A-Za-z_0-9]*")


def lex_code(s: str, table: NameTable) -> list[tuple]:
    toks, pos, n = [], 0, len(s)
    while pos < n:
        c = s[pos]
        if c.isspace():
            pos += 1
            continue
        m = table.match_code(s, pos)
        if m:
            toks.append(("name", m[0]))
            pos = m[1]
            continue
        m = _NUM.match(s, pos)
        if m:
            toks.append(("num", m.group()))
            pos = m.end()
            continue
        m = _IDENT.match(s, pos)
        if m:
            toks.append(("ident", m.group()))
            pos = m.end()
            continue
        if c in "+-*/^()[],=":
            toks.append(("op", c))
            pos += 1
            continue
        if s.startswith(".T", pos):
            toks.append(("op", ".T"))
            pos += 2
            continue
        raise Outside(f"code character {c!r}")
    toks.append(("end", ""))
    return toks


class CodeParser:
    def __init__(self, s: str, table: NameTable):
        self.table = table
        self.toks = lex_code(s, table)
        self.i = 0
        self.unknown: list[str] = []

    def peek(self):
        return self.toks[self.i]

    def take(self):
        t = self.toks[self.i]
        self.i += 1
        return t

    def accept(self, val):
        if self.toks[self.i] == ("op", val):
            self.i += 1
            return True
        return False

    def expect(self, val):
        if not self.accept(val):
            raise Outside(f"code syntax: expected {val!r}")

    def parse(self):
        e = self.sum()
        if self.accept("="):
            e = ("fn", "Eq", [e, self.sum()])
        if self.peek()[0] != "end":
            raise Outside(f"code syntax: trailing {self.peek()[1]!r}")
        if self.unknown:
            # everything was readable, but these names are not display names of the printed tree
            raise UnknownName(", ".join(self.unknown))
        return e

    def sum(self):
        terms = [self.term()]
        while True:
            if self.accept("+"):
                terms.append(self.term())
            elif self.accept("-"):
                terms.append(("neg", self.term()))
            else:
                break
        return terms[0] if len(terms) == 1 else ("add", terms)

    def term(self):
        e = self.unary()
        while True:
            if self.accept("*"):
                r = self.unary()
                e = ("mul", [e, r])
            elif self.accept("/"):
                r = self.unary()
                e = ("div", e, r)
            else:
                return e

    def unary(self):
        if self.accept("-"):
            return ("neg", self.unary())
        if self.accept("+"):
            return self.unary()
        return self.power()

    def power(self):
        b = self.postfix()
        if self.accept("^"):
            return ("pow", b, self.unary())
        return b

    def args(self, close):
        out = []
        if self.accept(close):
            return out
        while True:
            e = self.sum()
            if self.accept("="):
                e = ("fn", "Eq", [e, self.sum()])
            out.append(e)
            if self.accept(","):
                continue
            self.expect(close)
            return out

    def postfix(self):
        e = self.atom()
        while True:
            if self.accept("["):
                e = ("fn", "indexed", [e] + self.args("]"))
            elif self.accept(".T"):
                if e[0] == "fn" and e[1] == "matrix":
                    e = ("fn", "matrixT", e[2])
                else:
                    e = ("fn", "transpose", [e])
            else:
                return e

    def atom(self):
        kind, val = self.take()
        if kind == "num":
            return _num(Fraction(val))
        if kind == "name":
            tk = self.table.syms[val]
            if self.peek() == ("op", "(") and tk in ("fn", "both"):
                self.take()
                return ("fn", "F:" + val, self.args(")"))
            if tk == "fn":
                raise Outside("function name without arguments")
            return ("sym", val)
        if kind == "ident":
            if self.peek() == ("op", "("):
                self.take()
                args = self.args(")")
                if val not in KNOWN_FUNCS or INTERNAL_NAME.match(val):
                    self.unknown.append(val)
                if val == "sqrt" and len(args) == 1:
                    return ("sqrt", args[0])
                if val == "exp" and len(args) == 1:
                    return ("exp", args[0])
                return ("fn", val, args)
            if val in CONSTS:
                return ("cst", val)
            # d<name>: differential of a displayed symbol
            if val.startswith("d") and len(val) > 1:
                m = self.table.match_code(val, 1)
                if m and m[1] == len(val) and self.table.syms[m[0]] != "fn":
                    return ("fn", "d", [("sym", m[0])])
            if val in NOT_NAMES:
                raise Outside(f"code word {val}")
            self.unknown.append(val)
            return ("sym", "?" + val)
        if (kind, val) == ("op", "("):
            items = self.args(")")
            if len(items) == 1:
                return items[0]
            return ("fn", "tuple", items)
        if (kind, val) == ("op", "["):
            return ("fn", "matrix", self.args("]"))
        raise Outside(f"code syntax: unexpected {val!r}")


def parse_code(s: str, table: NameTable):
    return CodeParser(s, table).parse()


# --------------------------------------------------------------------------------------------------------------
# C18: the LaTeX-subset grammar (see parse_latex)
# --------------------------------------------------------------------------------------------------------------

SPACING = {"\\,", "\\;", "\\!", "\\:", "\\quad", "\\qquad", "\\ ", "~"}
LATEX_FUNCS = {"\\sin": "sin", "\\cos": "cos", "\\tan": "tan", "\\cot": "cot", "\\sec": "sec", "\\csc": "csc",
               "\\sinh": "sinh", "\\cosh": "cosh", "\\tanh": "tanh", "\\coth": "coth",
               "\\arcsin": "asin", "\\arccos": "acos", "\\arctan": "atan", "\\log": "log", "\\ln": "log",
               "\\min": "Min", "\\max": "Max", "\\arg": "arg", "\\operatorname": None}
LATEX_CONSTS = {"\\pi": "pi", "\\infty": "oo", "e": "E", "i": "I"}
TERM_STOP = {"+", "-", "=", "}", "\\right", ",", "&", "\\\\", ")", "]", "\\rangle", "\\end", "<end>", "|"}


class LatexParser:
    """Reads LaTeX as mathematics.

    sum     := ['-'|'+'] product (('+'|'-') product)*
    product := factor ( [\\cdot|\\times] ['-'] factor )*        juxtaposition is a product
    factor  := atom ( '^' script | '_' script | '!' )*
    script  := one token | '{' sum '}'
    atom    := number | display name | '{' sum '}' | \\left( sum \\right) | ( sum ) | \\frac{sum}{sum}
             | \\sqrt[sum]{sum} | \\left| sum \\right| | \\langle sum \\rangle
             | fname ['^' script] ['_' script] application      (\\sin \\log \\exp \\operatorname{..} and
                                                                  function display names; the function power
                                                                  f^{n}(x) is (f(x))^n)
             | \\frac{d^n}{d x^n} factor | \\frac{\\partial^n}{\\partial x^n} factor           (derivative operator)
             | \\sum_{i} product | \\prod_{i} product | \\int\\limits_{a}^{b} product \\, d x
    """

    def __init__(self, s: str, table: NameTable):
        self.table = table
        self.toks = normalise_scripts(latex_tokens(s)) + ["<end>", "<end>", "<end>", "<end>"]
        self.i = 0
        self.unknown: list[str] = []
        self.in_integral = 0       # > 0 while reading an integrand: products end at the closing "\, d x"

    # -- token helpers --------------------------------------------------------------------------
    def skip_space(self):
        while self.toks[self.i] in SPACING:
            self.i += 1

    def peek(self):
        j = self.i
        while self.toks[j] in SPACING:
            j += 1
        return self.toks[j]

    def take(self):
        self.skip_space()
        t = self.toks[self.i]
        self.i += 1
        return t

    def accept(self, t):
        if self.peek() == t:
            self.skip_space()
            self.i += 1
            return True
        return False

    def expect(self, t):
        if not self.accept(t):
            raise Outside(f"latex syntax: expected {t!r} got {self.peek()!r}")

    # -- grammar --------------------------------------------------------------------------------
    def parse(self):
        e = self.sum()
        if self.accept("="):
            e = ("fn", "Eq", [e, self.sum()])
        if self.peek() != "<end>":
            raise Outside(f"latex syntax: trailing {self.peek()!r}")
        if self.unknown:
            raise UnknownName(", ".join(self.unknown))
        return e

    def sum(self):
        terms = []
        if self.accept("-"):
            terms.append(("neg", self.product()))
        else:
            self.accept("+")
            terms.append(self.product())
        while True:
            if self.accept("+"):
                # "a + - b" is a + (-b)
                terms.append(("neg", self.product()) if self.accept("-") else self.product())
            elif self.accept("-"):
                terms.append(("neg", self.product()))
            else:
                break
        return terms[0] if len(terms) == 1 else ("add", terms)

    def body(self):
        """operand of \\sum \\prod \\int d/dx: the product to the right, possibly signed (\\sum_i - a)."""
        if self.accept("-"):
            return ("neg", self.product())
        return self.product()

    def product(self):
        fs = [self.factor()]
        while True:
            if self.in_integral and self._at_differential():
                break
            t = self.peek()
            if t in ("\\cdot", "\\times"):
                self.take()
                if self.accept("-"):
                    fs.append(("neg", self.factor()))
                else:
                    fs.append(self.factor())
                continue
            if t in TERM_STOP:
                break
            fs.append(self.factor())
        return fs[0] if len(fs) == 1 else ("mul", fs)

    def _at_differential(self):
        # "\, d x" closing an integral: spacing token followed by d and a displayed name
        j = self.i
        if self.toks[j] not in SPACING:
            return False
        while self.toks[j] in SPACING:
            j += 1
        return self.toks[j] == "d" and self.toks[j + 1] != "<end>"

    def script(self):
        t = self.peek()
        if t == "{":
            self.take()
            e = self.sum()
            if self.accept(","):      # subscripts like {a, b}: not a value
                raise Outside("latex: list in script")
            self.expect("}")
            return e
        return self.atom()

    def factor(self):
        e = self.atom()
        while True:
            t = self.peek()
            if t == "^":
                self.take()
                e = ("pow", e, self.script())
            elif t == "_":
                self.take()
                e = ("fn", "indexed", [e, self.script()])
            elif t == "!":
                self.take()
                e = ("fn", "factorial", [e])
            else:
                return e

    def group_args(self):
        """application brackets: {\\left( a,b \\right)} | \\left( a \\right) | ( a )"""
        braced = self.accept("{")
        if self.accept("\\left"):
            self.expect("(")
            close = ["\\right", ")"]
        elif self.accept("("):
            close = [")"]
        else:
            if braced:
                # folded brackets: f {x}
                e = self.sum()
                self.expect("}")
                return [e]
            raise Outside("latex: function without brackets")
        args = [self.sum()]
        while self.accept(","):
            args.append(self.sum())
        for c in close:
            self.expect(c)
        if braced:
            self.expect("}")
        return args

    def apply(self, make):
        """optional ^script (function power) then the argument brackets."""
        power = None
        if self.accept("^"):
            power = self.script()
        e = make(self.group_args())
        if power is not None:
            e = ("pow", e, power)
        return e

    def atom(self):
        self.skip_space()
        # display names first (longest match)
        m = self.table.match_latex(self.toks, self.i) if self.toks[self.i] != "<end>" else None
        if m:
            key, end = m
            self.i = end
            kind = self.table.syms[key]
            if kind == "fn" or (kind == "both" and self.toks[self.i] == "{" and self.toks[self.i + 1] == "\\left"):
                return self.apply(lambda args: ("fn", "F:" + key, args))
            return ("sym", key)
        t = self.take()
        if re.fullmatch(r"\d+(?:\.\d+)?", t):
            return _num(Fraction(t))
        if t == "{":
            e = self.sum()
            self.expect("}")
            return e
        if t == "\\left" or t == "(":
            if t == "\\left":
                d = self.take()
                if d == "|":
                    e = self.sum()
                    self.expect("\\right")
                    self.expect("|")
                    return ("fn", "Abs", [e])
                if d == "[":
                    e = self.sum()
                    self.expect("\\right")
                    self.expect("]")
                    return e
                if d != "(":
                    raise Outside(f"latex: delimiter {d!r}")
            e = self.sum()
            if t == "\\left":
                self.expect("\\right")
            self.expect(")")
            return e
        if t == "\\frac":
            return self.frac()
        if t == "\\sqrt":
            n = None
            if self.accept("["):
                n = self.sum()
                self.expect("]")
            self.expect("{")
            x = self.sum()
            self.expect("}")
            return ("sqrt", x) if n is None else ("pow", x, ("div", ("num", 1, 1), n))
        if t == "\\exp":
            return self.apply(lambda args: ("exp", args[0]) if len(args) == 1 else ("fn", "exp", args))
        if t in LATEX_FUNCS:
            name = LATEX_FUNCS[t]
            declared = None
            if name is None:
                self.expect("{")
                name = ""
                while self.peek() != "}":
                    name += self.take()
                self.expect("}")
                if self.table.syms.get(name) in ("fn", "both"):
                    declared = name        # a declared function with a multi-letter name is typeset upright
                elif name not in KNOWN_FUNCS or INTERNAL_NAME.match(name):
                    self.unknown.append(name)
            elif self.table.syms.get(t[1:]) in ("fn", "both"):
                declared = t[1:]           # a declared function named log / sin ..: \\log is its (upright) name
            if declared is not None and self.peek() != "_":
                return self.apply(lambda args: ("fn", "F:" + declared, args))
            sub = None
            power = None
            while self.peek() in ("_", "^"):
                if self.take() == "_":
                    sub = self.script()
                else:
                    power = self.script()
            if name == "atan" and sub == ("num", 2, 1):
                name, sub = "atan2", None
            args = self.group_args()
            if sub is not None:
                if name != "log":
                    raise Outside("latex: subscripted function")
                args = args + [sub]
            e = ("fn", name, args)
            # \log \left( x \right)^{2}: the power applies to the applied function
            return ("pow", e, power) if power is not None else e
        if t == "\\langle":
            e = self.sum()
            self.expect("\\rangle")
            return ("fn", "avg", [e])
        if t in ("\\Delta", "\\delta"):
            return ("fn", "Delta" if t == "\\Delta" else "delta", [self.factor()])
        if t in ("\\sum", "\\prod"):
            # \sum_i body (index of indexed symbols)  |  \sum_{k=lo}^{hi} body; the body is the product to the right
            name = "Sum" if t == "\\sum" else "Product"
            self.expect("_")
            lo = None
            if self.accept("{"):
                idx = self.sum()
                if self.accept("="):
                    lo = self.sum()
                self.expect("}")
            else:
                idx = self.atom()
            if self.accept("^"):
                if lo is None:
                    raise Outside("latex: sum with an upper limit only")
                hi = self.script()
                return ("fn", name, [self.body(), ("fn", "tuple", [idx, lo, hi])])
            if lo is not None:
                raise Outside("latex: sum with a lower limit only")
            return ("fn", name, [self.body(), idx])
        if t in ("\\iint", "\\iiint", "\\iiiint"):
            # k-fold integral without limits: body, then k differentials, the first one innermost
            self.in_integral += 1
            try:
                body = self.body()
            finally:
                self.in_integral -= 1
            for _ in range(len(t) - 3):
                self.expect("d")
                body = ("fn", "Integral", [body, self.factor()])
            return body
        if t == "\\int":
            self.accept("\\limits")
            lo = hi = None
            while self.peek() in ("_", "^"):
                if self.take() == "_":
                    lo = self.script()
                else:
                    hi = self.script()
            self.in_integral += 1
            try:
                body = self.body()
            finally:
                self.in_integral -= 1
            self.expect("d")
            var = self.factor()        # a script after the variable belongs to the variable: d t^{2} is d(t^2)
            if (lo is None) != (hi is None):
                raise Outside("latex: half-open integral limits")
            return ("fn", "Integral", [body, var if lo is None else ("fn", "tuple", [var, lo, hi])])
        if t in LATEX_CONSTS:
            return ("cst", LATEX_CONSTS[t])
        if t == "d":
            # differential of a displayed quantity: d x
            return ("fn", "d", [self.factor()])
        if t == "\\begin":
            return self.matrix()
        if t == "\\overline":
            self.expect("{")
            e = self.sum()
            self.expect("}")
            return ("fn", "conjugate", [e])
        if re.fullmatch(r"[A-Za-z]", t) or (t.startswith("\\") and t[1:] in GREEK):
            # a letter that is not (the beginning of) any display name of the printed tree: read on as if it were a
            # symbol; if the rest is readable the rendering mentions a name outside the display-name table
            self.unknown.append(t)
            return ("sym", "?" + t)
        raise Outside(f"latex: token {t!r}")

    def matrix(self):
        self.expect("{")
        name = ""
        while self.peek() != "}":
            name += self.take()
        self.expect("}")
        if name not in ("pmatrix", "bmatrix", "matrix"):
            raise Outside(f"latex: environment {name}")
        rows = [[self.sum()]]
        while True:
            if self.accept("&"):
                rows[-1].append(self.sum())
            elif self.accept("\\\\"):
                rows.append([self.sum()])
            else:
                break
        self.expect("\\end")
        self.expect("{")
        end = ""
        while self.peek() != "}":
            end += self.take()
        self.expect("}")
        if end != name:
            raise Outside("latex: environment mismatch")
        if all(len(r) == 1 for r in rows):
            return ("fn", "matrix", [r[0] for r in rows])
        if len(rows) == 1:
            return ("fn", "matrixT", rows[0])
        return ("fn", "matrix", [("fn", "matrix", r) for r in rows])

    def frac(self):
        # derivative operator  \frac{d^{n}}{d x^{n}} f   /  \frac{\partial}{\partial x} f
        j = self.i
        toks = self.toks
        if toks[j] == "{" and toks[j + 1] in ("d", "\\partial"):
            dsym = toks[j + 1]
            k = j + 2
            order = None
            if toks[k] == "^":
                order = toks[k + 1]
                k += 2
            is_op = toks[k] == "}" and toks[k + 1] == "{" and toks[k + 2] == dsym
            if is_op and (dsym,) in self.table.variants:
                # d is itself a displayed symbol: a plain quotient if the denominator is one longer display name
                # (d / d_0), otherwise ambiguous
                m = self.table.match_latex(toks, k + 2)
                if m and m[1] > k + 3 and toks[m[1]] == "}":
                    is_op = False
                else:
                    raise Outside("latex: d is also a display name (derivative or quotient?)")
            if is_op:
                self.i = k + 3
                var = self.atom()
                if order is not None:
                    self.expect("^")
                    if self.take() != order or not order.isdigit():
                        raise Outside("latex: derivative order")
                if self.peek() != "}":
                    raise Outside("latex: mixed derivative")
                self.expect("}")
                # a differential operator acts on the product to its right (as \sum and \int do)
                body = self.body()
                arg = var if order is None else ("fn", "tuple", [var, ("num", int(order), 1)])
                return ("fn", "Derivative", [body, arg])
        self.expect("{")
        a = self.sum()
        self.expect("}")
        self.expect("{")
        b = self.sum()
        self.expect("}")
        return ("div", a, b)


def parse_latex(s: str, table: NameTable):
    return LatexParser(s, table).parse()


# --------------------------------------------------------------------------------------------------------------
# C18 well-formedness: bracket events for spec/Balance.tla
# --------------------------------------------------------------------------------------------------------------

def bracket_events(s: str) -> list[list[str]]:
    """Open / close events of a LaTeX string: ["o"|"c", kind, delimiter].
    kinds: brace ({ }), left (\\left X .. \\right Y), env (\\begin{X} \\end{X}).  Plain ( ) [ ] are not grouping in
    LaTeX and are not part of the statement."""
    toks = latex_tokens(s)
    ev, i, n = [], 0, len(toks)
    while i < n:
        t = toks[i]
        if t in ("\\left", "\\right"):
            d = toks[i + 1] if i + 1 < n else "<missing>"
            ev.append(["o" if t == "\\left" else "c", "left", d])
            i += 2
            continue
        if t in ("\\begin", "\\end"):
            j = i + 1
            name = ""
            if j < n and toks[j] == "{":
                j += 1
                while j < n and toks[j] != "}":
                    name += toks[j]
                    j += 1
                j += 1
            ev.append(["o" if t == "\\begin" else "c", "env", name])
            i = j
            continue
        if t == "{":
            ev.append(["o", "brace", "{"])
        elif t == "}":
            ev.append(["c", "brace", "}"])
        i += 1
    return ev
