"""C17: the plain-text ('code') rendering of formulas is meaning-preserving.

spec/PrintEval.tla defines the meaning of a formula (postfix programs evaluated in GF(p)); TLC enumerates all
programs within the bounds; each is built as a canonical SymPy expression, rendered with the real ``code_str``, read
back by the harness' own precedence parser (harness/printparse.py) and spec/PrintEvalTrace.tla decides whether the
original and the re-read program have the same value.  The same for every documented equation of the catalogue in
source form.  See harness/pe_run.py.
"""
from .common import main_wrapper
from . import pe_run

PID = "C17"


def main() -> int:
    return pe_run.main(PID, "code")


if __name__ == "__main__":
    main_wrapper(main)
