"""C18: the LaTeX rendering of formulas is well-formed and meaning-preserving.

As C17 with ``latex_str`` and a LaTeX-subset reader; in addition the bracket events of every rendered string
(generated and catalogue) are validated by the pushdown automaton spec/Balance.tla.  See harness/pe_run.py.
"""
from .common import main_wrapper
from . import pe_run

PID = "C18"


def main() -> int:
    return pe_run.main(PID, "latex")


if __name__ == "__main__":
    main_wrapper(main)
