"""code -> spec for C11: every step the real library executed must be a step of spec/Rebase.tla (RebaseTrace.tla)."""
from __future__ import annotations

import json

from .geom import in_threads
from .tlc import run_tlc, write_cfg

CHUNK = 8000


def validate(run, sc, trace_records, label="real"):
    """trace_records = [(group, [step record, ...])].  Returns {record id: record} of the rejected records and
    reports each as a violation."""
    recs, origin = [], []
    for g, records in trace_records:
        for r in records:
            r = dict(r, id=len(recs))
            recs.append(r)
            origin.append(g)
    # vector records cost TLC more than field records: deal them round-robin so that the chunks are balanced
    n_chunks = max(1, -(-len(recs) // CHUNK))
    order = [r for c in range(n_chunks) for r in recs[c::n_chunks]]
    stuck = _run_chunks(run, sc, order, label)
    for rid in sorted(stuck):
        r, g = recs[rid], origin[rid]
        key = f"recorded step {r['obj']} a={r['a']} b={r['b']} from {r['repr']}: {r['act']} {r['arg']}"
        # the emitted path whose prefix produced this record: re-running it re-creates the record
        prefix = [tuple(x) for x in r.get("prefix", [])]
        path = [g["nodes"][tuple(prefix[:k])] for k in range(1, len(prefix) + 1)] if all(
            tuple(prefix[:k]) in g["nodes"] for k in range(1, len(prefix) + 1)) else []
        if len(run.violations) >= 300 and key not in run.known:
            continue
        run.violation(key, f"no action of Rebase.tla allows the recorded real step {json.dumps(r)[:400]}",
                      {"kind": "record", "record": r, "obj": g["obj"], "start": g["start"], "a": g["a"], "b": g["b"],
                       "ctor": g["ctor"], "path": path})
    run.traces += len(recs)
    run.coverage["real_steps_validated_by_trace_spec"] = len(recs)
    run.coverage["real_steps_rejected_by_trace_spec"] = len(stuck)
    return stuck


def _run_chunks(run, sc, recs, label):
    def one(n, start):
        chunk = recs[start:start + CHUNK]
        path = sc / f"rbtrace_{label}_{n}.json"
        path.write_text(json.dumps(chunk))
        cfg = write_cfg(sc / f"rbt_{label}_{n}.cfg", init="TInit", next_="TNext",
                        constants={"MaxDepth": 1, "Object": "vector", "PointIdx": {1}, "Octants": {1}, "PartnerIdx": 2,
                                   "MaxDegree": 2, "Scales": {1, 2, 3, 4, 5, 6, 7}, "AngleFields": True, "Rotated": True}, invariants=["Stuck"])
        res = run_tlc("RebaseTrace", cfg, sc, workers=2, env={"TRACE_FILE": str(path)}, allow_violation=False, heap_gb=6)
        path.unlink()
        return len(chunk), res

    stuck = set()
    jobs = [(one, (n, start)) for n, start in enumerate(range(0, len(recs), CHUNK))]
    for n, (size, res) in enumerate(in_threads(jobs, max_threads=8)):
        run.add_tlc(res, f"trace validation {label} chunk {n}: {size} recorded real steps")
        here = {p["stuck"] for p in res.printed if isinstance(p, dict) and "stuck" in p}
        # every record is an initial state; every accepted record has exactly one successor
        if res.distinct != 2 * size - len(here):
            raise RuntimeError(f"trace spec: {res.distinct} states for {size} records with {len(here)} rejected")
        stuck |= here
    return stuck


def selftest(run, sc, trace_records):
    """A corrupted record (one Cartesian component changed / a refusal turned into an answer) must be rejected."""
    import copy
    recs = [r for _, rs in trace_records for r in rs]
    good = next((r for r in recs if r["obj"] == "vector" and r["act"] == "rebase" and not r["refused"]), None)
    refused = next((r for r in recs if r["act"] == "rebase" and r["refused"]), None)
    if good is None or refused is None:
        return
    bad1 = copy.deepcopy(good)
    bad1["post"]["a"][0] = [bad1["post"]["a"][0][0] + bad1["post"]["a"][0][1], bad1["post"]["a"][0][1]]
    bad2 = copy.deepcopy(refused)
    bad2["refused"] = False
    bad2["post_repr"] = bad2["arg"]
    trio = [dict(r, id=i) for i, r in enumerate((good, bad1, bad2))]
    from .common import Run
    stuck = _run_chunks(Run(run.pid, "selftest"), sc, trio, "selftest")
    ok = stuck == {1, 2}
    run.coverage["trace_selftest"] = "corrupted component / answered cyl-sph records rejected, intact record accepted" if ok else f"FAILED {stuck}"
    if not ok:
        raise RuntimeError(f"trace self-test failed: {stuck}")
