"""Subprocess side of C19: run the real documentation generator over the working tree.

    python -m harness.c19_gen <outdir> <mode> [<tracefile>]

mode  probe   generate_laws_docs with recording: every change of SymPy's evaluation flag (hook
              `evaluation`), module boundaries (wrappers around the generator's per-module functions)
              and the flag seen by every top-level statement of every patched module (probe statements
              added AFTER the real patcher returned, so the patcher itself is untouched); pages are kept
              raw in <outdir>/raw and with roles resolved (docs/build.py process_generated_files) in
              <outdir>/final; trace written to <tracefile>.
      plain   docs/build.py main(--rst-only) into <outdir>/final, no instrumentation.
      preuse  as plain, but after other library use (laws imported, symbols created, expressions built
              with evaluation switched off and on again) in the same process.
The last line printed is a JSON object with the post-generation state of SymPy.
"""
from __future__ import annotations

import ast
import importlib.util
import json
import os
import shutil
import sys
from pathlib import Path

from .c19_shapes import classify, has_title
from .common import REPO


def load_docs_build():
    spec = importlib.util.spec_from_file_location("verif_docs_build", str(REPO / "docs" / "build.py"))
    mod = importlib.util.module_from_spec(spec)
    spec.loader.exec_module(mod)
    return mod


def post_state() -> dict:
    """A fixed SymPy computation after generation: must give the default-mode results."""
    import sympy
    from sympy.core.parameters import global_parameters
    x = sympy.Symbol("x")
    return {
        "flag": bool(global_parameters.evaluate),
        "x_plus_x": str(x + x),
        "sqrt8": str(sympy.sqrt(8)),
        "mul": str(sympy.Integer(2) * sympy.Integer(3)),
        "rat": str(sympy.Rational(2, 4) + sympy.Rational(1, 4)),
        "pow": str(x * x / x),
        "distribute": bool(global_parameters.distribute),
    }


DEFAULT_STATE = {"flag": True, "x_plus_x": "2*x", "sqrt8": "2*sqrt(2)", "mul": "6", "rat": "3/4", "pow": "x",
                 "distribute": True}


def other_library_use() -> None:
    """Library use before generation (a different history): imports, new symbols, mode switches."""
    import importlib
    import sympy
    from symplyphysics import Quantity, clone_as_symbol, symbols, units
    from symplyphysics.core.processors import disable_sympy_evaluation, reset_sympy_evaluation
    for name in ["symplyphysics.laws.dynamics.acceleration_is_force_over_mass",
                 "symplyphysics.laws.thermodynamics.pressure_from_temperature_and_volume",
                 "symplyphysics.definitions.density_from_mass_volume",
                 "symplyphysics.laws.electricity.current_is_voltage_over_resistance",
                 "symplyphysics.laws.kinematics.position_via_constant_speed"]:
        try:
            importlib.import_module(name)
        except ImportError:
            pass
    for i in range(17):
        clone_as_symbol(symbols.mass, display_symbol=f"m_{i}")
    q = Quantity(3 * units.meter)
    disable_sympy_evaluation()
    _ = sympy.Symbol("y") + sympy.Symbol("y") + q
    reset_sympy_evaluation()


def run_probe(out: Path, tracefile: str) -> None:
    import symplyphysics.docs.build as build
    from symplyphysics.core import verif_hooks
    from . import c19_probe

    events = c19_probe.EVENTS

    def sink(kind, payload):
        if kind == "evaluation":
            events.append({"ev": "flag", "action": str(payload["action"]), "flag": bool(payload["flag"])})

    verif_hooks.sink = sink

    real_patch = build.patch_sympy_evaluate

    def patch_with_probes(module: ast.Module) -> ast.Module:
        index_of = {id(s): i + 1 for i, s in enumerate(module.body)}
        kinds = classify(module)
        patched = real_patch(module)
        body = []
        for s in patched.body:
            i = index_of.get(id(s))
            if i is not None and kinds[i - 1] not in ("moddoc", "doc_dir", "doc_plain", "doc_eval") and not (
                    isinstance(s, ast.ImportFrom) and s.module == "__future__"):
                body.append(ast.Expr(ast.Call(
                    ast.Attribute(ast.Call(ast.Name("__import__", ctx=ast.Load()),
                                           [ast.Constant("harness.c19_probe")],
                                           [ast.keyword("fromlist", ast.List([ast.Constant("s")], ctx=ast.Load()))]),
                                  "s", ctx=ast.Load()),
                    [ast.Constant(i)], [])))
            body.append(s)
        patched.body = body
        ast.fix_missing_locations(patched)
        return patched

    build.patch_sympy_evaluate = patch_with_probes

    def wrap(fn, is_pkg):
        def wrapper(directory, *args):
            path = Path(directory, "__init__.py") if is_pkg else Path(directory, args[0])
            if not is_pkg and (not str(args[0]).endswith(".py")):
                return fn(directory, *args)
            src = ast.parse(path.read_text(encoding="utf-8"))
            titled = has_title(src)
            skip = (not is_pkg) and str(args[0]).startswith("__")
            if not skip:
                events.append({"ev": "begin", "path": str(path), "pkg": is_pkg, "titled": titled, "shape": classify(src),
                               "flag": c19_probe.flag()})
            res = fn(directory, *args)
            if not skip:
                events.append({"ev": "end", "path": str(path), "titled": titled, "page": res is not None,
                               "stem": res if res is not None else "", "flag": c19_probe.flag()})
            return res
        return wrapper

    build._process_law = wrap(build._process_law, False)                   # pylint: disable=protected-access
    build._process_law_package = wrap(build._process_law_package, True)    # pylint: disable=protected-access

    raw = out / "raw"
    raw.mkdir(parents=True)
    build.generate_laws_docs("symplyphysics", str(raw), ["core"], True)
    state = post_state()
    events.append({"ev": "finish", "flag": state["flag"], "sane": state == DEFAULT_STATE})
    final = out / "final"
    shutil.copytree(raw, final)
    db = load_docs_build()
    shutil.copyfile(REPO / "docs" / "index.rst", final / "index.rst")
    db.process_generated_files(str(final))
    Path(tracefile).write_text(json.dumps({"events": events}))
    print(json.dumps(state))


def run_plain(out: Path, preuse: bool) -> None:
    if preuse:
        other_library_use()
    db = load_docs_build()
    final = out / "final"
    final.mkdir(parents=True)
    db.main(["-R", "-q", "-l", "symplyphysics", "-g", str(final), "-c", "docs", "-e", "core"])
    print(json.dumps(post_state()))


def main() -> None:
    out, mode = Path(sys.argv[1]), sys.argv[2]
    os.chdir(REPO)
    if mode == "probe":
        run_probe(out, sys.argv[3])
    else:
        run_plain(out, mode == "preuse")


if __name__ == "__main__":
    main()
