"""Walk the catalogue: every module under laws/, definitions/, conditions/ of the working tree."""
from __future__ import annotations

import importlib
import pkgutil


def module_names(roots=("laws", "definitions", "conditions")):
    import symplyphysics
    names = []
    for root in roots:
        pkg = importlib.import_module(f"symplyphysics.{root}")
        for m in pkgutil.walk_packages(pkg.__path__, pkg.__name__ + "."):
            if not m.ispkg:
                names.append(m.name)
    return sorted(names)


def public_equations(mod):
    """(attribute name, Equality | relational) pairs published by a module (lists/tuples flattened)."""
    import sympy as sp
    from sympy.core.relational import Relational
    out = []
    for name, val in vars(mod).items():
        if name.startswith("_"):
            continue
        if isinstance(val, (Relational,)):
            out.append((name, val))
        elif isinstance(val, (list, tuple)) and val and all(isinstance(v, Relational) for v in val):
            for i, v in enumerate(val):
                out.append((f"{name}[{i}]", v))
    return out
