"""Probe helpers imported by the synthetic modules that harness/c19.py sends through the real
documentation patcher.  A module that is exec'ed with separate globals/locals (as
symplyphysics.docs.parse.find_members_and_functions does) cannot call its own module-level
functions' globals, so every probe statement reaches this module through ``__import__`` / ``from .. import``.

``p(i)`` records (statement index, SymPy's global evaluation flag at that moment) and returns
``Add(x, x)`` built under the current mode: ``x + x`` (as written) when evaluation is off, ``2*x`` when on.
``from harness.c19_probe import i<k>`` records statement k through the module-level ``__getattr__``.
"""
from __future__ import annotations

LOG: list = []
class _Box:      # target of attribute / subscript assignments in materialised modules
    def __init__(self):
        self.d = {}


BOX = _Box()
EVENTS: list = []      # real-tree run: one ordered stream of flag changes, module boundaries and statement probes


def reset() -> None:
    del LOG[:]


def flag() -> bool:
    from sympy.core.parameters import global_parameters
    return bool(global_parameters.evaluate)


def p(i: int):
    import sympy
    LOG.append((int(i), flag()))
    x = sympy.Symbol("x")
    return sympy.Add(x, x)


def __getattr__(name: str):
    if len(name) > 1 and name[0] == "i" and name[1:].isdigit():
        LOG.append((int(name[1:]), flag()))
        return None
    raise AttributeError(name)


def s(i: int) -> None:
    """Statement probe of the real-tree run (harness/c19_gen.py)."""
    EVENTS.append({"ev": "stmt", "i": int(i), "flag": flag()})
