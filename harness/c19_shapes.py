"""C19: the abstraction real module source -> statement kinds of spec/DocGen.tla, and the
materialisation statement kinds -> probe source.  Written from the Python language's own notions
(attribute docstrings, public names), independent of symplyphysics.docs.patch / parse."""
from __future__ import annotations

import ast

DOC_KINDS = ("doc_dir", "doc_plain", "doc_eval")
P = '__import__("harness.c19_probe", fromlist=["p"]).p'


def classify(tree: ast.Module) -> list[str]:
    kinds = []
    for n, s in enumerate(tree.body):
        if isinstance(s, ast.Expr) and isinstance(s.value, ast.Constant):
            v = s.value.value
            if n == 0 and isinstance(v, str):
                kinds.append("moddoc")
                continue
            v = str(v)
            if ":laws:sympy-eval::" in v:
                kinds.append("doc_eval")
            elif ":laws:symbol::" in v or ":laws:latex::" in v:
                kinds.append("doc_dir")
            else:
                kinds.append("doc_plain")
        elif isinstance(s, (ast.Import, ast.ImportFrom)):
            kinds.append("import")
        elif isinstance(s, ast.Assign):
            names = [t.id for t in s.targets if isinstance(t, ast.Name)]
            if any(not x.startswith("_") for x in names):
                kinds.append("pubassign")
            elif names:
                kinds.append("privassign")
            else:
                kinds.append("tupassign")
        elif isinstance(s, ast.FunctionDef):
            kinds.append("def_doc" if ast.get_docstring(s) is not None else "def_nodoc")
        else:
            kinds.append("other")
    return kinds


def has_title(tree: ast.Module) -> bool:
    """'Documented' module: a docstring whose first lines are a title underlined with = or -."""
    doc = ast.get_docstring(tree)
    if doc is None:
        return False
    for line in doc.splitlines()[1:]:
        if line and (set(line) == {"="} or set(line) == {"-"}):
            return True
    return False


def materialise(kinds, variant: int = 0) -> str:
    """Statement kinds -> source text whose observable statements report SymPy's evaluation flag."""
    out = []
    for i, k in enumerate(kinds, start=1):
        if k == "moddoc":
            s = '"""\nProbe module\n============\n\nDescription.\n"""'
        elif k == "import":
            s = f"from harness.c19_probe import i{i}"
        elif k == "pubassign":
            s = f"a{i} = {P}({i})" if variant == 0 else f"a{i} = b{i} = {P}({i})"
        elif k == "privassign":
            s = f"_a{i} = {P}({i})"
        elif k == "tupassign":
            s = f"(t{i}, u{i}) = ({P}({i}), 0)" if variant == 0 else f"[t{i}, u{i}] = [{P}({i}), 0]"
        elif k == "doc_dir":
            s = (f'"""\nDoc {i}.\n\n:laws:symbol::\n\n:laws:latex::\n"""' if variant == 0
                 else f'"""Doc {i} :laws:latex::"""')
        elif k == "doc_plain":
            s = f'"""\nDoc {i}.\n"""'
        elif k == "doc_eval":
            s = f'"""\nDoc {i}.\n\n:laws:symbol::\n\n:laws:sympy-eval::\n"""'
        elif k == "def_doc":
            s = f'def f{i}(x={P}({i})):\n    """Doc {i}."""\n    return x'
        elif k == "def_nodoc":
            s = f"def g{i}(x={P}({i})):\n    return x"
        elif k == "other":
            s = f"{P}({i})" if variant == 0 else f"z{i}: object = {P}({i})"
        else:
            raise KeyError(k)
        out.append(s)
    return "\n\n".join(out) + "\n"
