"""C19: the abstraction real module source -> statement kinds of spec/DocGen.tla, and the
materialisation statement kinds -> probe source.  Written from the Python language's own notions
(attribute docstrings, public names), independent of symplyphysics.docs.patch / parse."""
from __future__ import annotations

import ast

DOC_KINDS = ("doc_dir", "doc_plain", "doc_eval")
P = '__import__("harness.c19_probe", fromlist=["p"]).p'


def classify(tree: ast.Module) -> list[str]:
    kinds = []
    for n, s in enumerate(tree.body):
        if isinstance(s, ast.Expr) and isinstance(s.value, ast.Constant):
            v = s.value.value
            if n == 0 and isinstance(v, str):
                kinds.append("moddoc")
                continue
            v = str(v)
            if ":laws:sympy-eval::" in v:
                kinds.append("doc_eval")
            elif ":laws:symbol::" in v or ":laws:latex::" in v:
                kinds.append("doc_dir")
            else:
                kinds.append("doc_plain")
        elif isinstance(s, (ast.Import, ast.ImportFrom)):
            kinds.append("import")
        elif isinstance(s, ast.Assign):
            names = [t.id for t in s.targets if isinstance(t, ast.Name)]
            if any(not x.startswith("_") for x in names):
                kinds.append("pubassign")
            elif names:
                kinds.append("privassign")
            else:
                kinds.append("tupassign")
        elif isinstance(s, ast.FunctionDef):
            kinds.append("def_doc" if ast.get_docstring(s) is not None else "def_nodoc")
        else:
            kinds.append("other")
    return kinds


def has_title(tree: ast.Module) -> bool:
    """'Documented' module: a docstring whose first lines are a title underlined with = or -."""
    doc = ast.get_docstring(tree)
    if doc is None:
        return False
    for line in doc.splitlines()[1:]:
        if line and (set(line) == {"="} or set(line) == {"-"}):
            return True
    return False


# header forms of a function definition: the documentation generator must cope with every signature a documented
# function may have ({n} name, {p} probe expression evaluated when the def statement is executed)
DEF_FORMS = [
    "def {n}(x={p}):",
    'def {n}(a: int = 0, x: "list[int]" = {p}, *args: int, c: bool = False, **kwargs: object) -> tuple[int, int]:',
    "def {n}(a=0, /, x={p}) -> int | None:",
    '@__import__("functools").lru_cache(maxsize=None)\n'
    'def {n}(x: __import__("typing").Optional[int] = {p}) -> __import__("sympy").Expr:',
    'def {n}(x={p}, *, key: "Quantity" = None) -> "Quantity":',
    'def {n}(x={p}) -> None:',
]
N_VARIANTS = len(DEF_FORMS)


def materialise(kinds, variant: int = 0) -> str:
    """Statement kinds -> source text whose observable statements report SymPy's evaluation flag.
    `variant` selects the signature form of function definitions (DEF_FORMS) and alternative spellings of the
    other kinds (odd variants; `other` rotates through expression / annotated assignment / async def)."""
    out = []
    alt = variant % 2
    for i, k in enumerate(kinds, start=1):
        if k == "moddoc":
            s = '"""\nProbe module\n============\n\nDescription.\n"""'
        elif k == "import":
            s = f"from harness.c19_probe import i{i}"
        elif k == "pubassign":
            s = f"a{i} = {P}({i})" if alt == 0 else f"a{i} = b{i} = {P}({i})"
        elif k == "privassign":
            s = f"_a{i} = {P}({i})"
        elif k == "tupassign":
            box = '__import__("harness.c19_probe", fromlist=["BOX"]).BOX'
            s = [f"(t{i}, u{i}) = ({P}({i}), 0)", f"[t{i}, u{i}] = [{P}({i}), 0]",
                 f"{box}.x{i} = {P}({i})", f'{box}.d["k{i}"] = {P}({i})'][variant % 4]
        elif k == "doc_dir":
            s = (f'"""\nDoc {i}.\n\n:laws:symbol::\n\n:laws:latex::\n"""' if alt == 0
                 else f'"""Doc {i} :laws:latex::"""')
        elif k == "doc_plain":
            s = f'"""\nDoc {i}.\n"""'
        elif k == "doc_eval":
            s = f'"""\nDoc {i}.\n\n:laws:symbol::\n\n:laws:sympy-eval::\n"""'
        elif k in ("def_doc", "def_nodoc"):
            head = DEF_FORMS[variant % N_VARIANTS].format(n=("f" if k == "def_doc" else "g") + str(i), p=f"{P}({i})")
            doc = f'    """Doc {i}."""\n' if k == "def_doc" else ""
            s = f"{head}\n{doc}    return x"
        elif k == "other":
            form = variant % 3
            if form == 0:
                s = f"{P}({i})"
            elif form == 1:
                s = f"z{i}: object = {P}({i})"
            else:
                s = f'async def h{i}(x={P}({i})) -> tuple[int, int]:\n    """Doc {i}."""\n    return x'
        else:
            raise KeyError(k)
        out.append(s)
    return "\n\n".join(out) + "\n"
