"""C04: the dimension gate admits exactly dimensionally equivalent arguments and results.

spec -> code : TLC enumerates every behaviour of spec/Gate.tla (a call: 1..3 guarded parameters, each a
               scalar / sequence / quantity vector of some dimension, value spelling and prefix, against a
               declared dimension, bound positionally or by keyword, with or without a checked result); each
               call is made on a probe function decorated with the real validate_input / validate_output /
               validate_output_same; the exception type and whether the body ran must be a terminal state
               of the model for that call.
code -> spec : (a) catalogue clause - every decorated function of laws/, definitions/, conditions/ is
               called with synthesised valid arguments and with one guarded argument replaced by a quantity
               of another dimension; the gate decisions (hook gate_check / gate_run) are recorded as traces;
               (b) thorough: every gate decision taken while the repository's own tests run.
               spec/GateTrace.tla accepts a trace only if every recorded decision is the Verdict TLC
               computes from the specification and a refusal names the refused parameter.
"""
from __future__ import annotations

import json
import os
import re
import sys
from fractions import Fraction

from . import catalogue
from .common import REPO, HardTimeout, Run, main_wrapper, make_pool, pmap, time_limit
from .dimproj import D1VEC, dim_expr, dimstr, project_dim, unit_expr
from .tlc import Scratch, parse_tla_tuple, run_tlc, write_cfg

PID = "C04"


def E(*es):
    """Exponents e (integers or halves) -> the cfg encoding 8 + 2e."""
    return {int(8 + 2 * e) for e in es}


NOVEC = dict(VecSystems=set(), VecValues=set(), VecWays=set())
EMPTY = dict(ActL=set(), ActM=set(), ActT=set(), ActA=set(), DeclL=set(), DeclM=set(), DeclT=set(), DeclA=set(),
             Values=set(), NumValues=set(), Prefixes=set(), Shapes=set(), MaxSeq=0, TupleDecls=False,
             MaxParams=0, ResultKinds=set(), CallStyles=set(), **NOVEC)

CFG = {
    "quick": {
        # all (actual, declared) pairs: energy vs torque, Hz vs rad/s, angle factors, half exponents
        "pairs": dict(ActL=E(0, .5, 1, 2), ActM=E(0, 1), ActT=E(-2, -1, 0), ActA=E(-1, 0, 1),
                      DeclL=E(0, 1, 2), DeclM=E(0, 1), DeclT=E(-2, -1, 0), DeclA=E(0, 1),
                      Values={"one", "fhuge", "minute", "zero", "nan"},
                      NumValues={"one", "sone", "f25", "sf25", "frac", "dec", "mpf", "fraczero", "huge", "fminute", "zero", "fzero",
                                 "inf", "finf", "nan"},
                      Prefixes={"base", "kilo"}, Shapes={"scalar"}, MaxSeq=0, TupleDecls=False,
                      MaxParams=1, ResultKinds={"none"}, **NOVEC),
        # sequences of 0..3 elements (also declared element-wise) and vectors in the three systems
        "shapes": dict(ActL=E(0, 1), ActM=E(0), ActT=E(-1, 0), ActA=E(0),
                       DeclL=E(0, 1), DeclM=E(0), DeclT=E(-1, 0), DeclA=E(0),
                       Values={"one", "zero"}, NumValues={"one", "zero"}, Prefixes={"base"},
                       Shapes={"seq", "vec"}, MaxSeq=3, TupleDecls=True, MaxParams=1, ResultKinds={"none"},
                       VecSystems={"cart", "cyl", "sph"}, VecValues={"one", "zero"},
                       VecWays={"infer", "explicit", "base", "baseexplicit"}),
        # results and sequence elements of extreme magnitude (finite, non-zero, outside the range of doubles)
        "extreme_results": dict(ActL=E(0, 1), ActM=E(0), ActT=E(-1, 0), ActA=E(0),
                                DeclL=E(0, 1), DeclM=E(0), DeclT=E(0), DeclA=E(0),
                                Values={"one", "fhuge", "minute"},
                                # results that are bare numbers: Python int / float, SymPy Integer / Float, extremes
                                NumValues={"one", "sone", "f25", "sf25", "frac", "dec", "mpf", "fraczero", "huge", "fminute",
                                           "zero", "fzero", "inf", "finf", "nan"},    # also as the 'same as' reference
                                Prefixes={"base"},
                                Shapes={"scalar"}, MaxSeq=0, TupleDecls=False, MaxParams=1,
                                ResultKinds={"none", "dim", "same"}, **NOVEC),
        "extreme_seqs": dict(ActL=E(0, 1), ActM=E(0), ActT=E(-1, 0), ActA=E(0),
                             DeclL=E(0, 1), DeclM=E(0), DeclT=E(0), DeclA=E(0),
                             Values={"one", "fhuge", "minute"}, NumValues={"one", "huge", "fminute"}, Prefixes={"base"},
                             Shapes={"seq"}, MaxSeq=2, TupleDecls=False, MaxParams=1, ResultKinds={"none"}, **NOVEC),
        # the call protocol: two guarded parameters, call styles, checked results
        "protocol": dict(ActL=E(0, 1), ActM=E(0), ActT=E(0), ActA=E(0, 1),
                         DeclL=E(0, 1), DeclM=E(0), DeclT=E(0), DeclA=E(0),
                         Values={"one"}, NumValues={"f25", "zero"}, Prefixes={"base"},
                         Shapes={"scalar"}, MaxSeq=0, TupleDecls=False, MaxParams=2,
                         ResultKinds={"none", "dim", "same"}, **NOVEC),
    },
    "thorough": {
        "pairs": dict(ActL=E(-2, -1, 0, .5, 1, 2), ActM=E(0, 1), ActT=E(-2, -1, -.5, 0, 1), ActA=E(-1, 0, 1),
                      DeclL=E(-1, 0, 1, 2), DeclM=E(0, 1), DeclT=E(-2, -1, 0), DeclA=E(0, 1),
                      Values={"one", "big", "tiny", "cplx", "huge", "fhuge", "minute", "fminute", "zero", "inf", "nan"},
                      NumValues={"one", "sone", "neg", "f25", "sf25", "frac", "dec", "mpf", "fraczero", "deczero", "big", "huge", "fhuge", "minute", "fminute", "zero", "fzero", "inf", "finf",
                                 "ninf", "nan", "fnan"},
                      Prefixes={"base", "kilo", "milli"}, Shapes={"scalar"}, MaxSeq=0, TupleDecls=False,
                      MaxParams=1, ResultKinds={"none"}, **NOVEC),
        "shapes": dict(ActL=E(0, 1), ActM=E(0), ActT=E(-1, 0), ActA=E(0, 1),
                       DeclL=E(0, 1), DeclM=E(0), DeclT=E(-1, 0), DeclA=E(0),
                       Values={"one", "zero"}, NumValues={"one", "zero"}, Prefixes={"base"},
                       Shapes={"seq", "vec"}, MaxSeq=3, TupleDecls=True, MaxParams=1, ResultKinds={"none"},
                       VecSystems={"cart", "cyl", "sph"}, VecValues={"one", "three", "zero"},
                       VecWays={"infer", "explicit", "base", "baseexplicit"}),
        "protocol": dict(ActL=E(0, 1), ActM=E(0), ActT=E(0), ActA=E(0, 1),
                         DeclL=E(0, 1), DeclM=E(0), DeclT=E(0), DeclA=E(0),
                         Values={"one"}, NumValues={"one", "zero"}, Prefixes={"base"},
                         Shapes={"scalar"}, MaxSeq=0, TupleDecls=False, MaxParams=3,
                         ResultKinds={"none", "same"}, **NOVEC),
        "results": dict(ActL=E(-1, 0, 1, 2), ActM=E(0, 1), ActT=E(-2, 0), ActA=E(-1, 0, 1),
                        DeclL=E(1), DeclM=E(0), DeclT=E(0), DeclA=E(0),
                        Values={"one", "fhuge", "minute", "zero", "nan"},
                        NumValues={"one", "sone", "f25", "sf25", "frac", "dec", "mpf", "fraczero", "deczero", "fminute", "zero"},
                        Prefixes={"base"},
                        Shapes={"scalar"}, MaxSeq=0, TupleDecls=False, MaxParams=1,
                        ResultKinds={"dim", "same"}, **NOVEC),
    },
}

ALL_STYLES = {"pos", "kw", "kwrev", "mixed", "optskip", "optskipkw", "optgiven"}
for _tier in CFG.values():
    for _label, _c in _tier.items():
        # the call-style product is explored where several parameters exist; elsewhere positional / keyword
        _c.setdefault("CallStyles", ALL_STYLES if _label == "protocol" else {"pos", "kw"})

INVARIANTS = ["VectorsHoweverBuilt", "TypeOK", "RunsOnlyIfAllPassed", "ReturnsOnlyIfResultOK", "RefusalIsJustified", "FinalIsAnOutcome",
              "VerdictIndependentOfMagnitude", "VerdictIndependentOfPrefix", "VerdictIndependentOfCallStyle",
              "TypeErrorIffBareNonzeroNumber", "AngleIsErased"]

# -------------------------------------------------------------------------------------------------
# abstract -> real (spec -> code)

_R = None   # real objects, built once per process


def _real():
    global _R  # pylint: disable=global-statement
    if _R is None:
        import decimal
        import fractions
        import mpmath
        import sympy as sp
        from sympy.physics import units
        from sympy.physics.units.definitions.dimension_definitions import angle as angle_type
        from symplyphysics import Quantity, QuantityVector, prefixes, validate_input, validate_output
        from symplyphysics.core.vectors.vectors import Vector
        from symplyphysics.core import verif_hooks
        from symplyphysics.core.coordinate_systems.coordinate_systems import CoordinateSystem
        from symplyphysics.core.quantity_decorator import validate_output_same
        from symplyphysics.core.symbols.symbols import Symbol as SymbolNew
        S = CoordinateSystem.System
        _R = dict(
            sp=sp, Quantity=Quantity, QuantityVector=QuantityVector, CoordinateSystem=CoordinateSystem, Vector=Vector,
            validate_input=validate_input, validate_output=validate_output, validate_output_same=validate_output_same,
            Symbol=SymbolNew, hooks=verif_hooks, angle=angle_type, Dimension=units.Dimension,
            dim={"L": units.length, "M": units.mass, "T": units.time, "I": units.current, "K": units.temperature,
                 "N": units.amount_of_substance, "J": units.luminous_intensity, "A": angle_type},
            unit={"L": units.meter, "M": units.kilogram, "T": units.second, "I": units.ampere, "K": units.kelvin,
                  "N": units.mole, "J": units.candela},
            value={"one": 1, "three": 3, "neg": -7, "f25": 2.5, "big": 10**9, "tiny": sp.Rational(1, 10**6),
                   "sone": sp.Integer(1), "sf25": sp.Float(2.5), "frac": fractions.Fraction(1, 2),
                   "dec": decimal.Decimal("0.5"), "mpf": mpmath.mpf("0.5"), "fraczero": fractions.Fraction(0),
                   "deczero": decimal.Decimal(0), "cplx": 1 + 2 * sp.I, "huge": sp.Integer(10)**400, "fhuge": sp.Float("1e400"),
                   "minute": sp.Rational(1, 10**400), "fminute": sp.Float("1e-330"), "zero": 0, "fzero": 0.0, "inf": sp.oo, "finf": float("inf"), "ninf": -sp.oo,
                   "nan": sp.nan, "fnan": float("nan")},
            prefix={"base": 1, "kilo": prefixes.kilo, "milli": prefixes.milli},
            system={"cart": S.CARTESIAN, "cyl": S.CYLINDRICAL, "sph": S.SPHERICAL},
        )
    return _R


ANYVALS = {"zero", "fzero", "fraczero", "deczero", "inf", "finf", "ninf", "nan", "fnan"}


def build_scalar(a):
    r = _real()
    if a["k"] == "num":
        return r["value"][a["val"]]
    expr = r["value"][a["val"]] * r["prefix"][a["pre"]] * unit_expr(a["d"])
    if a["d"][7][0] != 0 or a["val"] in ANYVALS:
        # an angle factor exists only as an explicit dimension; a zero / infinite / NaN value would otherwise
        # lose its dimension inside SymPy
        return r["Quantity"](expr, dimension=dim_expr(a["d"]))
    return r["Quantity"](expr)


def is_angle_comp(sys_, i):   # i is 0-based
    return (sys_ == "cyl" and i == 1) or (sys_ == "sph" and i in (1, 2))


def build_vec(a):
    r = _real()
    comps = []
    for i, val in enumerate(a["vals"]):
        v = r["value"][val]
        if is_angle_comp(a["sys"], i):
            comps.append(r["Quantity"](v, dimension=r["angle"]))
            continue
        d = [list(x) for x in a["d"]]
        if a["mix"] == i + 1:       # this component carries another dimension: one more power of time
            t = Fraction(d[2][0], d[2][1]) + 1
            d[2] = [t.numerator, t.denominator]
        expr = v * r["prefix"][a["pre"]] * unit_expr(d)
        comps.append(r["Quantity"](expr, dimension=dim_expr(d)) if d[7][0] != 0 else r["Quantity"](expr))
    cs = r["CoordinateSystem"](r["system"][a["sys"]])
    via = a.get("via", "infer")
    label = dim_expr(a["d"])          # the dimension the vector is said to have (that of its unmixed components)
    if via == "explicit":
        return r["QuantityVector"](comps, cs, dimension=label)
    if via == "base":
        return r["QuantityVector"].from_base_vector(r["Vector"](comps, cs))
    if via == "baseexplicit":
        return r["QuantityVector"].from_base_vector(r["Vector"](comps, cs), dimension=label)
    return r["QuantityVector"](comps, cs)


def build_arg(a, salt=0):
    if a["k"] == "seq":
        items = [build_arg(x) for x in a["items"]]
        return tuple(items) if salt % 2 else items
    if a["k"] == "vec":
        return build_vec(a)
    return build_scalar(a)


def build_decl(x, salt=0):
    r = _real()
    if x["k"] == "each":
        return tuple(dim_expr(d) for d in x["ds"])
    d = dim_expr(x["d"])
    return r["Symbol"]("x", d) if salt % 2 else d     # a declaration is a dimension or a symbol carrying one


NAMES = ["p1", "p2", "p3"]


def pass_arguments(style, args):
    """Call style of the model -> (positional arguments, keyword arguments in the order they are written)."""
    named = [(NAMES[i], a) for i, a in enumerate(args)]
    if style == "pos":
        return list(args), {}
    if style == "kw":
        return [], dict(named)
    if style in ("kwrev", "optskipkw"):
        return [], dict(reversed(named))
    if style == "mixed":
        return [args[0]], dict(reversed(named[1:]))
    if style == "optskip":
        return [args[0]], dict(named[1:])
    if style == "optgiven":
        return [], dict([("opt", 5)] + named)
    raise KeyError(style)


def make_call(call, salt=0):
    """Run one call of the model on a probe function guarded by the real decorators.
    Returns (outcome, ran, message): outcome = "returned" or the exception type name."""
    r = _real()
    n = call["n"]
    ran = []
    # arguments (a mixed vector may already be refused when it is built: that is its refusal)
    args = []
    for i, a in enumerate(call["args"]):
        try:
            args.append(build_arg(a, salt + i))
        except Exception as e:  # pylint: disable=broad-except
            if a["k"] == "vec" and a["mix"]:
                return type(e).__name__, False, f"(building the vector) {e}"
            raise _Outside(f"argument construction raised {type(e).__name__}") from e
    res = None
    if call["r"]["rk"] != "none":
        try:
            res = build_arg(call["r"]["res"], salt)
        except Exception as e:  # pylint: disable=broad-except
            if call["r"]["res"]["k"] == "vec" and call["r"]["res"]["mix"]:
                res = _Unbuildable(e)
            else:
                raise _Outside(f"result construction raised {type(e).__name__}") from e

    def result():
        ran.append(1)
        if isinstance(res, _Unbuildable):
            raise res.error
        return res

    opt = call["style"].startswith("opt")      # the probe has an unguarded defaulted parameter after p1
    if opt:
        if n == 1:
            def body(p1, opt=None):  # pylint: disable=unused-argument
                return result()
        elif n == 2:
            def body(p1, opt=None, p2=None):  # pylint: disable=unused-argument
                return result()
        else:
            def body(p1, opt=None, p2=None, p3=None):  # pylint: disable=unused-argument
                return result()
    elif n == 1:
        def body(p1):  # pylint: disable=unused-argument
            return result()
    elif n == 2:
        def body(p1, p2):  # pylint: disable=unused-argument
            return result()
    else:
        def body(p1, p2, p3):  # pylint: disable=unused-argument
            return result()
    f = body
    if call["r"]["rk"] == "dim":
        f = r["validate_output"](build_decl(call["r"]["rd"], salt))(f)
    elif call["r"]["rk"] == "same":
        f = r["validate_output_same"]("p1")(f)
    f = r["validate_input"](**{NAMES[i]: build_decl(call["decls"][i], salt + i) for i in range(n)})(f)
    pos, kw = pass_arguments(call["style"], args)
    try:
        with time_limit(10):
            f(*pos, **kw)
        return "returned", bool(ran), ""
    except HardTimeout:
        raise _Outside("gate call timed out")  # pylint: disable=raise-missing-from
    except Exception as e:  # pylint: disable=broad-except
        return type(e).__name__, bool(ran), str(e)[:160]


class _Outside(Exception):
    pass


class _Unbuildable:
    def __init__(self, error):
        self.error = error


def describe(a):
    if a["k"] == "seq":
        return "[" + ",".join(describe(x) for x in a["items"]) + "]"
    if a["k"] == "vec":
        return f"vec:{a['sys']}:{'/'.join(a['vals'])}:{a.get('via', 'infer')}" + (f":mix{a['mix']}" if a["mix"] else "")
    if a["k"] == "none":
        return "-"
    return f"{a['k']}:{a['val']}:{a['pre']}"


def full(a):
    if a["k"] == "seq":
        return "[" + ", ".join(full(x) for x in a["items"]) + "]"
    if a["k"] == "none":
        return "-"
    return describe(a) + "(" + dimstr(a["d"]) + ")"


def declstr(x):
    if x["k"] == "each":
        return "(" + ",".join(dimstr(d) for d in x["ds"]) + ")"
    return dimstr(x["d"]) if x["k"] == "one" else "-"


def replay_group(group):
    """group = (call, [final states of the model]) -> (call, verdict, detail)."""
    call, finals = group
    allowed = {("returned" if f["pc"] == "returned" else f["t"], bool(f["ran"])) for f in finals}
    salt = sum(len(json.dumps(a)) for a in call["args"])
    try:
        outcome, ran, msg = make_call(call, salt)
    except _Outside as e:
        return call, "outside", str(e), sorted(allowed)
    if (outcome, ran) in allowed:
        return call, "ok", (outcome, ran), sorted(allowed)
    return call, "violation", (outcome, ran, msg), sorted(allowed)


def call_text(call):
    s = ", ".join(f"{full(a)} vs {declstr(d)}" for a, d in zip(call["args"], call["decls"]))
    if call["r"]["rk"] == "dim":
        s += f" -> result {full(call['r']['res'])} vs {declstr(call['r']['rd'])}"
    elif call["r"]["rk"] == "same":
        s += f" -> result {full(call['r']['res'])} same as p1"
    return s + f" [{call['style']}]"


def call_key(call, allowed, observed):
    """Stable key that folds the dimension grid: argument spellings, what the model allows, what happened."""
    s = ", ".join(describe(a) for a in call["args"])
    if call["r"]["rk"] != "none":
        s += f" -> {call['r']['rk']} {describe(call['r']['res'])}"
    al = "|".join(f"{o}{'+ran' if r_ else ''}" for o, r_ in allowed)
    return f"probe {s}: model allows {al}, code {observed[0]}{'+ran' if observed[1] else ''}"


def enumerate_and_replay(run: Run, sc, cfgd: dict, pool, label: str) -> None:
    from concurrent.futures import ThreadPoolExecutor
    cfg = write_cfg(sc / f"gate_{label}.cfg", constants=cfgd, invariants=INVARIANTS)
    cfg2 = write_cfg(sc / f"gate_{label}_emit.cfg", constants=cfgd, invariants=["Emit"])
    with ThreadPoolExecutor(2) as ex:       # the two TLC runs are independent processes
        f1 = ex.submit(run_tlc, "Gate", cfg, sc, workers=8, coverage=True, allow_violation=False)
        f2 = ex.submit(run_tlc, "Gate", cfg2, sc, workers=1, allow_violation=False)
        res, res2 = f1.result(), f2.result()
    run.add_tlc(res, f"model check {label}: invariants {INVARIANTS}, bounds {_bounds(cfgd)}")
    groups = {}
    for p in res2.printed:
        k = json.dumps(p["call"], sort_keys=True)
        groups.setdefault(k, (p["call"], []))[1].append(p["fin"])
    run.coverage.setdefault("calls_emitted", {})[label] = len(groups)
    refusals = 0
    sampled = set()
    for call, verdict, detail, allowed in pmap(pool, replay_group, list(groups.values())):
        run.traces += 1
        run.count(call_text(call))
        if any(o != "returned" for o, _ in allowed):
            refusals += 1
        if any(o != "returned" for o, _ in allowed) and label not in sampled:
            sampled.add(label)
            run.sample({"call": call_text(call), "model": [list(x) for x in allowed]})
        if verdict == "outside":
            run.outside(detail)
        elif verdict == "violation":
            run.violation(call_key(call, allowed, detail),
                          f"{call_text(call)}: model allows {allowed}, code: {detail}",
                          {"kind": "probe", "call": call, "allowed": [list(x) for x in allowed],
                           "observed": list(detail)})
    run.coverage.setdefault("calls_with_a_refusal", {})[label] = refusals


def _bounds(c):
    def ex(s):
        return sorted((x - 8) / 2 for x in s)
    return (f"actual L{ex(c['ActL'])} M{ex(c['ActM'])} T{ex(c['ActT'])} angle{ex(c['ActA'])}; declared L{ex(c['DeclL'])} "
            f"M{ex(c['DeclM'])} T{ex(c['DeclT'])} angle{ex(c['DeclA'])}; values {sorted(c['Values'])} numbers "
            f"{sorted(c['NumValues'])} prefixes {sorted(c['Prefixes'])} shapes {sorted(c['Shapes'])} MaxSeq {c['MaxSeq']} "
            f"vectors {sorted(c['VecSystems'])} params<={c['MaxParams']} results {sorted(c['ResultKinds'])}")


# -------------------------------------------------------------------------------------------------
# real -> abstract (code -> spec)

def value_class(x):
    """zero / fin / inf / ninf / nan of a number, None if it is none of them."""
    r = _real()
    sp = r["sp"]
    try:
        x = sp.sympify(x)
    except Exception:  # pylint: disable=broad-except
        return None
    if x is sp.S.NaN:
        return "nan"
    if x is sp.S.Infinity:
        return "inf"
    if x is sp.S.NegativeInfinity:
        return "ninf"
    if not getattr(x, "is_number", False):
        return None
    if x.is_zero or x == 0:
        return "zero"
    if x.is_finite:
        return "fin"
    return None


def abstract_actual(obj):
    """Real argument -> abstract record of Gate.tla, or (None, reason) when outside the statement."""
    r = _real()
    sp = r["sp"]
    from collections.abc import Sequence
    from sympy.physics.units import Quantity as SymQuantity
    if isinstance(obj, r["QuantityVector"]):
        d = project_dim(obj.dimension)
        if d is None:
            return None, "vector dimension outside the eight base dimensions"
        sys_ = obj.coordinate_system.coord_system_type
        cs = []
        for i, c in enumerate(obj._inner_vector.components):  # pylint: disable=protected-access
            if r["CoordinateSystem"].is_angle_component(sys_, i):
                continue
            c_ = value_class(c)
            if c_ is None:
                return None, "vector component is not a number"
            cs.append(c_)
        return {"k": "vec", "d": d, "cs": cs}, None
    if isinstance(obj, SymQuantity):
        c = value_class(obj.scale_factor)
        d = project_dim(obj.dimension)
        if c is None or d is None:
            return None, "quantity with a non-numeric scale or a dimension outside the eight base dimensions"
        return {"k": "qty", "c": c, "d": d}, None
    if isinstance(obj, (str, bytes)):
        return None, "string argument"
    if isinstance(obj, Sequence):
        items = []
        for x in obj:
            a, why = abstract_actual(x)
            if a is None:
                return None, why
            if a["k"] == "seq":
                return None, "nested sequence"
            items.append(a)
        return {"k": "seq", "items": items}, None
    if isinstance(obj, (int, float, complex)) or (isinstance(obj, sp.Basic) and obj.is_number and not obj.atoms(SymQuantity)):
        c = value_class(obj)
        if c is None:
            return None, "number that is neither finite, zero, infinite nor NaN"
        return {"k": "num", "c": c, "d": D1VEC}, None
    if isinstance(obj, sp.Basic) and obj.atoms(SymQuantity) and not obj.free_symbols - obj.atoms(SymQuantity):
        try:
            with time_limit(5):
                q = r["Quantity"](obj)
        except BaseException:  # pylint: disable=broad-except
            return None, "expression of quantities that Quantity() does not accept"
        return abstract_actual(q)
    if not isinstance(obj, sp.Basic):          # numbers of other types (Fraction, Decimal, mpf, numpy scalars)
        try:
            as_sympy = sp.sympify(obj)
        except Exception:  # pylint: disable=broad-except
            as_sympy = None
        if isinstance(as_sympy, sp.Basic) and as_sympy.is_number:
            return abstract_actual(as_sympy)
    return None, f"argument of type {type(obj).__name__} (symbolic)"


def abstract_decl(decl):
    r = _real()
    from sympy.physics.units import Quantity as SymQuantity
    if isinstance(decl, SymQuantity):            # validate_output_same: the named argument itself
        a, why = abstract_actual(decl)
        if a is None:
            return None, why
        if a["c"] != "fin":
            return None, "result declared 'same as' a zero / infinite / NaN argument"
        return {"k": "one", "d": a["d"]}, None
    if isinstance(decl, (int, float)) or isinstance(decl, r["sp"].Number):
        if value_class(decl) != "fin":
            return None, "result declared 'same as' a zero / infinite / NaN argument"
        return {"k": "one", "d": D1VEC}, None
    dim = catalogue.declared_dimension(decl)
    if dim is None:
        return None, f"declaration of type {type(decl).__name__} without a dimension"
    if isinstance(dim, list):
        ds = []
        for d in dim:
            if catalogue.is_any_dimension(d):
                return None, "declared any_dimension"
            p = project_dim(d)
            if p is None:
                return None, "declared dimension outside the eight base dimensions"
            ds.append(p)
        return {"k": "each", "ds": ds}, None
    if catalogue.is_any_dimension(dim):
        return None, "declared any_dimension"
    p = project_dim(dim)
    if p is None:
        return None, "declared dimension outside the eight base dimensions"
    return {"k": "one", "d": p}, None


_ARGNAME = re.compile(r"Argument '([^']*)'")


def named_param(message: str):
    m = _ARGNAME.search(message or "")
    if not m:
        return None
    return re.sub(r"\[\d+\]$", "", m.group(1))


class _StopAtRun(BaseException):
    """Raised by the sink when the body is about to run: the gate has admitted the call."""


NONE_R = {"rk": "none", "res": {"k": "none"}, "rd": {"k": "none"}}


def record_call(g, kwargs, guards, how="kwrev"):
    """Call the published function, recording the gate's decisions up to the body.
    guards: judged guard names in signature order.  how: "pos" (all positional), "kw" (keywords in signature
    order) or "kwrev" (keywords in reverse signature order).  Returns (events, note)."""
    hooks = _real()["hooks"]
    raw = []

    def sink(kind, payload):
        if kind == "gate_check":
            raw.append(payload)
        elif kind == "gate_run":
            raise _StopAtRun()

    ran, exc = False, None
    hooks.sink = sink
    try:
        with time_limit(20):
            if how == "pos":
                g.wrapper(*[kwargs[p] for p in g.params])
            elif how == "kw":
                g.wrapper(**{p: kwargs[p] for p in g.params})
            else:
                g.wrapper(**{p: kwargs[p] for p in reversed(g.params)})
        ran = True            # no input layer: the body ran
    except _StopAtRun:
        ran = True
    except HardTimeout:
        return None, "catalogue call timed out"
    except Exception as e:  # pylint: disable=broad-except
        exc = e
    finally:
        hooks.sink = None
    ev = [{"ev": "bind"}]
    for p in raw:
        name = p["args"][2] if len(p["args"]) > 2 else p["kwargs"].get("param_name")
        if name == "return":
            break            # (only for functions without an input layer: the body ran)
        if name not in guards:
            continue         # a guard that is not judged (declared any_dimension, ...)
        err = p.get("error")
        if err is None:
            ev.append({"ev": "check", "p": guards.index(name) + 1, "out": "pass", "np": 0})
        else:
            nm = named_param(str(err))
            ev.append({"ev": "check", "p": guards.index(name) + 1, "out": type(err).__name__,
                       "np": guards.index(nm) + 1 if nm in guards else 0})
    if exc is not None:
        last = raw[-1].get("error") if raw else None
        if last is not exc:
            return None, f"call raised {type(exc).__name__} outside the gate (binding)"
        if ev[-1].get("out", "pass") == "pass":
            return None, "refusal on a guard that is not judged"
    if ran:
        ev.append({"ev": "run"})
    return ev, None


def wrong_dimensions(g, param, dim, tier):
    """Dimensions to offer instead of the declared one; the specification decides what must happen."""
    from sympy.physics import units
    cands = [units.length, units.time, units.mass, units.current, units.temperature]
    h = catalogue.stable_hash("wrong", g.qualname, param)
    out = [("x" + str(cands[h % 5].name), dim * cands[h % 5])]
    if tier == "thorough":
        out.append(("/" + str(cands[(h + 1) % 5].name), dim / cands[(h + 1) % 5]))
        out.append(("^2*time", dim**2 * units.time))
    return out


def function_traces(g, seed, tier):
    """All traces for one decorated function: [(variant, call, events)] and notes [(kind, text)]."""
    traces, notes = [], []
    for name in g.missing_guards:
        traces.append((f"guard:{name}", {"n": 1, "args": [{"k": "absent"}], "decls": [{"k": "one", "d": D1VEC}], "r": NONE_R},
                       [{"ev": "bind"}]))
    decls, guards = {}, []
    for p in g.params:
        if p not in g.inputs:
            continue
        d, why = abstract_decl(g.inputs[p])
        if d is None:
            notes.append(("outside", why))
            continue
        decls[p] = d
        guards.append(p)
    if not guards:
        return traces, notes
    try:
        base = catalogue.synth_arguments(seed, g, exact=False)
    except Exception as e:  # pylint: disable=broad-except
        notes.append(("outside", f"argument synthesis raised {type(e).__name__}"))
        return traces, notes
    for p, v in base.items():
        if v is catalogue.UNKNOWN:
            base[p] = None          # not guarded: the gate does not look at it

    def one(variant, kwargs, how="kwrev"):
        args = []
        for p in guards:
            a, why = abstract_actual(kwargs[p])
            if a is None:
                notes.append(("outside", why))
                return
            args.append(a)
        ev, why = record_call(g, kwargs, guards, how)
        if ev is None:
            notes.append(("outside", why))
            return
        traces.append((variant, {"n": len(guards), "args": args, "decls": [decls[p] for p in guards], "r": NONE_R}, ev))

    # the verdict must not depend on how the arguments are passed: valid arguments positionally and by keyword
    # in reverse signature order; every wrong-dimension argument by keyword in reverse signature order
    one("valid", dict(base), "pos")
    one("valid:kwrev", dict(base), "kwrev")
    from symplyphysics import Quantity
    for p in guards:
        dim = catalogue.declared_dimension(g.inputs[p])
        if isinstance(dim, list):
            continue
        variants = []
        try:
            for tag, wd in wrong_dimensions(g, p, dim, tier):
                bad = catalogue.synth_argument(seed + 1, g, p, dimension=wd, exact=False)
                shape = catalogue.shape_of(g, p)
                if shape in ("seq", "seqvec") and isinstance(base[p], list) and len(base[p]) > 1:
                    k = catalogue.stable_hash("idx", g.qualname, p) % len(base[p])
                    mixed = list(base[p])
                    mixed[k] = bad[k]
                    bad = mixed
                variants.append((f"{p}:{tag}", bad))
            if tier == "thorough":
                variants.append((f"{p}:number", 7 if catalogue.shape_of(g, p) not in ("seq", "seqvec", "vec") else [7, 7, 7]))
                variants.append((f"{p}:dimensionless", Quantity(3)))
        except Exception as e:  # pylint: disable=broad-except
            notes.append(("outside", f"building a wrong-dimension argument raised {type(e).__name__}"))
            continue
        for variant, bad in variants:
            kw = dict(base)
            kw[p] = bad
            one(variant, kw)
    return traces, notes


def catalogue_chunk(job):
    """Worker: import the modules of this chunk and record the traces of their decorated functions."""
    mods, seed, tier, only = job
    _real()
    out = []
    for name in mods:
        mod, err = catalogue.load(name)
        if mod is None:
            out.append({"module": name, "import_error": err})
            continue
        for g in catalogue.guarded_functions(mod):
            if only and g.name != only:
                continue
            traces, notes = function_traces(g, seed, tier)
            out.append({"module": name, "name": g.name, "traces": traces, "notes": notes,
                        "guards": len([p for p in g.inputs if p in g.params])})
    return out


def validate_traces(run: Run, sc, traces, label: str):
    """traces: [(key, text, replay, call, events)] -> TLC decides each with GateTrace.tla."""
    if not traces:
        return
    path = sc / f"traces_{label}.json"
    path.write_text(json.dumps([{"tid": i + 1, "call": t[3], "ev": t[4]} for i, t in enumerate(traces)]))
    cfg = write_cfg(sc / f"gatetrace_{label}.cfg", init="TInit", next_="TNext", constants=EMPTY,
                    invariants=["Accepted", "Stuck"])
    res = run_tlc("GateTrace", cfg, sc, workers=1, env={"TRACE_FILE": str(path)}, allow_violation=False)
    run.add_tlc(res, f"trace validation ({label}): {len(traces)} recorded traces, every event must be the Gate action with "
                     "the recorded outcome")
    accepted, stuck = set(), {}
    for line in res.raw_prints:
        v = parse_tla_tuple(line)
        if v[0] == "ACCEPT":
            accepted.add(v[1])
        elif v[0] == "STUCK":
            stuck.setdefault(v[1], v)
    for i, (key, text, replay, call, ev) in enumerate(traces):
        tid = i + 1
        run.traces += 1
        if tid in stuck:
            _, _, l, kind, pc, okp, okt, oku = stuck[tid]
            e = ev[l - 1]
            exp = [n for n, b in (("pass", okp), ("TypeError", okt), ("UnitsError", oku)) if b]
            if kind == "bind":
                what = "guard declaration names a parameter that does not exist"
            elif kind in ("check", "ret") and e["out"] in exp and e["out"] != "pass":
                what = f"refused with {e['out']} but the message does not name the refused parameter"
            elif kind in ("check", "ret"):
                what = f"specification allows {exp or 'no such step'}, code: {e['out']}"
            else:
                what = f"event '{kind}' is not a step of the specification in state {pc}"
            run.violation(key, f"{text}: {what} (event {l} of {ev})", replay)
        elif tid not in accepted:
            raise RuntimeError(f"trace {tid} neither accepted nor stuck")


def arg_text(a):
    if a["k"] == "seq":
        return "[" + ", ".join(arg_text(x) for x in a["items"]) + "]"
    if a["k"] == "vec":
        return f"vector({dimstr(a['d'])}; {'/'.join(a['cs'])})"
    if a["k"] in ("absent", "none"):
        return a["k"]
    return f"{a['k']}:{a['c']}({dimstr(a['d'])})"


def catalogue_clause(run: Run, sc, pool, tier: str, only=None):
    mods = catalogue.list_modules() if only is None else [only[0]]
    chunks = [mods[i::48] for i in range(48)] if only is None else [mods]
    jobs = [(c, run.seed, tier, only[1] if only else None) for c in chunks if c]
    traces = []
    nfun = nguards = 0
    for out in pmap(pool, catalogue_chunk, jobs, chunk=1):
        for rec in out:
            if "import_error" in rec:
                run.outside(f"catalogue module does not import ({rec['module'].rsplit('.', 1)[-1]}): {rec['import_error'][:80]}")
                continue
            nfun += 1
            nguards += rec["guards"]
            q = f"{rec['module']}.{rec['name']}"
            for kind, text in rec["notes"]:
                run.outside(f"catalogue: {text}")
            for variant, call, ev in rec["traces"]:
                run.count(f"{q}:{variant}")
                text = f"{q} [{variant}] " + ", ".join(f"{arg_text(a)} vs {declstr(d)}" for a, d in zip(call["args"], call["decls"]))
                traces.append((f"catalogue {q}:{variant}", text,
                               {"kind": "catalogue", "module": rec["module"], "name": rec["name"], "variant": variant},
                               call, ev))
                if not variant.startswith("valid") and len(run.samples) < 6:
                    run.sample({"trace": text, "events": ev})
    traces.sort(key=lambda t: t[0])
    run.coverage["catalogue"] = {"functions": nfun, "guarded_parameters": nguards, "traces": len(traces)}
    validate_traces(run, sc, traces, "catalogue")
    return traces


# -------------------------------------------------------------------------------------------------
# (b) gate decisions taken while the repository's own tests run


def suite_chunk(job):
    """Worker: run a share of the test files in-process with the sink installed; return distinct decisions."""
    files, = job
    import contextlib
    import io
    import pytest
    hooks = _real()["hooks"]
    seen = {}
    outside = {}

    def sink(kind, payload):
        if kind != "gate_check":
            return
        value, expected, pname, fname = (list(payload["args"]) + [None] * 4)[:4]
        a, why = abstract_actual(value)
        d, why2 = abstract_decl(expected) if a is not None else (None, None)
        if a is None or d is None:
            r_ = why or why2
            outside[r_] = outside.get(r_, 0) + 1
            return
        if d["k"] == "each" and (a["k"] != "seq" or len(a["items"]) != len(d["ds"])):
            outside["element-wise declaration and a value of another length"] = \
                outside.get("element-wise declaration and a value of another length", 0) + 1
            return
        err = payload.get("error")
        out = "pass" if err is None else type(err).__name__
        named = True if err is None else (named_param(str(err)) == pname)
        key = json.dumps([a, d, out, named, pname == "return"], sort_keys=True)
        if key not in seen:
            seen[key] = [0, f"{fname}({pname})"]
        seen[key][0] += 1

    hooks.sink = sink
    try:
        with contextlib.redirect_stdout(io.StringIO()), contextlib.redirect_stderr(io.StringIO()):
            pytest.main(["-q", "-p", "no:cacheprovider", "-p", "no:xdist", "--no-header",
                         "--rootdir", str(REPO), "-o", "addopts=", *files])
    finally:
        hooks.sink = None
    return [(k, v[0], v[1]) for k, v in seen.items()], outside


def suite_decisions(run: Run, sc, pool):
    files = sorted(str(p) for p in (REPO / "test").rglob("*_test.py") if "/docs/" not in str(p))
    jobs = [(files[i::32],) for i in range(32)]
    merged, total = {}, 0
    for decisions, outside in pmap(pool, suite_chunk, jobs, chunk=1):
        for r_, n in outside.items():
            run.outside(f"suite: {r_}", n)
        for k, n, where in decisions:
            total += n
            if k not in merged:
                merged[k] = [0, where]
            merged[k][0] += n
    traces = []
    for k, (n, where) in sorted(merged.items()):
        a, d, out, named, is_ret = json.loads(k)
        if is_ret:
            call = {"n": 0, "args": [], "decls": [], "r": {"rk": "dim", "res": a, "rd": d}}
            ev = [{"ev": "bind"}, {"ev": "run"}, {"ev": "ret", "out": out, "np": 0 if named else -1}]
        else:
            call = {"n": 1, "args": [a], "decls": [d], "r": NONE_R}
            ev = [{"ev": "bind"}, {"ev": "check", "p": 1, "out": out, "np": 1 if named else 0}]
        text = f"test-suite decision at {where} (x{n}): {arg_text(a)} vs {declstr(d)} -> {out}"
        key = f"suite {arg_text(a)} vs {declstr(d)} -> {out}{'' if named else ' (parameter not named)'}"
        traces.append((key, text, {"kind": "suite", "call": call, "ev": ev, "where": where}, call, ev))
    run.coverage["suite"] = {"test_files": len(files), "gate_decisions": total, "distinct_decisions": len(traces)}
    validate_traces(run, sc, traces, "suite")
    run.traces += total - len(traces)     # every recorded decision is an instance of a validated distinct one


# -------------------------------------------------------------------------------------------------


def main() -> int:
    tier = sys.argv[1] if len(sys.argv) > 1 else "quick"
    if tier == "--replay":
        return replay_file(sys.argv[2])
    run = Run(PID, tier)
    r = _real()
    if not r["hooks"].enabled:
        raise RuntimeError("SYMPLYPHYSICS_VERIF=1 is required (run through ./check)")
    with Scratch() as sc, make_pool() as pool:
        for label, cfgd in CFG[tier].items():
            enumerate_and_replay(run, sc, cfgd, pool, label)
        catalogue_clause(run, sc, pool, tier)
        if tier == "thorough":
            suite_decisions(run, sc, pool)
    run.assumptions += [
        "only the value class (zero / finite non-zero / +-infinity / NaN), the kind (bare number, quantity, sequence, "
        "vector) and the dimension vector of an argument matter to the specification; the projection real object -> "
        "abstract record is harness/c04.py abstract_actual (dimension via get_dimensional_dependencies)",
        "a dimensionless quantity against a dimensional declaration may be refused with either error type; a vector "
        "whose components are all zero and a result declared 'same as' a zero-valued argument are left open; declared "
        "any_dimension, symbolic arguments, dimensions with symbolic exponents are outside the statement (counted)",
        "the order in which guarded parameters are checked is not prescribed: with several wrong arguments any of "
        "their errors is accepted",
        "catalogue calls are stopped when the body is about to run (hook gate_run): the catalogue clause judges the "
        "input gate; result checks are judged on the probe functions and on the recorded test-suite decisions",
    ]
    return run.finish(exhaustive=True)


def replay_file(path: str) -> int:
    data = json.loads(open(path).read())
    case = data["case"]
    _real()
    if case["kind"] == "probe":
        allowed = {tuple(x) for x in case["allowed"]}
        outcome, ran, msg = make_call(case["call"], sum(len(json.dumps(a)) for a in case["call"]["args"]))
        bad = (outcome, ran) not in allowed
        print(f"replayed: {call_text(case['call'])}: model allows {sorted(allowed)}, code {(outcome, ran, msg)}")
    else:
        run = Run(PID, "replay")
        with Scratch() as sc, make_pool(2) as pool:
            if case["kind"] == "catalogue":
                traces = catalogue_clause(run, sc, pool, os.environ.get("VERIF_TIER_REPLAY", "thorough"),
                                          only=(case["module"], case["name"]))
                keys = {v["key"] for v in run.violations} | set(run.known_hit)
                bad = data["key"] in keys
                print(f"replayed {len(traces)} traces of {case['module']}.{case['name']}")
            else:
                validate_traces(run, sc, [(data["key"], "recorded decision", case, case["call"], case["ev"])], "replay")
                bad = bool(run.violations or run.known_hit)
                print("re-validated the recorded decision against the specification (the decision itself was taken "
                      f"by {case.get('where')} during the test run)")
    if bad:
        print(f"VIOLATION property={PID} replay={path}\n  {data['key']}")
    print("->", "violation" if bad else "ok")
    return 1 if bad else 0


if __name__ == "__main__":
    main_wrapper(main)
