"""C03: comparison of fingerprints BY VALUE (parent side).

Two histories may legitimately publish an equation in different but equivalent forms (other argument order,
sides swapped, both sides scaled); that is not a change of meaning.  A difference is reported only with a
WITNESS: a point of the fixed label -> number environment that satisfies one equation and not the other
(or residuals that are both non-zero-equivalent... see `equations`).  Everything else is "undecided".
"""
from __future__ import annotations

import hashlib
import math

REL = 1e-9


def close(a: float, b: float, rel: float = REL) -> bool:
    if a == b or (math.isnan(a) and math.isnan(b)):
        return True           # NaN is a value class of its own (a zero-valued argument in a denominator): NaN = NaN here
    if any(math.isnan(x) or math.isinf(x) for x in (a, b)):
        return False
    return abs(a - b) <= rel * max(abs(a), abs(b)) + 1e-300


def _cclose(a, b) -> bool:
    if close(a[0], b[0]) and close(a[1], b[1]):
        return True
    if any(math.isnan(x) or math.isinf(x) for x in (*a, *b)):
        return False
    return abs(complex(*a) - complex(*b)) <= REL * max(abs(complex(*a)), abs(complex(*b)))


def values(a, b) -> str:
    """Compare two value fingerprints (c03_lib.value_fp): 'same' | 'differs' | 'undecided'."""
    if a[0] == "U" or b[0] == "U":
        return "undecided"
    if a[0] != b[0]:
        return "differs"
    tag = a[0]
    if tag == "X" or tag == "B":
        return "same" if a[1] == b[1] else "differs"
    if tag == "Q":
        if a[2] != b[2]:
            return "differs" if a[2].startswith("deps:") and b[2].startswith("deps:") else "undecided"
        return "same" if _cclose(a[1], b[1]) else "differs"
    if tag == "N":
        return "same" if _cclose(a[1], b[1]) else "differs"
    if tag in ("L", "V"):
        if tag == "V" and a[2] != b[2] and not (a[2].startswith("deps:") and b[2].startswith("deps:")):
            return "undecided"
        if len(a[1]) != len(b[1]) or (tag == "V" and a[2] != b[2]):
            return "differs"
        res = [values(x, y) for x, y in zip(a[1], b[1])]
        if "differs" in res:
            return "differs"
        return "undecided" if "undecided" in res else "same"
    if tag == "E":
        return "same" if a[1] == b[1] else "undecided"
    return "undecided"


# ---------------------------------------------------------------------------------------------------
# equations


def _num_for(label: str, point: int) -> float:
    h = int.from_bytes(hashlib.sha256(f"{label}|{point}".encode()).digest()[:8], "big")
    return 0.6 + (h % 10_000) / 10_000 * 1.7          # in [0.6, 2.3): away from 0, 1 and from each other


def _parse(plain: str):
    import sympy as sp
    ns = {}
    exec("from sympy import *", ns)  # pylint: disable=exec-used
    return eval(plain, ns)  # pylint: disable=eval-used


def _residual(plain: str):
    """lhs - rhs with every undefined function replaced by a fixed concrete function of its arguments."""
    import sympy as sp
    from sympy.core.function import AppliedUndef
    eq = _parse(plain)
    r = eq.lhs - eq.rhs
    for f in sorted({a.func for a in r.atoms(AppliedUndef)}, key=lambda f_: f_.__name__):
        c = sp.Float(_num_for("fn:" + f.__name__, 0))

        def concrete(*args, _c=c):
            return _c * (1 + sum((i + 2) * a for i, a in enumerate(args)) / 7) ** 2
        r = r.replace(f, concrete)
    return r.doit()


def _eval(r, point: int, override=None):
    import sympy as sp
    env = {s: sp.Float(_num_for(s.name, point)) for s in r.free_symbols}
    if override:
        env.update(override)
    v = complex(sp.N(r.subs(env)))
    if math.isnan(v.real) or math.isnan(v.imag):
        raise ValueError("nan")
    return v


def equations(plain_a: str, plain_b: str, budget_s: float = 20) -> tuple[str, str]:
    """'same' | 'differs' | 'undecided' and an explanation, for two serialised equations."""
    from .common import HardTimeout, time_limit
    import sympy as sp
    try:
        with time_limit(budget_s):
            ra, rb = _residual(plain_a), _residual(plain_b)
            pts = (0, 1, 2)
            va = [_eval(ra, p) for p in pts]
            vb = [_eval(rb, p) for p in pts]
            if all(abs(x - y) <= 1e-9 * max(abs(x), abs(y), 1e-30) for x, y in zip(va, vb)):
                return "same", "lhs - rhs has the same value at 3 points"
            if all(abs(x + y) <= 1e-9 * max(abs(x), abs(y), 1e-30) for x, y in zip(va, vb)):
                return "same", "sides swapped: lhs - rhs changes sign only"
            if all(abs(y) > 1e-30 for y in vb):
                q = [x / y for x, y in zip(va, vb)]
                if all(abs(z - q[0]) <= 1e-9 * abs(q[0]) for z in q) and abs(q[0]) > 1e-30:
                    return "same", "both sides scaled by a constant"
            # witness search: a point on one equation's solution set that is off the other's
            for (r1, r2, who) in ((ra, rb, "first"), (rb, ra, "second")):
                for s in sorted(r1.free_symbols & r2.free_symbols, key=lambda s_: s_.name):
                    env = {t: sp.Float(_num_for(t.name, 0)) for t in (r1.free_symbols | r2.free_symbols) if t != s}
                    try:
                        roots = sp.solve(r1.subs(env), s)
                    except Exception:  # pylint: disable=broad-except
                        continue
                    for root in roots[:4]:
                        try:
                            z = complex(sp.N(root))
                        except Exception:  # pylint: disable=broad-except
                            continue
                        if abs(z.imag) > 1e-12 or abs(z.real) < 1e-9:
                            continue
                        at = dict(env)
                        at[s] = sp.Float(z.real)
                        v1 = complex(sp.N(r1.subs(at)))
                        v2 = complex(sp.N(r2.subs(at)))
                        scale = max(abs(complex(sp.N(r2.subs({**env, s: sp.Float(z.real * 1.37 + 0.11)})))), 1e-12)
                        if abs(v1) <= 1e-9 and abs(v2) > 1e-6 * scale:
                            return "differs", (f"the point {s.name}={z.real:.6g} (other labels at their fixed values) satisfies "
                                               f"the {who} equation (residual {abs(v1):.1e}) but not the other one "
                                               f"(residual {abs(v2):.3g})")
            return "undecided", "forms differ and no witness point was found"
    except HardTimeout:
        return "undecided", "numeric comparison timed out"
    except Exception as e:  # pylint: disable=broad-except
        return "undecided", f"cannot evaluate ({type(e).__name__})"
