"""C05: Quantity construction computes the SI value and dimension, or refuses.

spec -> code : TLC enumerates every behaviour of spec/QuantityCollect.tla (= every expression tree within
               the bounds); each is built with real SymPy nodes (as written, evaluate=False, and with
               ordinary evaluated construction) and given to the real Quantity(...); refusal, exact SI
               value and dimension must equal the model's.
code -> spec : post-order collector events recorded by hook H3 while real code runs are validated by
               spec/QuantityCollectTrace.tla (see c05_trace.py).
"""
from __future__ import annotations

import sys
from fractions import Fraction

from . import qc_common
from .common import HardTimeout, Run, main_wrapper, make_pool, pmap, time_limit
from .tlc import Scratch, run_tlc, write_cfg

PID = "C05"

CFG = {
    "quick": dict(
        MaxLen=5,
        LeafNames={"n0", "n2", "nm1", "nh", "oo", "nan", "m", "km", "s", "kg", "newton", "hz", "pkibi", "sym"},
        OpNames={"mul2", "add2", "add3", "pow", "abs", "min2", "max2", "exp", "atan2"}),
    "thorough": dict(
        MaxLen=5,
        LeafNames={"n0", "n1", "n2", "n3", "nm1", "nm2", "nh", "n4", "oo", "noo", "nan", "m", "km", "cm", "s", "minute",
                   "kg", "gram", "newton", "hz", "joule", "rad", "kilo", "milli", "pkilo", "pkibi", "q2m", "q4m2", "q0", "qang",
                   "sym", "deriv"},
        OpNames={"mul2", "mul3", "add2", "add3", "pow", "abs", "min2", "max2", "exp", "atan2"}),
}
# deeper, narrower configurations (run in addition)
DEEP = {
    "quick": [dict(MaxLen=7, LeafNames={"n0", "n2", "m", "hz", "sym"}, OpNames={"mul2", "add2", "pow", "min2", "exp"})],
    "thorough": [dict(MaxLen=7, LeafNames={"n0", "n2", "nm1", "m", "s", "hz", "sym"},
                      OpNames={"mul2", "add2", "pow", "abs", "min2"}),
                 dict(MaxLen=9, LeafNames={"n2", "m", "s"}, OpNames={"mul2", "add2", "pow"})],
}

INVARIANTS = ["TypeOK", "OrderIndependent", "OrderIndependent3", "AnyHasNoDimension"]

_LEAVES = None


def _init():
    global _LEAVES  # pylint: disable=global-statement
    _LEAVES = qc_common.setup()


def replay_one(case):
    """Replay one behaviour into the real code.  Returns a list of (mode, what, observed)."""
    import sympy as sp
    from symplyphysics import Quantity
    if _LEAVES is None:
        _init()
    prog, exp_c, exp_v, exp_d = case["p"], case["c"], case["v"], case["d"]
    out = []
    for mode in ("asis", "evaluated"):
        if mode == "evaluated" and exp_c == "err":
            continue   # SymPy's own evaluation may legitimately remove the offending node: nothing is required
        if mode == "evaluated" and case.get("z"):
            out.append((mode, "outside", "evaluated construction restructures around a computed zero/infinite intermediate"))
            continue
        if mode == "evaluated" and "q0" in prog:
            # a zero-valued quantity is a positive symbol to SymPy: oo * q0 -> oo, 0 ** q0 -> 0 before the library sees it
            out.append((mode, "outside", "SymPy evaluates around a zero-valued quantity symbol"))
            continue
        try:
            with time_limit(5):
                expr = qc_common.build(prog, _LEAVES, evaluate=(mode == "evaluated"))
        except HardTimeout:
            out.append((mode, "outside", "sympy construction timed out"))
            continue
        except Exception as e:  # pylint: disable=broad-except
            out.append((mode, "outside", f"sympy construction raised {type(e).__name__}"))
            continue
        try:
            with time_limit(5):
                q = Quantity(expr)
            obs = ("ok", q.scale_factor, q.dimension)
        except HardTimeout:
            out.append((mode, "timeout", "Quantity(...) did not return within 5 s"))
            continue
        except Exception as e:  # pylint: disable=broad-except
            obs = ("refused", type(e).__name__, str(e)[:120])
        if exp_c == "err":
            if mode == "asis" and obs[0] != "refused":
                out.append((mode, "violation", f"model refuses, code built scale={qc_common.s_(obs[1])} dim={qc_common.s_(obs[2])}"))
            continue   # evaluated construction may legitimately have removed the offending node
        if obs[0] == "refused":
            out.append((mode, "violation", f"model accepts ({exp_c}), code refused: {qc_common.s_(obs[1])}: {qc_common.s_(obs[2])}"))
            continue
        cls, frac = qc_common.classify(obs[1])
        if exp_c in ("zero", "inf", "ninf", "nan"):
            if cls != exp_c:
                out.append((mode, "violation", f"value class {cls} ({qc_common.s_(obs[1])}), model {exp_c}"))
            continue
        dim = qc_common.project_dim(obs[2])
        if dim != exp_d:
            out.append((mode, "violation", f"dimension {qc_common.s_(obs[2])} -> {dim}, model {exp_d}"))
            continue
        cls, frac = qc_common.classify(qc_common.to_si(obs[1], dim))
        if exp_c == "irr":
            if cls not in ("irr", "float"):
                out.append((mode, "violation", f"value class {cls} ({qc_common.s_(obs[1])}), model irrational finite"))
            continue
        want = Fraction(exp_v[0], exp_v[1])
        if cls == "fin":
            got = frac
            if got != want:
                out.append((mode, "violation", f"SI value {got} (scale {qc_common.s_(obs[1])}), model {want}"))
        elif cls == "float":
            got = frac
            if abs(got - want) > abs(want) * Fraction(1, 10**9):
                out.append((mode, "violation", f"SI value {float(got)} (scale {qc_common.s_(obs[1])}), model {want}"))
        else:
            out.append((mode, "violation", f"value class {cls} ({qc_common.s_(obs[1])}), model {want}"))
    return case, out


def enumerate_and_replay(run: Run, sc, cfgd: dict, pool, label: str) -> None:
    cfg = write_cfg(sc / f"qc_{label}.cfg", constants=cfgd, invariants=INVARIANTS, properties=["ErrSticky"])
    res = run_tlc("QuantityCollect", cfg, sc, workers=8, coverage=True, allow_violation=False)
    run.add_tlc(res, f"model check {label}: invariants {INVARIANTS} + ErrSticky, bounds {_bounds(cfgd)}")
    cfg2 = write_cfg(sc / f"qc_{label}_emit.cfg", constants=cfgd, invariants=["Emit"])
    res2 = run_tlc("QuantityCollect", cfg2, sc, workers=1, allow_violation=False)
    cases = res2.printed
    res2.output = ""
    run.coverage.setdefault("programs_emitted", {})[label] = len(cases)
    if label == "wide":
        run.cases_for_traces = cases
    refused = 0
    for case, out in pmap(pool, replay_one, cases):
        run.traces += 1
        key = " ".join(case["p"])
        run.count(key if len(case["p"]) > 1 else None)
        if case["c"] == "err":
            refused += 1
        if len(case["p"]) >= 4:
            run.sample({"program": key, "model": {"class": case["c"], "value": case["v"], "dim": case["d"]}})
        for mode, kind, what in out:
            if kind in ("outside", "timeout"):
                run.outside(f"{mode}: {what}")
                if kind == "timeout":
                    run.coverage.setdefault("timeouts", []).append(key)
            else:
                run.violation(f"{mode}: {key}", what, {"program": case["p"], "mode": mode, "model": case})
    run.coverage.setdefault("model_refusals_replayed", {})[label] = refused


def _bounds(c):
    return f"MaxLen={c['MaxLen']} leaves={len(c['LeafNames'])} ops={len(c['OpNames'])}"


def main() -> int:
    tier = sys.argv[1] if len(sys.argv) > 1 else "quick"
    if tier == "--replay":
        return replay_file(sys.argv[2])
    run = Run(PID, tier)
    _init()
    with Scratch() as sc, make_pool() as pool:
        enumerate_and_replay(run, sc, CFG[tier], pool, "wide")
        for i, c in enumerate(DEEP[tier]):
            enumerate_and_replay(run, sc, c, pool, f"deep{i}")
        from . import c05_trace
        c05_trace.validate(run, sc, tier)
    run.assumptions += [
        "SymPy scale factors are relative to gram; the SI value is scale/1000^(mass exponent) (projection in harness)",
        "irrational results are compared at class level only; infinite/NaN exponents, 0**negative, "
        "angle-dimension terms inside sums/min/max/function arguments are outside the decided fragment",
        "any exception raised by Quantity(...) counts as a refusal",
    ]
    return run.finish(exhaustive=True)


def replay_file(path: str) -> int:
    import json
    data = json.loads(open(path).read())
    case = data["case"]["model"]
    _, out = replay_one(case)
    bad = [o for o in out if o[1] == "violation" and o[0] == data["case"].get("mode", o[0])]
    for o in bad:
        print(f"VIOLATION property={PID} replay={path}\n  {o}")
    print("replayed:", " ".join(case["p"]), "->", "violation" if bad else "ok")
    return 1 if bad else 0


if __name__ == "__main__":
    main_wrapper(main)
