"""C08: the approximate-equality oracle accepts only same-dimension values within tolerance.

spec -> code : TLC enumerates every behaviour of spec/Approx.tla (comparisons straddling the tolerance boundary
               in both orders and several unit spellings, complex operands, dimension combinations, bare
               numbers with and without a supplied dimension, zero operands, vectors of 0..3 components with
               unequal lengths) and each is made with the real assert_equal / approx_equal_quantities /
               approx_equal_numbers / assert_equal_vectors; the outcome must be one the model allows.
code -> spec : verdicts of the real functions on seeded random operands (and, in the thorough tier, every
               assert_equal call made while the repository's own tests run) are recorded with integer
               values and spec/ApproxTrace.tla recomputes Allowed for each.
"""
from __future__ import annotations

import json
import random
import sys
from fractions import Fraction

from .common import REPO, HardTimeout, Run, main_wrapper, make_pool, pmap, time_limit
from .dimproj import D1VEC, dim_expr, dimstr, project_dim, unit_expr
from .tlc import Scratch, parse_tla_tuple, run_tlc, write_cfg

PID = "C08"
TICK = 1000       # ticks per SI unit in the generated comparisons

CFG = {
    "quick": dict(BaseMags={0, 1000, 1000000, 500000000}, Rels={"default", "r100", "rmil", "r0"}, Abss={"none", "a1", "a50"},
                  Spellings={"kilo", "milli"}, Families={"boundary", "tiny", "mass", "complex", "dimension", "vector", "vecmix"},
                  TickExps={40 - 13, 40 - 19, 40 - 30}, MaxVec=3),
    "thorough": dict(BaseMags={0, 1, 1000, 7919, 1000000, 31415926, 500000000}, Rels={"default", "r100", "rmil", "r5", "r0"},
                     Abss={"none", "a0", "a1", "a50"}, Spellings={"kilo", "milli"},
                     Families={"boundary", "tiny", "mass", "complex", "dimension", "vector", "vecmix"},
                     TickExps={40 - 10, 40 - 13, 40 - 16, 40 - 19, 40 - 24, 40 - 30}, MaxVec=4),
}
INVARIANTS = ["TypeOK", "Disjoint", "SymmetricWithoutAbs", "UnitIndependent", "ScaleIndependent", "DimensionGuard", "Monotone", "SharpForReals",
              "FinalIsAllowed", "PassNeedsAll"]
REL = {"default": None, "r100": Fraction(1, 100), "rmil": Fraction(1, 10**6), "r5": Fraction(1, 20), "r0": Fraction(0)}
ABS = {"none": None, "a0": 0, "a1": 1000, "a50": 50000}
LEN = [[1, 1]] + [[0, 1]] * 7

_R = None


def _real():
    global _R  # pylint: disable=global-statement
    if _R is None:
        import sympy as sp
        from sympy.physics import units
        from symplyphysics import Quantity, QuantityVector, assert_equal, assert_equal_vectors
        from symplyphysics.core import approx
        _R = dict(sp=sp, units=units, Quantity=Quantity, QuantityVector=QuantityVector, assert_equal=assert_equal,
                  assert_equal_vectors=assert_equal_vectors, approx=approx)
    return _R


def build_operand(o, tick=TICK):
    """Abstract operand -> real object: a Quantity of exactly re/tick + i*im/tick SI units, or a bare number."""
    r = _real()
    sp = r["sp"]
    val = sp.Rational(o["re"], tick) + sp.I * sp.Rational(o["im"], tick)
    if o["k"] == "num":
        return complex(o["re"] / tick, o["im"] / tick) if o["im"] else o["re"] / tick
    d = o["d"]
    spelling = o.get("u", "base")
    if spelling == "kilo" and d == LEN:
        expr = val / 1000 * r["units"].kilometer
    elif spelling == "milli" and d == LEN:
        expr = val * 1000 * r["units"].millimeter
    else:
        expr = val * unit_expr(d)
    if d[7][0] != 0 or val == 0:
        return r["Quantity"](expr, dimension=dim_expr(d))
    return r["Quantity"](expr)


def kwargs_of(case, tick=TICK):
    kw = {}
    rel = REL[case["rel"]] if isinstance(case["rel"], str) else Fraction(*case["rel"])
    if rel is not None:
        kw["relative_tolerance"] = float(rel)
    an = ABS[case["an"]] if isinstance(case["an"], str) else (None if case["an"] < 0 else case["an"])
    if an is not None:
        kw["absolute_tolerance"] = an / tick
    return kw


def outcome_of(fn):
    """-> ("pass" | "notpass", description)"""
    try:
        with time_limit(20):
            res = fn()
    except AssertionError:
        return "notpass", "AssertionError"
    except HardTimeout:
        raise
    except Exception as e:  # pylint: disable=broad-except
        return "notpass", f"raised {type(e).__name__}"
    if res is None or res is True:
        return "pass", "passed" if res is None else "True"
    return "notpass", "False"


def make_comparisons(case, tick=TICK):
    """The real calls that make this comparison: [(function name, thunk)]."""
    r = _real()
    kw = kwargs_of(case, tick)
    calls = []
    if case["fam"] in ("vector", "vecmix"):
        lv = r["QuantityVector"]([build_operand(o, tick) for o in case["l"]])
        rv = r["QuantityVector"]([build_operand(o, tick) for o in case["r"]])
        kwv = dict(kw)
        if case["dimarg"]:
            kwv["dimension"] = dim_expr(case["dimarg"])
        calls.append(("assert_equal_vectors", lambda: r["assert_equal_vectors"](lv, rv, **kwv)))
        return calls
    lo, ro = case["l"][0], case["r"][0]
    lhs, rhs = build_operand(lo, tick), build_operand(ro, tick)
    kwd = dict(kw)
    if case["dimarg"]:
        kwd["dimension"] = dim_expr(case["dimarg"])
    calls.append(("assert_equal", lambda: r["assert_equal"](lhs, rhs, **kwd)))
    if lo["k"] == "qty":
        calls.append(("approx_equal_quantities", lambda: r["approx"].approx_equal_quantities(lhs, rhs, **kwd)))
    if lo["k"] == "num" and ro["k"] == "num" and not lo["im"] and not ro["im"] and not case["dimarg"]:
        calls.append(("approx_equal_numbers", lambda: r["approx"].approx_equal_numbers(lhs, rhs, **kw)))
    return calls


def optext(o, tick=TICK):
    v = f"{o['re'] / tick:.12g}" + (f"{o['im'] / tick:+.12g}j" if o["im"] else "")
    if o["k"] == "num":
        return v
    return f"{v} [{dimstr(o['d'])}]" + (f" written in {o['u']}" if o.get("u", "base") != "base" else "")


def case_text(case, tick=TICK):
    s = "(" + ", ".join(optext(o, tick) for o in case["l"]) + ") vs (" + ", ".join(optext(o, tick) for o in case["r"]) + ")"
    kw = kwargs_of(case, tick)
    if case["dimarg"]:
        kw["dimension"] = dimstr(case["dimarg"])
    return f"{case['fam']}: {s} {kw if kw else '(default tolerance)'}"


def case_class(case):
    """The comparison without its magnitudes: the stable part of a violation key."""
    def dims(ops):
        return "/".join(sorted({("number" if o["k"] == "num" else dimstr(o["d"])) for o in ops})) or "empty"
    cplx = any(o["im"] for o in case["l"] + case["r"])
    an = ABS[case["an"]] if isinstance(case["an"], str) else (None if case["an"] < 0 else case["an"])
    s = f"{dims(case['l'])} vs {dims(case['r'])}"
    if case["dimarg"]:
        s += f" under dimension {dimstr(case['dimarg'])}"
    if len(case["l"]) != len(case["r"]):
        s += f", lengths {len(case['l'])} and {len(case['r'])}"
    return s + f", absolute tolerance {'given' if an is not None else 'not given'}, {'complex' if cplx else 'real'} values"


def tick_of(case):
    """Ticks per SI unit: 1000 in general, 1000 * 10^-s10 in the tiny family."""
    return TICK * 10 ** (-case.get("s10", 0))


def replay_group(group):
    case, verdicts = group
    allowed = sorted(set(verdicts))
    out = []
    try:
        for name, thunk in make_comparisons(case, tick_of(case)):
            got, how = outcome_of(thunk)
            out.append((name, got, how))
    except HardTimeout:
        return case, allowed, "outside", "comparison timed out"
    except Exception as e:  # pylint: disable=broad-except
        return case, allowed, "outside", f"building the operands raised {type(e).__name__}: {str(e)[:80]}"
    bad = [(n, g, h) for n, g, h in out if g not in allowed]
    return case, allowed, ("violation" if bad else "ok"), (bad or out)


def enumerate_and_replay(run: Run, sc, cfgd, pool):
    from concurrent.futures import ThreadPoolExecutor
    cfg = write_cfg(sc / "approx.cfg", constants=cfgd, invariants=INVARIANTS)
    cfg2 = write_cfg(sc / "approx_emit.cfg", constants=cfgd, invariants=["Emit"])
    with ThreadPoolExecutor(2) as ex:
        f1 = ex.submit(run_tlc, "Approx", cfg, sc, workers=8, coverage=True, allow_violation=False)
        f2 = ex.submit(run_tlc, "Approx", cfg2, sc, workers=1, allow_violation=False)
        res, res2 = f1.result(), f2.result()
    run.add_tlc(res, f"model check: invariants {INVARIANTS}; magnitudes (ticks of 1/{TICK}) {sorted(cfgd['BaseMags'])}, "
                     f"relative {sorted(cfgd['Rels'])}, absolute {sorted(cfgd['Abss'])}, families {sorted(cfgd['Families'])}, "
                     f"vectors of 0..{cfgd['MaxVec']} components")
    groups = {}
    for p in res2.printed:
        groups.setdefault(json.dumps(p["case"], sort_keys=True), (p["case"], []))[1].append(p["verdict"])
    fams, calls, open_cases = {}, 0, 0
    for case, allowed, verdict, detail in pmap(pool, replay_group, list(groups.values())):
        run.traces += 1
        text = case_text(case, tick_of(case))
        run.count(text)
        fams[case["fam"]] = fams.get(case["fam"], 0) + 1
        if len(allowed) > 1:
            open_cases += 1
        if fams[case["fam"]] <= 1:
            run.sample({"case": text, "model allows": allowed})
        if verdict == "outside":
            run.outside(detail)
            continue
        calls += len(detail) if verdict == "ok" else 0
        if verdict == "violation":
            for name, got, how in detail:
                run.violation(f"{name}: {case_class(case)}: model allows {'/'.join(allowed)}, code {got}",
                              f"{text}: model allows {allowed}, {name} {how} ({got})",
                              {"kind": "replay", "case": case, "allowed": allowed, "function": name})
    run.coverage["comparisons_replayed"] = fams
    run.coverage["comparisons_left_open_by_the_statement"] = open_cases


# -------------------------------------------------------------------------------------------------
# code -> spec


def random_record(rng: random.Random):
    """One random comparison in integer ticks (tick = 1/1000)."""
    rel_name = rng.choice(["default", "default", "r100", "rmil", "r5", "r0"])
    rel = Fraction(1, 1000) if REL[rel_name] is None else REL[rel_name]
    an = rng.choice([-1, -1, -1, 0, rng.randrange(1, 10**5)])
    dims = [LEN, [[0, 1], [0, 1], [1, 1]] + [[0, 1]] * 5, D1VEC, [[1, 1]] + [[0, 1]] * 6 + [[1, 1]],
            [[2, 1], [1, 1]] + [[0, 1]] * 6, [[0, 1], [1, 1]] + [[0, 1]] * 6, [[0, 1], [-1, 1]] + [[0, 1]] * 6]

    def value_near(b):
        tol = max(int(rel * abs(b)), an if an > 0 else 0, 1)
        f = rng.choice([0, 0.2, 0.9, 0.99, 1.01, 1.1, 2, 10, 1000])
        v = b + rng.choice([1, -1]) * int(tol * f) + rng.choice([0, 0, 1, -1])
        return v if abs(v) < 5 * 10**8 else b          # keep every sum inside 32-bit integers

    n = rng.choice([1, 1, 1, 1, 2, 3])
    ld = rng.choice(dims)
    rd = ld if rng.random() < 0.8 else rng.choice(dims)
    cplx = rng.random() < 0.25
    lops, rops = [], []
    for _ in range(n):
        b = rng.choice([1, -1]) * rng.choice([0, rng.randrange(1, 10**3), rng.randrange(10**3, 10**6), rng.randrange(10**6, 4 * 10**8)])
        ib = rng.choice([0, b, rng.randrange(1, 10**6)]) if cplx else 0
        lops.append({"k": "qty", "re": b, "im": ib, "d": ld})
        rops.append({"k": "qty", "re": value_near(b), "im": value_near(ib) if cplx else 0, "d": rd})
    fam = "scalar"
    dimarg = rng.choice([ld, rd]) if rng.random() < 0.15 else []      # also supplied when rhs is a quantity
    if n > 1:
        fam = "vector"
        if rng.random() < 0.2:
            rops = rops[:-1]
        for ops in (lops, rops):      # a vector takes its dimension from its first non-zero component
            if ops and ops[0]["re"] == 0 and ops[0]["im"] == 0:
                ops[0]["re"] = 1
    else:
        kind = rng.random()
        if kind < 0.15:
            rops[0].update(k="num", d=D1VEC)
            dimarg = rng.choice([[], ld, rd])
        elif kind < 0.2:
            lops[0].update(k="num", d=D1VEC)
            rops[0].update(k="num", d=D1VEC)
    return {"fam": fam, "l": lops, "r": rops, "rel": rel_name, "an": an, "dimarg": dimarg}


def record_random(job):
    seed, count = job
    rng = random.Random(seed)
    out = []
    while len(out) < count:
        case = random_record(rng)
        try:
            for name, thunk in make_comparisons(case):
                got, how = outcome_of(thunk)
                out.append({"case": case, "fn": name, "out": got, "how": how, "tick": TICK})
        except HardTimeout:
            continue
        except Exception:  # pylint: disable=broad-except
            continue        # operands the library cannot build (e.g. a vector of mixed dimensions)
    return out


def to_ticks(lhs, rhs, kwargs):
    """A recorded assert_equal call with arbitrary float operands -> integer record, or (None, reason)."""
    r = _real()
    sp = r["sp"]
    from sympy.physics.units import Quantity as SymQuantity
    from .qc_common import to_si

    def operand(x, is_right):
        if not isinstance(x, SymQuantity) and isinstance(x, sp.Basic) and x.atoms(SymQuantity):
            try:
                x = r["Quantity"](x)          # an expression of units, as assert_equal itself reads it
            except Exception:  # pylint: disable=broad-except
                return None
        if isinstance(x, SymQuantity):
            d = project_dim(x.dimension)
            if d is None:
                return None
            v = complex(to_si(x.scale_factor, d))
            return {"k": "qty", "v": v, "d": d}
        try:
            return {"k": "num", "v": complex(x), "d": D1VEC}
        except Exception:  # pylint: disable=broad-except
            return None

    a, b = operand(lhs, False), operand(rhs, True)
    if a is None or b is None:
        return None, "operand that is neither a number nor a quantity over the eight base dimensions"
    for o in (a, b):
        if o["v"] != o["v"] or abs(o["v"]) == float("inf"):
            return None, "infinite or NaN operand"
    rel = kwargs.get("relative_tolerance")
    relf = Fraction(1, 1000) if rel is None else Fraction(str(rel))
    if relf < 0 or relf.numerator > 20 or relf.denominator > 10**7:
        return None, "relative tolerance not a small fraction"
    m = max(abs(a["v"].real), abs(a["v"].imag), abs(b["v"].real), abs(b["v"].imag))
    ab = kwargs.get("absolute_tolerance")
    if m == 0:
        tick = Fraction(1)
    else:
        import math
        tick = Fraction(10) ** (math.floor(math.log10(m)) - 6)          # largest part ~ 10^6..10^7 ticks
    an = -1
    if ab is not None:
        an_exact = Fraction(ab) / tick
        if an_exact > 10**8:
            return None, "absolute tolerance far above the operands"
        an = round(an_exact)
        if an_exact != an and an_exact < 1000:
            return None, "absolute tolerance below the resolution of the integer scale"

    def part(x):
        return round(Fraction(x) / tick)

    ops = []
    for o in (a, b):
        ops.append({"k": o["k"], "re": part(o["v"].real), "im": part(o["v"].imag), "d": o["d"]})
    # rounding moves every value by at most half a tick: too close to a boundary -> not representable
    raw = {"re": (a["v"].real, b["v"].real), "im": (a["v"].imag, b["v"].imag)}
    for p in ("re", "im"):
        if raw[p][0] == raw[p][1]:
            continue                  # exactly equal parts: nothing is rounded away
        dl = abs(ops[0][p] - ops[1][p])
        for mag in (max(abs(ops[0][p]), abs(ops[1][p])),
                    max(abs(ops[0]["re"]) + abs(ops[0]["im"]), abs(ops[1]["re"]) + abs(ops[1]["im"]))):
            if abs(dl - relf * mag) <= 3:
                return None, "within rounding distance of the tolerance boundary"
        if an >= 0 and abs(dl - an) <= 3:
            return None, "within rounding distance of the tolerance boundary"
    dim = kwargs.get("dimension")
    dimarg = []
    if dim is not None and b["k"] == "num":
        dimarg = project_dim(dim)
        if dimarg is None:
            return None, "supplied dimension outside the eight base dimensions"
    return {"fam": "scalar", "l": [ops[0]], "r": [ops[1]], "rel": [relf.numerator, relf.denominator], "an": an,
            "dimarg": dimarg}, None


def suite_chunk(job):
    """Worker: run a share of the repository's tests with assert_equal wrapped; return the recorded verdicts."""
    files, = job
    import contextlib
    import io
    import pytest
    import symplyphysics
    r = _real()
    approx = r["approx"]
    original = approx.assert_equal
    recs, outside = {}, {}

    def wrapper(lhs, rhs, **kwargs):
        try:
            original(lhs, rhs, **kwargs)
            out = "pass"
        except BaseException as e:  # pylint: disable=broad-except
            out = "notpass" if isinstance(e, Exception) else None
            raise
        finally:
            if out is not None:
                try:
                    rec, why = to_ticks(lhs, rhs, kwargs)
                except Exception as e:  # pylint: disable=broad-except
                    rec, why = None, f"abstraction raised {type(e).__name__}"
                if rec is None:
                    outside[why] = outside.get(why, 0) + 1
                else:
                    k = json.dumps([rec, out], sort_keys=True)
                    recs[k] = recs.get(k, 0) + 1

    approx.assert_equal = wrapper
    symplyphysics.assert_equal = wrapper
    try:
        with contextlib.redirect_stdout(io.StringIO()), contextlib.redirect_stderr(io.StringIO()):
            pytest.main(["-q", "-p", "no:cacheprovider", "-p", "no:xdist", "--no-header", "--rootdir", str(REPO),
                         "-o", "addopts=", *files])
    finally:
        approx.assert_equal = original
        symplyphysics.assert_equal = original
    return [(k, n) for k, n in recs.items()], outside


def validate_records(run: Run, sc, recs, label):
    """recs: [{"case", "fn", "out", "text"}] -> TLC recomputes Allowed for each."""
    if not recs:
        return
    rows = []
    for i, x in enumerate(recs):
        c = x["case"]
        rel = REL[c["rel"]] if isinstance(c["rel"], str) else Fraction(*c["rel"])
        rel = Fraction(1, 1000) if rel is None else rel
        an = ABS[c["an"]] if isinstance(c["an"], str) else c["an"]
        rows.append({"id": i + 1, "l": [{"k": o["k"], "re": o["re"], "im": o["im"], "d": o["d"]} for o in c["l"]],
                     "r": [{"k": o["k"], "re": o["re"], "im": o["im"], "d": o["d"]} for o in c["r"]],
                     "rel": [rel.numerator, rel.denominator], "an": -1 if an is None else an, "dimarg": c["dimarg"],
                     "out": x["out"]})
    path = sc / f"verdicts_{label}.json"
    path.write_text(json.dumps(rows))
    cfg = write_cfg(sc / f"approxtrace_{label}.cfg", init="TInit", next_="TNext",
                    constants=dict(BaseMags=set(), Rels=set(), Abss=set(), Spellings=set(), Families=set(), TickExps=set(),
                                   MaxVec=0),
                    invariants=["Validate", "Checked"])
    res = run_tlc("ApproxTrace", cfg, sc, workers=1, env={"TRACE_FILE": str(path)}, allow_violation=False)
    run.add_tlc(res, f"trace validation ({label}): {len(rows)} recorded verdicts of the real oracle against Allowed")
    bad, checked = {}, None
    for line in res.raw_prints:
        v = parse_tla_tuple(line)
        if v[0] == "BAD":
            bad[v[1]] = v
        elif v[0] == "CHECKED":
            checked = v[1]
    if checked != len(rows):
        raise RuntimeError(f"ApproxTrace checked {checked} of {len(rows)} records")
    for i, x in enumerate(recs):
        run.traces += x.get("n", 1)
        run.count(f"{label} {x['text']}")
        if i + 1 in bad:
            _, _, okp, okn = bad[i + 1]
            exp = [n for n, b in (("pass", okp), ("notpass", okn)) if b]
            run.violation(f"{x['fn']}: {case_class(x['case'])}: model allows {'/'.join(sorted(exp))}, code {x['out']}",
                          f"{label}: {x['text']}: specification allows {exp}, {x['fn']} gave {x['out']} ({x.get('how', '')})", {"kind": label, "case": x["case"], "function": x["fn"], "out": x["out"],
                                                    "tick": x.get("tick", TICK)})


def trace_validation(run: Run, sc, pool, tier):
    n = 4000 if tier == "quick" else 40000
    jobs = [(run.seed * 1000 + i, n // 32) for i in range(32)]
    recs = []
    for out in pmap(pool, record_random, jobs, chunk=1):
        for x in out:
            x["text"] = case_text(x["case"])
            recs.append(x)
    recs.sort(key=lambda x: (x["text"], x["fn"]))
    run.coverage["random_comparisons_recorded"] = len(recs)
    run.sample({"recorded": recs[0]["text"], "function": recs[0]["fn"], "verdict": recs[0]["out"]})
    validate_records(run, sc, recs, "random")
    if tier != "thorough":
        return
    files = sorted(str(p) for p in (REPO / "test").rglob("*_test.py") if "/docs/" not in str(p))
    jobs = [(files[i::32],) for i in range(32)]
    merged, total = {}, 0
    for decisions, outside in pmap(pool, suite_chunk, jobs, chunk=1):
        for why, k in outside.items():
            run.outside(f"suite: {why}", k)
        for k, cnt in decisions:
            merged[k] = merged.get(k, 0) + cnt
            total += cnt
    recs = []
    for k, cnt in sorted(merged.items()):
        case, out = json.loads(k)
        text = f"(ticks) {case['l'][0]['re']}{case['l'][0]['im']:+d}j vs {case['r'][0]['re']}{case['r'][0]['im']:+d}j " \
               f"[{dimstr(case['l'][0]['d'])} vs {dimstr(case['r'][0]['d'])}] rel {case['rel']} abs {case['an']}"
        recs.append({"case": case, "fn": "assert_equal", "out": out, "text": text, "n": cnt, "how": f"x{cnt} in the test-suite"})
    run.coverage["suite"] = {"test_files": len(files), "assert_equal_calls": total, "distinct": len(recs)}
    validate_records(run, sc, recs, "suite")


def main() -> int:
    tier = sys.argv[1] if len(sys.argv) > 1 else "quick"
    if tier == "--replay":
        return replay_file(sys.argv[2])
    run = Run(PID, tier)
    _real()
    with Scratch() as sc, make_pool() as pool:
        enumerate_and_replay(run, sc, CFG[tier], pool)
        trace_validation(run, sc, pool, tier)
    run.assumptions += [
        "values are integer ticks (1/1000 SI unit in generated comparisons; a per-call power of ten for recorded test-suite "
        "calls): operands are built as exact Rationals, the real functions convert them to floats",
        "exact tolerance boundaries are left open (binary floating point); the nearest generated neighbours are one tick "
        "(>= 1e-9 relative) away from the boundary",
        "an AssertionError, a False result and any raised exception all count as 'fails'; a zero operand of another "
        "dimension is left open (zero matches any dimension in this library)",
        "for complex operands 'the larger magnitude' is read as the complex magnitude bound |re|+|im| for required "
        "failures and as the compared part's magnitude for required passes",
    ]
    return run.finish(exhaustive=True)


def replay_file(path: str) -> int:
    data = json.loads(open(path).read())
    case = data["case"]
    _real()
    if case["kind"] == "suite":
        print("a verdict recorded during the test run cannot be re-made from the record alone; re-run ./check C08 thorough")
        return 1
    c = case["case"]
    bad = False
    if case["kind"] == "replay":
        allowed = case["allowed"]
    else:
        run = Run(PID, "replay")
        with Scratch() as sc:
            rec = {"case": c, "fn": case["function"], "out": case["out"], "text": case_text(c, tick_of(c))}
            for name, thunk in make_comparisons(c, tick_of(c)):
                if name == case["function"]:
                    rec["out"], rec["how"] = outcome_of(thunk)
            validate_records(run, sc, [rec], "random")
        bad = bool(run.violations or run.known_hit)
        print(f"replayed: {case_text(c, tick_of(c))}: {case['function']} -> {rec['out']}")
        allowed = None
    if allowed is not None:
        for name, thunk in make_comparisons(c, tick_of(c)):
            if name != case["function"]:
                continue
            got, how = outcome_of(thunk)
            print(f"replayed: {case_text(c, tick_of(c))}: model allows {allowed}, {name} {how} ({got})")
            bad = got not in allowed
    if bad:
        print(f"VIOLATION property={PID} replay={path}\n  {data['key']}")
    print("->", "violation" if bad else "ok")
    return 1 if bad else 0


if __name__ == "__main__":
    main_wrapper(main)
