"""C16: vector-equation rearrangement is equivalence-preserving.

model        : spec/VecSolve.tla - equations as term lists <<coefficient, vector, side>>; TLC enumerates the shapes
               (1..MaxTerms terms, kind and number of the unknown's coefficients, unknown inside a product, Eq vs
               expression incl. the solved forms Eq(u, ...) with u again on the right, factor reduction on/off,
               non-vector expressions, scalar / radical equations, linear systems with the unknowns requested in
               every order, functions applied to both sides of vector equations and of bare scalar expressions)
               and checks the statement's own consequences on the model (MoveNegates, Equivalent, Solution,
               RefusalRule, RadicalsMeaningful, SystemsMeaningful).
spec -> code : every shape is built with real VectorSymbols and given to solve_for_vector / solve_for_scalar /
               apply; both sides of the result are evaluated by the independent evaluator of harness/vecexpr.py
               under two integer assignments and compared with the model's expectation
               (lhs - rhs in {+-E/k} resp. {+-E}; right-hand side = the solution when the unknown occurs once;
               refusal by exception; f applied to both sides; returned equations satisfied by their solutions).
code -> spec : every call is recorded (equation, outcome, returned sides as programs) and decided by
               spec/VecSolveTrace.tla (TLC) in exact rational arithmetic.
"""
from __future__ import annotations

import json
import sys
import time
from concurrent.futures import ThreadPoolExecutor

from . import vecexpr as vx
from .common import HardTimeout, Run, main_wrapper, make_pool, pmap, time_limit
from .tlc import Scratch, parse_tla_tuple, run_tlc, write_cfg

PID = "C16"

U_COEFS = ["one", "m1", "two", "x", "xy", "xpy", "xinv", "dab", "duu"]
OTHERS = [("one", "a"), ("m1", "a"), ("x", "a"), ("one", "b"), ("x", "b"), ("one", "ab"), ("x", "ab"), ("one", "ua"),
          ("duu", "a")]
OTHERS_QUICK = [("one", "a"), ("x", "a"), ("m1", "b"), ("x", "ab"), ("one", "ua"), ("duu", "a")]
OTHERS_MORE = OTHERS + [("dab", "b"), ("xinv", "ab"), ("xpy", "a"), ("m1", "ua")]


def _kinds(ucoefs, others):
    return tuple((c, "u") for c in ucoefs) + tuple(others)


# sqrt(p x + q) = x + r: squaring gives two integer candidates, the smaller of which is not a root
# a11 x + a12 y = c1 t, a21 x + a22 y = c2 t (second row 0: one equation, two unknowns); x != y in every solution
SYSTEMS = [(1, 2, 4, 1, -1, 1), (2, 1, 1, 1, 3, -2), (1, 1, 1, 0, 0, 0), (3, -1, 5, 1, 1, 3), (1, 1, 1, 1, -1, 2),
           (2, -3, 1, 0, 0, 0)]
RADICALS = [(1, 0, -2), (2, 3, 0), (1, 6, 0), (1, 1, -1), (1, 2, 0), (4, 5, 0), (3, 1, -1)]

CFG = {
    "quick": dict(TermKinds=_kinds(U_COEFS, OTHERS_QUICK), MaxTerms=3, MaxU=2, Forms={"expr", "eqL", "eqU", "eqO", "eqS", "eqSS"},
                  ApplyFns={"dota", "plusu", "norm"}, ApplyMaxTerms=2,
                  NonVecKinds={"nu", "dua", "x", "xdab", "divscaled", "divscaledu", "divsum"}, ScalK2={"zero", "one"}, ScalK1={"zero", "one", "y", "yinv"},
                  ScalK0={"one", "y", "my2", "m1", "dab"}, RadicalEqs=set(RADICALS[:4]), Systems=set(SYSTEMS[:3]), PowerEqs={"prodsqrt"},
                  ScalApplyFns={"twice", "lin", "sq"}, Assigns=vx.ASSIGNS),
    "thorough": dict(TermKinds=_kinds(U_COEFS, OTHERS_MORE), MaxTerms=4, MaxU=2, Forms={"expr", "eqL", "eqU", "eqO", "eqS", "eqSS"},
                     ApplyFns={"dota", "twice", "plusu", "norm", "crossb"}, ApplyMaxTerms=2,
                     NonVecKinds={"nu", "dua", "x", "xdab", "divscaled", "divscaledu", "divsum"}, ScalK2={"zero", "one", "y"},
                     ScalK1={"zero", "one", "y", "yinv", "dab", "two"},
                     ScalK0={"one", "y", "my2", "m1", "dab", "duu", "zero"}, RadicalEqs=set(RADICALS), Systems=set(SYSTEMS), PowerEqs={"prodsqrt"},
                     ScalApplyFns={"twice", "lin", "sq"}, Assigns=vx.ASSIGNS),
}
INVARIANTS = ["TypeOK", "MoveNegates", "Equivalent", "Solution", "RefusalRule", "RadicalsMeaningful", "SystemsMeaningful", "PowersMeaningful"]
ORDERS = {"quick": [(0, 1, 2, 3), (2, 1, 0, 3)], "thorough": [(0, 1, 2, 3), (2, 1, 0, 3), (1, 2, 0, 3)]}
SHARDS = {"quick": 2, "thorough": 8}
LIMIT_S = 20
NAMES = {1: "u", 2: "a", 3: "b", 4: "c"}

_POOL = None


def _init():
    global _POOL  # pylint: disable=global-statement
    if _POOL is None:
        import symplyphysics.core.experimental.solvers  # noqa: F401  pylint: disable=unused-import,import-outside-toplevel
        _POOL = vx.Pool()
    return _POOL


def _sum(terms):
    import sympy as sp
    return sp.Add(*terms) if terms else sp.S.Zero


def build_equation(shape, leaves):
    """The real object given to the library for one emitted shape."""
    import sympy as sp
    form = shape["form"]
    if shape["mode"] == "vec":
        left, right = [], []
        for cparts, vprog, side in shape["ts"]:
            term = sp.Add(*(vx.build(c, leaves, True) for c in cparts)) * vx.build(vprog, leaves, True)
            (left if side == "l" else right).append(term)
        if form == "expr":
            return _sum(left)
        return sp.Eq(_sum(left), _sum(right), evaluate=False)
    if shape["mode"] == "nonvec":
        expr = vx.build(shape["ts"][0], leaves, True)
        if form == "eqS":
            return sp.Eq(leaves["vec"][1], expr, evaluate=False)
        return expr if form == "expr" else sp.Eq(expr, 0, evaluate=False)
    x = leaves["scal"][1]
    if shape["mode"] == "power":
        y, t = leaves["scal"][2], leaves["scal"][3]
        lhs = x / sp.sqrt(y) if shape["ts"][0] == "prodsqrt" else x * sp.sqrt(y)
        return lhs - sp.sqrt(t) if form == "expr" else sp.Eq(lhs, sp.sqrt(t), evaluate=False)
    if shape["mode"] == "system":
        sys_, _ = shape["ts"]
        y, t = leaves["scal"][2], leaves["scal"][3]
        eqs = [sp.Eq(sys_[o] * x + sys_[o + 1] * y, sys_[o + 2] * t, evaluate=False) for o in (0, 3)
               if any(sys_[o:o + 3])]
        return eqs if len(eqs) > 1 else eqs[0]
    if shape["mode"] == "radical":
        p_, q_, r_ = (vx.build(p, leaves, True) for p in shape["ts"])
        if form == "expr":
            return sp.sqrt(p_ * x + q_) - x - r_
        return sp.Eq(sp.sqrt(p_ * x + q_), x + r_, evaluate=False)
    k2, k1, k0 = (vx.build(p, leaves, True) for p in shape["ts"])
    if form == "expr":
        return k2 * x**2 + k1 * x + k0
    if form == "eqL":
        return sp.Eq(k2 * x**2 + k1 * x + k0, 0, evaluate=False)
    return sp.Eq(k2 * x**2 + k1 * x, -k0, evaluate=False)


def apply_fn(name, leaves):
    from symplyphysics.core.experimental.vectors import VectorCross, VectorDot, VectorNorm
    u, a, b = (leaves["vec"][i] for i in (1, 2, 3))
    return {"dota": lambda s: VectorDot(s, a), "twice": lambda s: s * 2, "plusu": lambda s: s + u,
            "norm": VectorNorm, "crossb": lambda s: VectorCross(s, b),
            "lin": lambda s: s * leaves["scal"][2] + 1, "sq": lambda s: s**2}[name]


def _scale(v, f):
    return tuple(vx.s_mul(f, c) for c in v)


def _neg(v):
    return tuple(vx.s_neg(c) for c in v)


def replay_one(job):  # pylint: disable=too-many-locals,too-many-branches,too-many-statements,too-many-return-statements
    """One shape in one creation order -> (job, status, what, records)."""
    from symplyphysics.core.experimental.solvers import apply, solve_for_scalar, solve_for_vector
    pool = _init()
    shape = job["shape"]
    leaves = pool.leaves(job["order"])
    envs = [pool.env(leaves, a) for a in vx.ASSIGNS]
    names = pool.names_of(leaves)
    u, x = leaves["vec"][1], leaves["scal"][1]
    eqn = build_equation(shape, leaves)
    op = shape["op"]
    rec = dict(op={"solve": "solve", "apply": "apply", "solve_scalar": "scalar", "solve_radical": "radical",
                   "solve_system": "system", "solve_power": "power"}[op], ts=shape["ts"],
               nonvec=1 if shape["mode"] == "nonvec" else 0, reduce=1 if shape["reduce"] else 0, fn=shape["fn"],
               outcome="eq", lhs=[], rhs=[])
    try:
        with time_limit(LIMIT_S):
            if op == "solve":
                res = solve_for_vector(eqn, u, reduce_factor=shape["reduce"])
            elif op == "apply":
                res = apply(eqn, apply_fn(shape["fn"], leaves))
            elif op == "solve_system":
                res = solve_for_scalar(eqn, [leaves["scal"][k] for k in shape["ts"][1]])
            else:
                res = solve_for_scalar(eqn, x)
    except HardTimeout:
        return job, "outside", "library call timed out", [], str(eqn)
    except Exception as e:  # pylint: disable=broad-except
        raised = f"{type(e).__name__}: {str(e)[:120]}"
        rec["outcome"] = "raised"
        if op == "solve":
            must = shape["mode"] == "nonvec" or all(e_["kind"] == "refuse" for e_ in shape["exp"])
            may = shape["mode"] == "vec" and any(e_["kind"] == "open" for e_ in shape["exp"])
            if must:
                return job, "ok", "refused: " + raised, [rec], str(eqn)
            if may:
                return job, "outside", "unknown's terms cancel: " + raised, [rec], str(eqn)
            return job, "violation", f"the unknown is a term of the equation but the request was refused ({raised})", \
                [rec], str(eqn)
        if op == "apply":
            return job, "violation", f"apply raised {raised}", [rec], str(eqn)
        return job, "outside", "solve_for_scalar: " + raised, [rec], str(eqn)

    # ---- an object was returned
    import sympy as sp
    from sympy.logic.boolalg import BooleanFalse, BooleanTrue
    if op == "solve_system":
        sys_ = shape["ts"][0]
        unknowns = {leaves["scal"][1]: 1, leaves["scal"][2]: 2}
        if not isinstance(res, (list, tuple)):
            return job, "violation", f"solve_for_scalar returned {type(res).__name__}, not a list of equations", [], str(eqn)
        sols, und = [], None
        for eq in res:
            if not isinstance(eq, sp.Eq) or eq.lhs not in unknowns:
                und = f"returned {eq}: not an equation for one of the unknowns"
                continue
            try:
                sols.append([unknowns[eq.lhs], vx.compile_expr(eq.rhs, names)[0], eq.rhs])
            except vx.Outside as e:
                und = f"returned equation outside the alphabet: {e}"
        if und:
            return job, "outside", "solve_for_scalar: " + und[:80], [], str(eqn)
        rec["sols"] = [[k, prog] for k, prog, _ in sols]
        bad = []
        for i, env in enumerate(envs):
            vals = {1: env[leaves["scal"][1]][1], 2: env[leaves["scal"][2]][1]}
            done = set()
            try:
                for k, _, rhs in sols:
                    if k not in done:
                        done.add(k)
                        vals[k] = vx.evaluate(rhs, env)[1]
            except vx.Outside as e:
                return job, "outside", "solve_for_scalar: " + str(e)[:80], [rec], str(eqn)
            tval = env[leaves["scal"][3]][1]
            for o in (0, 3):
                resid = vx.s_add(vx.s_add(vx.s_mul(vx.s_int(sys_[o]), vals[1]), vx.s_mul(vx.s_int(sys_[o + 1]), vals[2])),
                                 vx.s_neg(vx.s_mul(vx.s_int(sys_[o + 2]), tval)))
                if resid:
                    bad.append(f"assignment {i + 1}: the returned equations {res} do not satisfy equation {o // 3 + 1} "
                               f"(residual {vx.show(('s', resid))})")
        if bad:
            return job, "violation", "; ".join(bad[:2]), [rec], str(eqn)
        return job, "ok", str(res), [rec], str(eqn)
    if op in ("solve_scalar", "solve_radical", "solve_power"):
        recs, bad, und = [], [], None
        if op == "solve_power":
            y, t = leaves["scal"][2], leaves["scal"][3]
            f = (x / sp.sqrt(y) if shape["ts"][0] == "prodsqrt" else x * sp.sqrt(y)) - sp.sqrt(t)
        else:
            k2, k1, k0 = (vx.build(p, leaves, True) for p in shape["ts"])
            f = k2 * x**2 + k1 * x + k0 if op == "solve_scalar" else sp.sqrt(k2 * x + k1) - x - k0
        if not isinstance(res, (list, tuple)):
            return job, "violation", f"solve_for_scalar returned {type(res).__name__}, not a list of equations", [], str(eqn)
        for eq in res:
            r = dict(rec)
            if isinstance(eq, BooleanFalse):      # Eq(x, non-real value) for the real symbol: no solution of the equation
                r["outcome"] = "false"
                recs.append(r)
                bad.append("an unsatisfiable equation (False) was returned as a solution")
                continue
            if isinstance(eq, BooleanTrue):
                und = "returned the trivial equation True"
                continue
            if not isinstance(eq, sp.Eq):
                bad.append(f"returned {type(eq).__name__} {eq}, not an equation")
                continue
            try:
                r["lhs"] = vx.compile_expr(eq.lhs, names)[0]
                r["rhs"] = vx.compile_expr(eq.rhs, names)[0]
                recs.append(r)
            except vx.Outside as e:
                und = f"returned equation outside the alphabet: {e}"
            if eq.lhs != x:
                und = f"returned equation is not for the symbol: {eq}"
                continue
            for i, env in enumerate(envs):
                try:
                    env2 = dict(env)
                    env2[x] = vx.evaluate(eq.rhs, env)
                    val = vx.evaluate(f, env2)
                except vx.Outside as e:
                    und = str(e)
                    break
                if val != ("s", {}):
                    bad.append(f"assignment {i + 1}: {eq} does not satisfy the equation (residual {vx.show(val)})")
        if bad:
            return job, "violation", "; ".join(bad), recs, str(eqn)
        if und:
            return job, "outside", "solve_for_scalar: " + und[:80], recs, str(eqn)
        return job, "ok", str(res), recs, str(eqn)

    # what the library returned must be an equation; SymPy evaluates Eq(u, u) to True and an impossible Eq to False
    if isinstance(res, BooleanTrue):
        res = sp.Eq(sp.S.Zero, sp.S.Zero, evaluate=False)          # the equation 0 = 0: lhs - rhs = 0
    elif isinstance(res, BooleanFalse):
        rec["outcome"] = "false"
        if op == "solve" and shape["mode"] == "vec" and any(e_["kind"] == "open" for e_ in shape["exp"]):
            return job, "outside", "unknown's terms cancel: False returned", [rec], str(eqn)
        return job, "violation", "the unsatisfiable equation (False) was returned: not equivalent to the original", [rec], str(eqn)
    elif not isinstance(res, sp.Eq):
        return job, "violation", f"{type(res).__name__} {str(res)[:80]} was returned, not an equation", [], str(eqn)
    try:
        rec["lhs"] = vx.compile_expr(res.lhs, names, want="v" if op == "solve" else None)[0]
        rec["rhs"] = vx.compile_expr(res.rhs, names, want="v" if op == "solve" else None)[0]
        recs = [rec]
    except vx.Outside:
        recs = []
    if op == "solve":
        if shape["mode"] == "nonvec" or all(e_["kind"] == "refuse" for e_ in shape["exp"]):
            return job, "violation", f"the requested vector is not a term of the (vector) expression, yet {res} was returned", \
                recs, str(eqn)
    bad, und = [], None
    for i, env in enumerate(envs):
        exp = shape["exp"][i]
        try:
            lv, rv = vx.evaluate(res.lhs, env), vx.evaluate(res.rhs, env)
        except vx.Outside as e:
            und = str(e)
            break
        if op == "apply":
            for side, got, want in (("lhs", lv, exp["al"]), ("rhs", rv, exp["ar"])):
                if want["k"] == "u":
                    und = "expected side outside the exact domain"
                    continue
                k, wv, _ = vx.from_model(want)
                if not vx.same_value(k, wv, got):
                    bad.append(f"assignment {i + 1}: {side} of the result has value {vx.show(got)}, "
                               f"f({side}) is {vx.show((k, wv))}")
            continue
        if exp["kind"] == "open":
            und = "the unknown's terms cancel"
            continue
        if exp["e"]["k"] == "u" or any(k["k"] == "u" for k in exp["ks"]):
            und = "expected value outside the exact domain"
            continue
        d = tuple(vx.s_add(p, vx.s_neg(q)) for p, q in zip(vx._as_vec(lv), vx._as_vec(rv)))   # pylint: disable=protected-access
        e = vx.from_model(exp["e"])[1]
        if shape["reduce"]:
            allowed = []
            for k in exp["ks"]:
                q = _scale(e, vx.s_inv(vx.from_model(k)[1]))
                allowed += [q, _neg(q)]
        else:
            allowed = [e, _neg(e)]
        sol = exp.get("sol")
        if d in allowed and sol and sol["k"] != "u":
            want_sol = vx.from_model(sol)[1]
            if not vx.same_value("v", want_sol, rv):
                bad.append(f"assignment {i + 1}: the unknown occurs in no other term, but the right-hand side "
                           f"{vx.show(rv)} is not its solution {vx.show(('v', want_sol))}")
        if d not in allowed:
            bad.append(f"assignment {i + 1}: lhs - rhs = {vx.show(('v', d))} is not +-E{'/k' if shape['reduce'] else ''} "
                       f"(E = {vx.show(('v', e))}, k in {[vx.show(vx.from_model(k)[:2]) for k in exp['ks']]})")
    if bad:
        return job, "violation", "; ".join(bad) + f"; returned {res}", recs, str(eqn)
    if und:
        return job, "outside", und[:80], recs, str(eqn)
    return job, "ok", str(res), recs, str(eqn)


def shape_str(shape) -> str:
    if shape["mode"] == "vec":
        body = " ; ".join(f"{side}: (" + " + ".join(vx.prog_str(c, NAMES) for c in cs) + f")*[{vx.prog_str(v, NAMES)}]"
                          for cs, v, side in shape["ts"])
    elif shape["mode"] == "system":
        body = f"coefficients {shape['ts'][0]} unknowns requested {['xy'[k - 1] for k in shape['ts'][1]]}"
    elif shape["mode"] == "power":
        body = {"prodsqrt": "x/sqrt(y) = sqrt(t)", "quotsqrt": "x*sqrt(y) = sqrt(t)"}[shape["ts"][0]]
    else:
        body = " ; ".join(vx.prog_str(p, NAMES) for p in shape["ts"])
    tail = f" reduce={shape['reduce']}" if shape["op"] == "solve" else f" fn={shape['fn']}" if shape["op"] == "apply" else ""
    return f"{shape['op']} {shape['mode']} {shape['form']}{tail} | {body}"


def _key(job):
    return f"{shape_str(job['shape'])} | order={list(job['order'])}"


def validate_traces(run: Run, sc, records: list, cmap: dict) -> None:
    if not records:
        return
    chunks = [records[i:i + 15000] for i in range(0, len(records), 15000)]

    def one(ci):
        path = sc / f"trace_{ci}.json"
        path.write_text(json.dumps({"assigns": vx.ASSIGNS,
                                    "recs": [{k: v for k, v in r.items() if k != "job"} for r in chunks[ci]]}))
        cfg = write_cfg(sc / f"trace_{ci}.cfg", init="TInit", next_="TNext", constants=cmap, invariants=["Judge"])
        return run_tlc("MC_trace", cfg, sc, workers=1, env={"TRACE_FILE": str(path)}, spec_dir=sc, allow_violation=False)
    with ThreadPoolExecutor(max_workers=4) as ex:
        results = list(ex.map(one, range(len(chunks))))
    by_id = {r["id"]: r for r in records}
    seen, counts = set(), {"ok": 0, "bad": 0, "un": 0}
    for ci, res in enumerate(results):
        run.add_tlc(res, f"trace validation chunk {ci}: {len(chunks[ci])} recorded calls")
        for line in res.raw_prints:
            tag, rid, verdicts = parse_tla_tuple(line)
            assert tag == "V" and rid not in seen
            seen.add(rid)
            run.traces += 1
            worst = "bad" if "bad" in verdicts else "un" if "un" in verdicts else "ok"
            counts[worst] += 1
            rec = by_id[rid]
            if worst == "un":
                run.outside("trace: statement open for this call or a value outside the exact domain")
            elif worst == "bad":
                job = rec["job"]
                run.violation(_key(job), f"TLC: recorded call violates the specification (verdicts {verdicts}); outcome "
                              f"{rec['outcome']}, returned Eq([{vx.prog_str(rec['lhs'], NAMES)}], [{vx.prog_str(rec['rhs'], NAMES)}])",
                              {"shape": job["shape"], "order": list(job["order"]), "observed": "trace verdict " + str(verdicts)})
    if seen != set(by_id):
        raise RuntimeError(f"trace validation: {len(set(by_id) - seen)} records without verdict")
    run.coverage["trace_verdicts"] = counts


def main() -> int:
    tier = sys.argv[1] if len(sys.argv) > 1 else "quick"
    if tier == "--replay":
        return replay_file(sys.argv[2])
    run = Run(PID, tier)
    _init()
    orders = ORDERS[tier]
    consts = CFG[tier]
    bounds = {k: (sorted(v) if isinstance(v, (set, frozenset)) else v) for k, v in consts.items() if k != "Assigns"}
    with Scratch() as sc, make_pool() as pool:
        vx.copy_specs(sc)
        # invariants of the model + emission of every shape, split over SHARDS[tier] TLC processes (workers=1 each:
        # clean stdout).  No -coverage: TLC's cost model duplicates the evaluator's operator tree per call site and
        # runs out of memory on this specification (measured, 8 GB); action coverage is reported from the emitted
        # shapes instead
        nsh = SHARDS[tier]

        def shard(i):
            cm = vx.mc_module(sc, "VecSolve", f"MC_solve{i}", dict(consts, ShardK=nsh, ShardI=i))
            cfg_i = write_cfg(sc / f"solve{i}.cfg", constants=cm, invariants=INVARIANTS + ["Emit"], constraints=["InShard"])
            return run_tlc(f"MC_solve{i}", cfg_i, sc, workers=1, coverage=False, allow_violation=False, spec_dir=sc)
        with ThreadPoolExecutor(max_workers=nsh) as ex:
            shard_results = list(ex.map(shard, range(nsh)))
        shapes, seen_shapes = [], set()
        for i, res2 in enumerate(shard_results):
            run.add_tlc(res2, f"model check + enumeration of the equation shapes, shard {i}/{nsh}: invariants {INVARIANTS}, "
                        f"bounds {bounds}")
            for shape in res2.printed:      # states outside a shard's constraint may still be printed: keep one copy
                k = json.dumps(shape, sort_keys=True)
                if k not in seen_shapes:
                    seen_shapes.add(k)
                    shapes.append(shape)
        cmap = vx.mc_module(sc, "VecSolveTrace", "MC_trace", dict(consts, ShardK=1, ShardI=0))
        t_tlc = time.time()
        run.coverage["shapes_emitted"] = len(shapes)
        per_action: dict = {}
        for shape in shapes:
            k = f"{shape['mode']}/{shape['op']}/{shape['form']}" + (f"/{shape['fn']}" if shape["op"] == "apply" else "")
            per_action[k] = per_action.get(k, 0) + 1
        run.coverage["shapes_per_action"] = per_action
        expected = {}
        for shape in shapes:
            for e_ in shape["exp"]:
                expected[e_["kind"]] = expected.get(e_["kind"], 0) + 1
        run.coverage["model_expectations"] = expected
        jobs = []
        for shape in shapes:
            used = [["vec", 1], ["vec", 2], ["vec", 3]] if shape["mode"] not in ("scalar", "radical", "system", "power") else [["vec", 1]]
            for order in vx.orders_for(used, orders):
                jobs.append(dict(shape=shape, order=order))
        run.coverage["calls"] = len(jobs)
        stats, refusals, records, seen_recs = {"ok": 0, "violation": 0, "outside": 0}, {}, [], set()
        for job, status, what, recs, eqn in pmap(pool, replay_one, jobs, chunk=100):
            run.traces += 1
            stats[status] += 1
            sstr = shape_str(job["shape"])
            run.count(sstr)
            if len(job["shape"]["ts"]) >= 3 or job["shape"]["op"] != "solve":
                run.sample({"shape": sstr, "given": eqn[:200], "result": what[:200]}, limit=8)
            if what.startswith("refused: "):
                t = what.split(":")[1].strip()
                refusals[t] = refusals.get(t, 0) + 1
            if status == "outside":
                run.outside(f"{job['shape']['op']}: {what}"[:100])
            elif status == "violation":
                run.violation(_key(job), what + f" (given: {eqn[:160]})",
                              {"shape": job["shape"], "order": list(job["order"]), "observed": what})
            for r in recs:
                rk = json.dumps(r, sort_keys=True)
                if rk not in seen_recs:
                    seen_recs.add(rk)
                    r["id"] = len(records) + 1
                    r["job"] = job
                    records.append(r)
        t_replay = time.time()
        run.coverage["replay_outcomes"] = stats
        run.coverage["refusal_exception_types"] = refusals
        run.coverage["distinct_trace_records"] = len(records)
        validate_traces(run, sc, records, cmap)
        run.coverage["phase_wall_s"] = {"model": round(t_tlc - run.t0, 1), "replay": round(t_replay - t_tlc, 1),
                                        "trace": round(time.time() - t_replay, 1)}
    run.assumptions += [
        "values are compared under two generic integer assignments (|component| <= 3, non-zero scalars)",
        "like terms may be collected: any non-empty group of the unknown's terms counts as 'that term' with the sum of "
        "the coefficients; when the unknown's coefficients cancel the verdict is open",
        "lhs - rhs is compared up to sign ('the two sides differ by')",
        "any exception counts as a refusal; exceptions raised by solve_for_scalar (SymPy cannot solve) are undecided",
    ]
    return run.finish(exhaustive=True)


def replay_file(path: str) -> int:
    data = json.loads(open(path).read())
    case = data["case"]
    _init()
    job = dict(shape=case["shape"], order=tuple(case["order"]))
    _, status, what, _, eqn = replay_one(job)
    if status == "violation":
        print(f"VIOLATION property={PID} replay={path}\n  {what}")
    print("replayed:", shape_str(job["shape"]), "| given", eqn, "->", status, what[:200])
    return 1 if status == "violation" else 0


if __name__ == "__main__":
    main_wrapper(main)
