"""Recorder for hook H3 (collector exits, post-order) -> abstract token traces for spec/CollectTrace.tla.

One trace per top-level collector call.  Every token abstracts one exit event: node kind, number of operand
events that precede it, class of the returned value, returned dimension vector, exact small rational value
(for exponents).  Traces are de-duplicated by content.  Used as a pytest plugin (`-p harness.collect_sink`, env
VERIF_TRACE_DIR) and directly by c05_trace / c06_trace.
"""
from __future__ import annotations

import json
import os
from fractions import Fraction

from .qc_common import classify, project_dim

ZERO = [[0, 1]] * 8


def _cls(value):
    c, fr = classify(value)
    if c in ("float", "irr"):
        return "fin", None
    if c == "other":
        return "cplx", None
    return c, fr


def _tok(kind, op, n, c="fin", d=None, fr=None, **extra):
    t = {"k": kind, "op": op, "n": n, "c": c, "d": d or ZERO, "hv": False, "v": [0, 1],
         "ho": False, "oc": "fin", "od": ZERO, "dd": ZERO, "cnt": [], "ar": n}
    if fr is not None and abs(fr.numerator) < 2000 and fr.denominator < 2000:
        t["hv"], t["v"] = True, [fr.numerator, fr.denominator]
    t.update(extra)
    return t


class Recorder:
    def __init__(self):
        self.pending = {"collect_quantity": {}, "collect_expression": {}}
        self.traces = {}        # json -> count
        self.dropped = {}       # reason -> count
        self.events = 0

    def drop(self, reason):
        self.dropped[reason] = self.dropped.get(reason, 0) + 1

    # -- abstraction ---------------------------------------------------------------
    def _result(self, kind, payload):
        """-> (class, dimvec, fraction) of the recorded result, or ('err', ..)"""
        if "error" in payload:
            return "err", ZERO, None
        import sympy as sp
        val, dim = payload["result"]
        vec = project_dim(dim)
        if vec is None or any(abs(n) >= 10000 or d >= 10000 for n, d in vec):
            return None     # not interpretable, or floating-point exponents (x**1.4: outside exact dimension arithmetic)
        val = sp.sympify(val)
        if kind == "collect_quantity" or val.is_number:
            c, fr = _cls(val)
        else:
            c, fr = "sym", None
        return c, vec, fr

    def _own_leaf(self, kind_k, obj):
        """Leaf token from the object's own attributes (independent of what the collector returned)."""
        import sympy as sp
        from sympy.physics.units import Quantity as SymQuantity
        from sympy.physics.units.prefixes import Prefix
        if isinstance(obj, SymQuantity):
            vec = project_dim(obj.dimension)
            if vec is None:
                return None
            c, fr = _cls(sp.sympify(obj.scale_factor))
            return c, vec, fr
        if isinstance(obj, Prefix):
            c, fr = _cls(sp.sympify(obj.scale_factor))
            return c, ZERO, fr
        if obj.is_number:
            c, fr = _cls(obj)
            return c, ZERO, fr
        if kind_k == "e" and _is_number(obj):
            # an unevaluated node that evaluates to a number (meter**0): the collector treats it as a number
            c, fr = _cls(sp.sympify(complex(obj)) if complex(obj).imag else sp.sympify(complex(obj).real))
            return c, ZERO, None
        return None

    def __call__(self, kind, payload):  # pylint: disable=too-many-branches,too-many-statements,too-many-locals
        if kind not in self.pending:
            return
        import sympy as sp
        from sympy.core.function import AppliedUndef
        from sympy.functions.elementary.miscellaneous import MinMaxBase
        from sympy.physics.units import Quantity as SymQuantity
        self.events += 1
        depth = payload["depth"]
        pend = self.pending[kind]
        children = pend.pop(depth + 1, [])
        try:
            expr = sp.sympify(payload["args"][0])
        except Exception:  # pylint: disable=broad-except
            expr = None
        k = "q" if kind == "collect_quantity" else "e"
        res = self._result(kind, payload)
        sub = None
        if res is None or expr is None:
            sub = "BAD:dimension outside the base dimensions"
        else:
            c, vec, fr = res
            flat = [tok for ch in children for tok in ch]
            bad = next((ch for ch in children if isinstance(ch, str)), None)
            if bad:
                sub = bad
            elif k == "q":
                sub = self._node_q(expr, c, vec, fr, children, flat)
            elif c == "cplx":
                sub = "BAD:expression collector returned a non-real number (complex infinity from SymPy)"
            else:
                sub = self._node_e(expr, c, vec, fr, children)
        if depth == 0:
            # stale deeper entries (after exceptions) are discarded with the finished call
            for d_ in [d_ for d_ in pend if d_ > 0]:
                pend.pop(d_)
            if isinstance(sub, str):
                self.drop(sub[4:])
            else:
                key = json.dumps(sub, separators=(",", ":"))
                self.traces[key] = self.traces.get(key, 0) + 1
        else:
            pend.setdefault(depth, []).append(sub)

    def _node_q(self, expr, c, vec, fr, children, flat):
        import sympy as sp
        from sympy.functions.elementary.miscellaneous import MinMaxBase
        from sympy.physics.units import Quantity as SymQuantity
        from sympy.physics.units.prefixes import Prefix
        n = len(children)
        if isinstance(expr, (SymQuantity, Prefix)) or (not expr.args and expr.is_number):
            own = self._own_leaf("q", expr)
            if own is None:
                return "BAD:leaf dimension outside the base dimensions"
            return [_tok("q", "leaf", 0, c, vec, fr, ho=True, oc=own[0], od=own[1])]
        if isinstance(expr, sp.Mul):
            op = "mul"
        elif isinstance(expr, sp.Pow):
            op = "pow"
        elif isinstance(expr, sp.Add):
            op = "add"
        elif isinstance(expr, sp.Abs):
            op = "abs"
        elif isinstance(expr, MinMaxBase):
            op = "min" if isinstance(expr, sp.Min) else "max"
        elif isinstance(expr, sp.Derivative):
            op = "deriv_q"
        elif isinstance(expr, sp.Function):
            op = "func_q"
        elif expr.is_number:
            return [_tok("q", "leaf", 0, c, vec, fr)]        # numeric constant expression (pi, E, ...)
        else:
            op = "symbol"
        return flat + [_tok("q", op, n, c, vec, fr, ar=2 if op == "pow" else len(expr.args))]

    def _node_e(self, expr, c, vec, fr, children):  # pylint: disable=too-many-return-statements,too-many-branches
        import sympy as sp
        from sympy.physics.units import Quantity as SymQuantity
        if hasattr(expr, "dimension") or isinstance(expr, type):
            own_vec = project_dim(getattr(expr, "dimension"))
            if own_vec is None:
                return "BAD:leaf dimension outside the base dimensions"
            # a quantity visited through its own collector call (operand of a power, abs, function) is an
            # opaque dimensioned object for the syntactic inference, whatever its value; only quantities
            # that are direct terms/factors (handled inline below) are looked at by value
            oc = "sym"
            if isinstance(expr, SymQuantity) and _cls(sp.sympify(expr.scale_factor))[0] == "fin":
                oc = "fin"
            return [_tok("e", "leaf", 0, oc if c != "err" else c, vec, fr, ho=True, oc=oc, od=own_vec)]
        if isinstance(expr, (sp.Mul, sp.Add, sp.Min, sp.Max)):
            # numbers and quantities among the operands are handled inline by the collector (no event of their own)
            toks, it = [], iter(children)
            n = 0
            for arg in expr.args:
                own = self._own_leaf("e", arg) if (isinstance(arg, SymQuantity) or _is_number(arg)) else None
                if own is not None:
                    toks.append(_tok("e", "leaf", 0, own[0], own[1], own[2], ho=True, oc=own[0], od=own[1]))
                else:
                    ch = next(it, None)
                    if ch is None:
                        if c == "err":
                            break       # refusal interrupted the collection
                        return "BAD:operand events do not line up with the operands"
                    toks += ch
                n += 1
            if next(it, None) is not None:
                return "BAD:operand events do not line up with the operands"
            op = {sp.Mul: "mul", sp.Add: "add"}.get(type(expr)) or ("min" if isinstance(expr, sp.Min) else "max")
            return toks + [_tok("e", op, n, c, vec, fr, ar=len(expr.args))]
        flat = [tok for ch in children for tok in ch]
        n = len(children)
        if isinstance(expr, sp.Pow):
            return flat + [_tok("e", "powr", n, c, vec, fr, ar=2)]
        if isinstance(expr, sp.Abs):
            return flat + [_tok("e", "abs", n, c, vec, fr, ar=1)]
        if isinstance(expr, sp.Derivative):
            cnt = [int(cnt_) if getattr(cnt_, "is_Integer", False) else -1 for _, cnt_ in expr.variable_count]
            if any(x < 0 for x in cnt) or len(cnt) != n - 1:
                return "BAD:derivative with symbolic order"
            return flat + [_tok("e", "deriv_e", n, c, vec, fr, cnt=cnt, ar=1 + len(cnt))]
        if isinstance(expr, sp.Function):
            dd = project_dim(getattr(expr.func, "dimension", None)) if hasattr(expr.func, "dimension") else ZERO
            if dd is None:
                return "BAD:leaf dimension outside the base dimensions"
            return flat + [_tok("e", "func_e", n, c, vec, fr, dd=dd, ar=len(expr.args))]
        return [_tok("e", "leaf", 0, c, vec, fr)]       # anything else is returned unchanged, dimensionless

    def dump(self, path):
        with open(path, "w") as f:
            json.dump({"traces": self.traces, "dropped": self.dropped, "events": self.events}, f)


def _is_number(value) -> bool:
    try:
        complex(value)
    except (TypeError, ValueError):
        return False
    return True


# -- pytest plugin -------------------------------------------------------------------
_REC = None


def install():
    global _REC  # pylint: disable=global-statement
    from symplyphysics.core import verif_hooks
    if not verif_hooks.enabled:
        raise RuntimeError("SYMPLYPHYSICS_VERIF=1 must be set before symplyphysics is imported")
    _REC = Recorder()
    verif_hooks.sink = _REC
    return _REC


def pytest_configure(config):  # noqa: D103
    if os.environ.get("VERIF_TRACE_DIR"):
        install()


def pytest_sessionfinish(session, exitstatus):  # noqa: D103
    d = os.environ.get("VERIF_TRACE_DIR")
    if d and _REC is not None:
        _REC.dump(os.path.join(d, f"collect-{os.getpid()}.json"))
