"""SymPy expression tree -> postfix token stream for spec/Homogeneity.tla (C01).

Only the LEAVES take information from the library (the declared `.dimension` of symbols, functions, indexed
bases, constants).  Everything else is the tree structure.  Unsupported constructs raise Unsupported (the
equation is then counted as outside the decided fragment, never an alarm).
"""
from __future__ import annotations

from fractions import Fraction

from .qc_common import project_dim

ZERO_DIM = [[0, 1]] * 8


class Unsupported(Exception):
    pass


STRICT = {"exp", "sin", "cos", "tan", "cot", "sec", "csc", "sinh", "cosh", "tanh", "coth", "sech", "csch"}


def _leaf(d=None, a=False, num=None):
    tok = {"op": "leaf", "n": 0, "d": d or ZERO_DIM, "a": a, "hn": num is not None, "v": [0, 1], "lt": 0}
    if num is not None:
        tok["v"] = [num.numerator, num.denominator]
    return tok


def _op(op, n, d=None):
    return {"op": op, "n": n, "d": d or ZERO_DIM, "a": False, "hn": False, "v": [0, 1], "lt": 0}


def _number(e):
    import sympy as sp
    if e.is_zero or e in (sp.oo, -sp.oo, sp.nan, sp.zoo):
        return _leaf(a=True)
    fr = None
    if e.is_Rational:
        fr = Fraction(int(e.p), int(e.q))
    elif e.is_Float:
        f = Fraction(float(e)).limit_denominator(1000)
        if abs(float(f) - float(e)) <= 1e-12 * max(1.0, abs(float(e))):
            fr = f
    if fr is not None and abs(fr.numerator) < 10000 and fr.denominator < 10000:
        return _leaf(num=fr)
    return _leaf()


def _declared(obj):
    """Leaf token from a declared dimension (wildcard if it is the library's any_dimension)."""
    from symplyphysics.core.dimensions.dimensions import AnyDimension
    dim = obj.dimension
    if isinstance(dim, AnyDimension):
        return _leaf(a=True)
    vec = project_dim(dim)
    if vec is None:
        raise Unsupported(f"declared dimension {dim} not interpretable")
    return _leaf(d=vec)


def relationals(cond):
    """All relational atoms inside a boolean condition."""
    from sympy.core.relational import Relational
    from sympy.logic.boolalg import BooleanFunction
    if isinstance(cond, Relational):
        return [cond]
    if isinstance(cond, BooleanFunction):
        out = []
        for a in cond.args:
            out += relationals(a)
        return out
    return []


class Compiler:
    def __init__(self):
        self.side = []      # extra relational traces found inside (Piecewise conditions)
        self.names = {}     # dimensionless declared symbols -> token number (possible symbolic exponents)

    def compile(self, e, out):  # pylint: disable=too-many-branches,too-many-statements,too-many-return-statements
        import sympy as sp
        from sympy.core.function import AppliedUndef
        from sympy.core.relational import Relational
        from sympy.functions.elementary.miscellaneous import MinMaxBase
        from sympy.physics.units import Quantity as SymQuantity
        from sympy.tensor.indexed import Indexed, Idx
        from sympy.vector import BaseScalar
        from symplyphysics.core.symbols.symbols import DimensionSymbol
        from symplyphysics.core.operations.symbolic import Symbolic

        e = sp.sympify(e)
        if isinstance(e, Symbolic):
            self.compile(e.factor, out)
            out.append(_op("keep", 1))
            return
        if isinstance(e, (SymQuantity,)) or (isinstance(e, DimensionSymbol) and not isinstance(e, type)):
            tok = _declared(e)
            if isinstance(e, sp.Symbol) and not tok["a"] and tok["d"] == ZERO_DIM:
                tok["lt"] = self.names.setdefault(e, len(self.names) + 1)
            out.append(tok)
            return
        if isinstance(e, Indexed):
            base = e.base
            if isinstance(base, DimensionSymbol):
                out.append(_declared(base))
            else:
                out.append(_leaf(a=True))
            return
        if isinstance(e, Idx):
            out.append(_leaf())
            return
        if isinstance(e, BaseScalar) or isinstance(e, (sp.Dummy, sp.Wild)):
            out.append(_leaf(a=True))
            return
        if isinstance(e, sp.Symbol):
            out.append(_leaf(a=True))      # plain SymPy symbol: no declared dimension = wildcard
            return
        if isinstance(e, sp.Order):
            out.append(_leaf(a=True))
            return
        if e.is_Number or isinstance(e, sp.NumberSymbol) or e is sp.I or e in (sp.nan, sp.zoo):
            out.append(_number(e))
            return
        if isinstance(e, Relational):
            self.compile(e.lhs, out)
            self.compile(e.rhs, out)
            out.append(_op("rel", 2))
            return
        if isinstance(e, sp.Mul):
            for a in e.args:
                self.compile(a, out)
            out.append(_op("mul", len(e.args)))
            return
        if isinstance(e, sp.Add):
            for a in e.args:
                self.compile(a, out)
            out.append(_op("add", len(e.args)))
            return
        if isinstance(e, sp.Pow):
            self.compile(e.base, out)
            self.compile(e.exp, out)
            out.append(_op("pow", 2))
            return
        if isinstance(e, (sp.Abs, sp.conjugate, sp.re, sp.im)):
            self.compile(e.args[0], out)
            out.append(_op("keep", 1))
            return
        if isinstance(e, MinMaxBase):
            for a in e.args:
                self.compile(a, out)
            out.append(_op("same", len(e.args)))
            return
        if isinstance(e, sp.Derivative):
            self.compile(e.expr, out)
            for var, count in e.variable_count:
                self.compile(var, out)
                self.compile(count, out)
                out.append(_op("pow", 2))
            out.append(_op("deriv", 1 + len(e.variable_count)))
            return
        if isinstance(e, sp.Integral):
            self.compile(e.function, out)
            for lim in e.limits:
                self.compile(lim[0], out)
                if len(lim) == 3:
                    self.compile(lim[1], out)
                    self.compile(lim[2], out)
                    out.append(_op("integ", 4))
                else:
                    out.append(_op("integ", 2))
            return
        if isinstance(e, sp.Piecewise):
            for expr, cond in e.args:
                self.compile(expr, out)
                for r in relationals(cond):
                    sub = []
                    self.compile(r, sub)
                    self.side.append(sub)
            out.append(_op("same", len(e.args)))
            return
        name = type(e).__name__
        if name == "Laplacian":
            # second derivatives with respect to the (length) coordinates of the system: f / length**2
            self.compile(e.args[0], out)
            out.append(_leaf(d=[[2, 1]] + ZERO_DIM[1:]))
            out.append(_op("deriv", 2))
            return
        if name in ("IndexedSum", "Sum"):
            self.compile(e.args[0], out)
            out.append(_op("keep", 1))
            return
        if name in ("IndexedProduct", "Product"):
            self.compile(e.args[0], out)
            out.append(_leaf(a=True))     # unknown number of factors
            out.append(_op("pow", 2))
            return
        if isinstance(e, AppliedUndef):
            for a in e.args:
                self.compile(a, out)
            func = e.func
            if isinstance(func, DimensionSymbol):
                tok = _declared(func)
                if tok["a"]:
                    out.append(_op("fn_any", len(e.args)))
                else:
                    out.append(_op("fn_decl", len(e.args), tok["d"]))
            else:
                out.append(_op("fn_any", len(e.args)))
            return
        if isinstance(e, sp.Function):
            for a in e.args:
                self.compile(a, out)
            out.append(_op("fn_strict" if name in STRICT else "fn_free", len(e.args)))
            return
        raise Unsupported(name)


def compile_equation(eq):
    """-> list of token streams (the equation itself + relational side conditions)."""
    c = Compiler()
    out = []
    c.compile(eq, out)
    return [out] + c.side


def expand_matrices(eq):
    """Equation between matrices -> element equations (or None if it cannot be made explicit)."""
    import sympy as sp
    lhs, rhs = eq.lhs, eq.rhs
    try:
        lhs = lhs.doit() if hasattr(lhs, "doit") else lhs
        rhs = rhs.doit() if hasattr(rhs, "doit") else rhs
        lhs = lhs.as_explicit() if hasattr(lhs, "as_explicit") else lhs
        rhs = rhs.as_explicit() if hasattr(rhs, "as_explicit") else rhs
    except Exception:  # pylint: disable=broad-except
        return None
    if isinstance(lhs, sp.MatrixBase) and isinstance(rhs, sp.MatrixBase) and lhs.shape == rhs.shape:
        return [sp.Eq(lhs[i, j], rhs[i, j], evaluate=False) for i in range(lhs.shape[0]) for j in range(lhs.shape[1])]
    return None
