"""C01: every published law equation is dimensionally homogeneous.

model        : spec/Homogeneity.tla - postfix machine over dimension vectors whose node actions are enabled only
               if the node satisfies the property; TLC model-checks its invariants on a small alphabet.
code -> spec : the "execution" is the catalogue itself.  Every public Equality of every module under laws/,
               definitions/, conditions/ of the working tree is compiled to a token stream in which only the
               leaves' declared dimensions come from the library; spec/HomogeneityTrace.tla validates all streams
               in one TLC run.  A stream TLC cannot consume to its end is an inhomogeneous equation; TLC reports
               the node where no action was enabled.
"""
from __future__ import annotations

import importlib
from fractions import Fraction
import json
import sys

from . import lawwalk
from .common import Run, main_wrapper
from .compile_dims import Unsupported, compile_equation, expand_matrices
from .tlc import Scratch, run_tlc, write_cfg

PID = "C01"
MODEL_CFG = {
    "quick": dict(MaxLen=5, LeafNames={"len", "time", "speed", "angle", "freq", "two", "half", "mone", "zero", "wild", "gam", "eta"},
                  OpNames={"mul2", "add2", "pow", "sin", "log", "abs", "ddt", "eq"}),
    "thorough": dict(MaxLen=6, LeafNames={"len", "time", "speed", "angle", "angv", "freq", "one", "two", "half", "mone", "zero",
                                          "wild", "gam", "eta", "ratio"},
                     OpNames={"mul2", "add2", "add3", "pow", "sin", "log", "abs", "max2", "ddt", "int2", "eq"}),
}
INVARIANTS = ["TypeOK", "SumsHomogeneous", "OrderFree", "WildcardsMatch", "AngleInvisible", "PowersAdd", "SymbolicPartsCount"]


def collect_traces(run: Run):
    """Import the catalogue and compile every published equation.  -> list of {tid, ev}, info per tid."""
    import sympy as sp
    traces, info = [], {}
    names = lawwalk.module_names()
    run.coverage["modules"] = len(names)
    neq = 0
    for name in names:
        try:
            mod = importlib.import_module(name)
        except Exception as e:  # pylint: disable=broad-except
            run.outside(f"module does not import (C03's business): {name}: {type(e).__name__}")
            continue
        for attr, eq in lawwalk.public_equations(mod):
            neq += 1
            eqs = [(attr, eq)]
            if eq.has(sp.MatrixBase) or eq.has(sp.MatrixExpr):
                ex = expand_matrices(eq)
                if ex is None:
                    run.outside("matrix equation that cannot be made explicit")
                    continue
                eqs = [(f"{attr}<{i}>", e) for i, e in enumerate(ex)]
            for sub_attr, e in eqs:
                tid = f"{name.removeprefix('symplyphysics.')}:{sub_attr}"
                try:
                    streams = compile_equation(e)
                except Unsupported as u:
                    run.outside(f"unsupported construct: {u}")
                    continue
                for k, ev in enumerate(streams):
                    t = tid if k == 0 else f"{tid}#cond{k}"
                    traces.append({"tid": t, "ev": ev})
                    info[t] = {"equation": str(e)[:300], "tokens": ev}
    run.coverage["equations"] = neq
    return traces, info


def _selftest_traces():
    """Two synthetic streams that bind the trace machinery: length + time must be STUCK, length + length ACCEPTed."""
    from .compile_dims import ZERO_DIM, _leaf, _op
    length = [[1, 1]] + ZERO_DIM[1:]
    time = ZERO_DIM[:2] + [[1, 1]] + ZERO_DIM[3:]
    bad = [_leaf(d=length), _leaf(d=time), _op("add", 2), _leaf(d=length), _op("rel", 2)]
    good = [_leaf(d=length), _leaf(d=length), _op("add", 2), _leaf(d=length), _op("rel", 2)]
    # symbolic exponents: p * V**gamma = p * V**gamma accepted and decided; p * V**gamma = p * V**(gamma - 1) refused
    pres = [[-1, 1], [1, 1], [-2, 1]] + ZERO_DIM[3:]
    vol = [[3, 1]] + ZERO_DIM[1:]
    gam = dict(_leaf(), lt=1)
    side = [_leaf(d=pres), _leaf(d=vol), gam, _op("pow", 2), _op("mul", 2)]
    side1 = [_leaf(d=pres), _leaf(d=vol), gam, _leaf(num=Fraction(-1)), _op("add", 2), _op("pow", 2), _op("mul", 2)]
    return [{"tid": "__selftest_bad__", "ev": bad}, {"tid": "__selftest_good__", "ev": good},
            {"tid": "__selftest_symgood__", "ev": side + side + [_op("rel", 2)]},
            {"tid": "__selftest_symbad__", "ev": side + side1 + [_op("rel", 2)]}]


def validate(run: Run, sc, traces, info) -> None:
    traces = list(traces)
    path = sc / "c01_traces.json"
    selftest = _selftest_traces()
    path.write_text(json.dumps(traces + selftest))
    cfg = write_cfg(sc / "c01_trace.cfg", init="TInit", next_="TStep", invariants=["Accepted", "Stuck"],
                    constants={"MaxLen": 0, "LeafNames": set(), "OpNames": set()})
    res = run_tlc("HomogeneityTrace", cfg, sc, workers=1, env={"TRACE_FILE": str(path)}, allow_violation=False)
    run.add_tlc(res, f"trace validation of {len(traces)} catalogue token streams")
    verdict = {}
    for v in res.printed:
        verdict.setdefault(v[1], []).append(v)
    st = {k: verdict.get(k, [[None]])[0][0] for k in ("__selftest_bad__", "__selftest_good__",
                                                      "__selftest_symgood__", "__selftest_symbad__")}
    if st != {"__selftest_bad__": "STUCK", "__selftest_good__": "ACCEPT",
              "__selftest_symgood__": "ACCEPT", "__selftest_symbad__": "STUCK"} \
            or verdict["__selftest_symgood__"][0][2]:
        raise RuntimeError(f"self-test of the trace specification failed: {st}")
    run.coverage["selftest"] = "length + time rejected at the sum node, length + length accepted; p V**gamma = p V**gamma accepted and decided, p V**gamma = p V**(gamma - 1) rejected (binding of HomogeneityTrace)"
    nodes = 0
    for tr in traces:
        tid = tr["tid"]
        vs = verdict.get(tid, [])
        if len(vs) != 1:
            raise RuntimeError(f"trace {tid}: expected exactly one verdict, got {vs}")
        v = vs[0]
        run.traces += 1
        nodes += len(tr["ev"])
        if v[0] == "ACCEPT":
            if v[2]:
                run.outside("accepted, but contains a symbolic exponent on a dimensional base (that node is not decided)")
            run.count(tid if len(tr["ev"]) > 3 else None)
            if len(run.samples) < 5 and len(tr["ev"]) > 8:
                run.sample({"tid": tid, "equation": info[tid]["equation"], "nodes": len(tr["ev"]), "verdict": "ACCEPT"})
        elif v[0] == "STUCK" and v[4] == "dimension":
            idx = v[2]
            run.count(tid)
            run.violation(tid, f"inhomogeneous at node {idx} ({v[3]}) of {info[tid]['equation']}",
                          {"tid": tid, "equation": info[tid]["equation"], "stuck_at": idx, "op": v[3],
                           "tokens": info[tid]["tokens"]})
        else:
            raise RuntimeError(f"trace {tid}: malformed token stream {v}")
    run.coverage["nodes_validated"] = nodes


def main() -> int:
    tier = sys.argv[1] if len(sys.argv) > 1 else "quick"
    if tier == "--replay":
        return replay_file(sys.argv[2])
    run = Run(PID, tier)
    with Scratch() as sc:
        cfg = write_cfg(sc / "hom.cfg", constants=MODEL_CFG[tier], invariants=INVARIANTS)
        res = run_tlc("Homogeneity", cfg, sc, workers=8, coverage=True, allow_violation=False)
        run.add_tlc(res, f"model check of the machine on a small alphabet: {INVARIANTS}")
        traces, info = collect_traces(run)
        validate(run, sc, traces, info)
    run.assumptions += [
        "declared dimensions are read from the leaves (.dimension of symbols, functions, indexed bases, constants)",
        "plain SymPy symbols, BaseScalar, Order terms and any_dimension are wildcards; log / inverse functions / "
        "special functions are not required to have dimensionless arguments (the statement lists exponential, "
        "trigonometric and hyperbolic functions)",
        "symbolic exponents on dimensional bases make that node (not the equation) undecided",
    ]
    return run.finish(exhaustive=True)


def replay_file(path: str) -> int:
    """Re-compile the named equation from the current tree and validate it alone."""
    data = json.loads(open(path).read())
    tid = data["case"]["tid"]
    run = Run(PID, "quick")
    traces, info = collect_traces(run)
    sel = [t for t in traces if t["tid"] == tid]
    if not sel:
        print(f"{tid}: equation no longer present")
        return 0
    with Scratch() as sc:
        validate(run, sc, sel, info)
    for v in run.violations:
        print(f"VIOLATION property={PID} replay={path}\n  {v['what']}")
    for k in run.known_hit:
        print(f"KNOWN-FINDING: property={PID} {k}")
    return 1 if run.violations else 0


if __name__ == "__main__":
    main_wrapper(main)
