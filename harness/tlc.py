"""Run TLC on a specification under /verif/spec and parse what it reports.

Everything TLC writes (metadir, generated configs, trace files) goes to a scratch
directory created with mkdtemp and removed by the caller (``Scratch`` context
manager).  Exit conventions of the harness: a TLC crash / parse error / overflow
is machinery failure (``TLCError`` -> exit 2), never a property verdict.
"""
from __future__ import annotations

import json
import os
import re
import shutil
import subprocess
import tempfile
import time
from dataclasses import dataclass, field
from pathlib import Path

VERIF = Path(__file__).resolve().parent.parent
SPEC = VERIF / "spec"
JAR = "/opt/veriftools/tla/tla2tools.jar"
DEPS = "/opt/veriftools/tla/CommunityModules-deps.jar"


class TLCError(RuntimeError):
    """TLC itself failed (not a property verdict)."""


class Scratch:
    """Scratch directory removed on exit."""

    def __init__(self, prefix: str = "verif-"):
        self.path = Path(tempfile.mkdtemp(prefix=prefix))

    def __enter__(self) -> Path:
        return self.path

    def __exit__(self, *exc) -> None:
        shutil.rmtree(self.path, ignore_errors=True)


@dataclass
class TLCResult:
    module: str
    ok: bool                      # finished without error / violation
    generated: int = 0            # states generated (TLC's own count = transitions explored + initial)
    distinct: int = 0             # distinct states found
    depth: int = 0
    wall_s: float = 0.0
    printed: list = field(default_factory=list)     # decoded PrintT(ToJson(..)) payloads
    raw_prints: list = field(default_factory=list)  # PrintT lines that are TLA+ values (tuples)
    violated: list = field(default_factory=list)    # names of violated invariants / properties
    errors: list = field(default_factory=list)      # other "Error:" lines
    coverage: dict = field(default_factory=dict)    # action name -> (distinct, total)
    output: str = ""
    cmd: str = ""

    @property
    def transitions(self) -> int:
        return max(self.generated - 1, 0)


_GEN = re.compile(r"^(\d+) states generated, (\d+) distinct states found, (\d+) states left on queue")
_DEPTH = re.compile(r"^The depth of the complete state graph search is (\d+)")
_COV = re.compile(r"^<(\w+) line (\d+), col \d+ to line \d+, col \d+ of module (\w+)>: (\d+):(\d+)")
_VIOL = re.compile(r"^Error: (?:Invariant|Action property|Temporal properties|Property) ?(\w+)? ?(?:is|were) violated")


def write_cfg(path: Path, *, init: str | None = "Init", next_: str | None = "Next", spec: str | None = None,
              invariants=(), properties=(), constants: dict | None = None, constraints=(),
              action_constraints=(), postcondition: str | None = None, deadlock: bool = False,
              view: str | None = None, symmetry: str | None = None) -> Path:
    lines = []
    if spec:
        lines.append(f"SPECIFICATION {spec}")
    else:
        if init:
            lines.append(f"INIT {init}")
        if next_:
            lines.append(f"NEXT {next_}")
    for k, v in (constants or {}).items():
        if isinstance(v, str) and v.startswith("<-"):
            lines.append(f"CONSTANT {k} {v}")
        else:
            lines.append(f"CONSTANT {k} = {tla_value(v)}")
    for i in invariants:
        lines.append(f"INVARIANT {i}")
    for p in properties:
        lines.append(f"PROPERTY {p}")
    for c in constraints:
        lines.append(f"CONSTRAINT {c}")
    for c in action_constraints:
        lines.append(f"ACTION_CONSTRAINT {c}")
    if postcondition:
        lines.append(f"POSTCONDITION {postcondition}")
    if view:
        lines.append(f"VIEW {view}")
    if symmetry:
        lines.append(f"SYMMETRY {symmetry}")
    lines.append(f"CHECK_DEADLOCK {'TRUE' if deadlock else 'FALSE'}")
    path.write_text("\n".join(lines) + "\n")
    return path


def tla_value(v) -> str:
    """Python value -> TLA+ constant expression for cfg files (ints, bools, strings, sets, tuples)."""
    if isinstance(v, bool):
        return "TRUE" if v else "FALSE"
    if isinstance(v, int):
        return str(v)
    if isinstance(v, str):
        return json.dumps(v)
    if isinstance(v, (set, frozenset)):
        return "{" + ", ".join(sorted(tla_value(x) for x in v)) + "}"
    if isinstance(v, (list, tuple)):
        return "<<" + ", ".join(tla_value(x) for x in v) + ">>"
    raise TypeError(f"cannot write {v!r} into a cfg")


def run_tlc(module: str, cfg: Path, scratch: Path, *, workers: int | str = 1, env: dict | None = None,
            simulate: str | None = None, depth: int | None = None, coverage: bool = False,
            timeout: int = 3600, seed: int | None = None, extra=(), heap_gb: int = 8,
            spec_dir: Path | None = None, dfs_queue: bool = False, allow_violation: bool = True) -> TLCResult:
    """Run TLC on spec/<module>.tla with the given cfg.  Returns the parsed result.

    Raises TLCError when TLC fails for a reason other than a property violation
    (parse error, evaluation error, overflow, timeout).
    """
    spec_dir = spec_dir or SPEC
    meta = Path(tempfile.mkdtemp(prefix="meta-", dir=scratch))
    jvm = ["java", "-XX:+UseParallelGC", f"-Xmx{heap_gb}g"]
    if dfs_queue:
        jvm.append("-Dtlc2.tool.queue.IStateQueue=StateDeque")
    cmd = jvm + ["-cp", f"{JAR}:{DEPS}", "tlc2.TLC", "-workers", str(workers), "-metadir", str(meta),
                 "-noGenerateSpecTE", "-config", str(cfg)]
    if coverage:
        cmd += ["-coverage", "1"]
    if simulate is not None:
        cmd += ["-simulate", simulate]
    if depth is not None:
        cmd += ["-depth", str(depth)]
    if seed is not None:
        cmd += ["-seed", str(seed)]
    cmd += list(extra)
    cmd.append(f"{module}.tla")
    e = dict(os.environ)
    e.update(env or {})
    t0 = time.time()
    try:
        p = subprocess.run(cmd, cwd=spec_dir, env=e, capture_output=True, text=True, timeout=timeout)
    except subprocess.TimeoutExpired as ex:
        raise TLCError(f"TLC timed out after {timeout}s on {module}") from ex
    finally:
        shutil.rmtree(meta, ignore_errors=True)
    out = p.stdout + p.stderr
    res = TLCResult(module=module, ok=False, wall_s=time.time() - t0, output=out, cmd=" ".join(cmd))
    for line in out.splitlines():
        if line.startswith('"{') or line.startswith('"['):
            try:
                res.printed.append(json.loads(json.loads(line)))
                continue
            except ValueError:
                pass
        if line.startswith("<<"):
            res.raw_prints.append(line)
            continue
        m = _GEN.match(line)
        if m:
            res.generated, res.distinct = int(m.group(1)), int(m.group(2))
            continue
        m = _DEPTH.match(line)
        if m:
            res.depth = int(m.group(1))
            continue
        m = _COV.match(line)
        if m:
            name = m.group(1)
            a, b = int(m.group(4)), int(m.group(5))
            old = res.coverage.get(name, (0, 0))
            res.coverage[name] = (old[0] + a, old[1] + b)
            continue
        if line.startswith("Error:"):
            m = _VIOL.match(line)
            if m:
                res.violated.append(m.group(1) or "property")
            elif "The behavior up to this point" in line or "The following behavior" in line:
                pass
            else:
                res.errors.append(line)
    finished = "Model checking completed. No error has been found." in out or \
        (simulate is not None and not res.errors and not res.violated and p.returncode == 0)
    res.ok = finished and not res.violated and not res.errors
    if res.errors or (not finished and not res.violated):
        lines = out.splitlines()
        first = next((i for i, ln in enumerate(lines) if ln.startswith("Error:")), max(len(lines) - 40, 0))
        tail = "\n".join(lines[first:first + 25] + ["..."] + lines[-6:])
        raise TLCError(f"TLC failed on {module} (rc={p.returncode}):\n{tail}")
    if res.violated and not allow_violation:
        tail = "\n".join(out.splitlines()[-60:])
        raise TLCError(f"model violates {res.violated} on {module}:\n{tail}")
    return res


def parse_tla_tuple(line: str):
    """Parse a printed TLA+ value consisting of tuples, strings, ints, booleans (for raw PrintT lines)."""
    s = line.strip()
    s = s.replace("<<", "[").replace(">>", "]").replace("TRUE", "true").replace("FALSE", "false")
    return json.loads(s)
