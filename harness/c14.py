"""C14: coordinate-free vector algebra simplification preserves value in R^3; derivatives terminate and
follow the product rule.

model        : TLC checks the classical identities (Lagrange, Jacobi, BAC-CAB, Binet-Cauchy, cyclic mixed
               product, Leibniz for the dual parts) on the values of spec/VecAlgebra.tla.
spec -> code : TLC enumerates every well-typed expression program within the bounds with its exact value (and
               t-derivative) under two generic integer assignments; every program is built with the real
               VectorDot / VectorCross / VectorMixedProduct / VectorNorm (automatic evaluation, and
               evaluate=False followed by .doit()), under role assignments covering the relative id() orders of the
               operand objects (pre-created symbols, some sharing a display name, and pre-created cache-pinned cross
               products of symbol pairs, see vecexpr.Pool); the returned
               expression is evaluated by an independent exact evaluator and compared with the model value.
               Derivative programs: .diff(t) / vector_diff must return (10 s, RecursionError = does not
               terminate) and evaluate to the model's dual part.
code -> spec : every (program, returned expression) pair is recorded and spec/VecAlgebraTrace.tla (TLC)
               evaluates both sides under the assignments; TLC's verdict decides.
"""
from __future__ import annotations

import json
import os
import sys

# the pre-created cross objects must stay in SymPy's LRU cache for a whole build (see vecexpr.Pool.touch):
# must be set before sympy is imported
os.environ.setdefault("SYMPY_CACHE_SIZE", "20000")
from concurrent.futures import ThreadPoolExecutor

from . import vecexpr as vx
from .common import HardTimeout, Run, main_wrapper, make_pool, pmap, time_limit
from .tlc import Scratch, parse_tla_tuple, run_tlc, write_cfg

PID = "C14"

ALL_OPS = {"addv", "scalev", "neg", "dot", "cross", "mixed", "norm", "muls", "adds", "pow"}
BASE = dict(MaxVec=4, VecLeaves={1, 2, 3, 4}, ScalLeaves={1}, Ints={2}, Pows={2, -1}, Ops=ALL_OPS, Macros=set(),
            Assigns=vx.ASSIGNS)
# composite leaf X = cross(a, b): dot products whose both operands are scaled / summed versions of the same cross product
CROSS_AB = (("vec", 1), ("vec", 2), ("cross", 0))
SAME_CROSS = dict(VecLeaves={3}, Macros={CROSS_AB}, ScalLeaves={1}, Pows=set(), Ops={"scalev", "addv", "dot"})
SAME_CROSS_NEG = dict(SAME_CROSS, Ops={"scalev", "addv", "dot", "neg"})


def _cfg(**kw):
    d = dict(BASE)
    d.update(kw)
    return d


# (label, kind, constants, invariants checked on that model)
IDENT = ["TypeOK", "Lagrange", "Jacobi", "BinetCauchy", "Leibniz"]
CONFIGS = {
    "quick": [
        ("identities", "none", _cfg(MaxLen=5, VecLeaves={1, 2, 3, 5, 6}, ScalLeaves={3}, Pows={2},
                                    Ops={"addv", "scalev", "neg", "cross", "dot", "norm"}), IDENT),
        ("wide", "val", _cfg(MaxLen=6), ["TypeOK"]),
        ("products", "val", _cfg(MaxLen=8, ScalLeaves=set(), Ints=set(), Pows={2},
                                 Ops={"dot", "cross", "mixed", "norm", "addv"}), ["TypeOK"]),
        ("samecross", "val", _cfg(MaxLen=7, MaxVec=5, Ints={2, 3}, **SAME_CROSS_NEG), ["TypeOK"]),
        ("samecross9", "val", _cfg(MaxLen=9, MaxVec=5, Ints={2}, **SAME_CROSS), ["TypeOK"]),
        ("diffscaled", "diff", _cfg(MaxLen=4, MaxVec=2, VecLeaves={1, 5, 8, 9}, ScalLeaves={3}, Pows={2},
                                    Ops={"scalev", "neg", "dot", "cross", "norm", "addv"}), ["TypeOK"]),
        ("diff", "diff", _cfg(MaxLen=5, MaxVec=3, VecLeaves={1, 5, 6, 7}, ScalLeaves={3}, Pows={2, -1}), ["TypeOK"]),
    ],
    "thorough": [
        ("identities", "none", _cfg(MaxLen=6, VecLeaves={1, 2, 3, 5, 6}, ScalLeaves={3}, Pows={2},
                                    Ops={"addv", "scalev", "neg", "cross", "dot", "norm"}), IDENT),
        ("wide", "val", _cfg(MaxLen=8), ["TypeOK"]),
        ("wide0", "val", _cfg(MaxLen=6, ScalLeaves={1, 2}, Ints={0, 2, -1}), ["TypeOK"]),
        ("products", "val", _cfg(MaxLen=10, ScalLeaves=set(), Ints=set(), Pows={2},
                                 Ops={"dot", "cross", "mixed", "norm", "addv", "neg"}), ["TypeOK"]),
        ("samecross", "val", _cfg(MaxLen=9, MaxVec=5, Ints={2, 3}, **SAME_CROSS_NEG), ["TypeOK"]),
        ("samecross11", "val", _cfg(MaxLen=11, MaxVec=6, Ints={2}, **SAME_CROSS), ["TypeOK"]),
        ("diffscaled", "diff", _cfg(MaxLen=6, MaxVec=3, VecLeaves={1, 5, 8, 9}, ScalLeaves={3}, Pows={2},
                                    Ops={"scalev", "neg", "dot", "cross", "mixed", "norm", "addv"}), ["TypeOK"]),
        ("diff", "diff", _cfg(MaxLen=7, MaxVec=4, VecLeaves={1, 5, 6, 7}, ScalLeaves={3}, Pows={2, -1}), ["TypeOK"]),
    ],
}
# id() orders: every relative order of every STRENGTH operand objects (symbols and pre-created cross operands)
# is exercised, with at most CAP role assignments per program
STRENGTH = {"quick": 3, "thorough": 4}
CAP = {"quick": 10, "thorough": 48}
DIFF_LIMIT_S = 10

_POOL = None


def _init():
    global _POOL  # pylint: disable=global-statement
    if _POOL is None:
        import symplyphysics.core.experimental.vectors  # noqa: F401  pylint: disable=unused-import,import-outside-toplevel
        _POOL = vx.Pool()
    return _POOL


class HarnessBug(RuntimeError):
    """The harness' own builder / evaluator disagree with the model on the expression as written."""


def _call(fn, seconds):
    """('ok', result) | ('timeout',) | ('recursion',) | ('raised', ExcName, text)."""
    try:
        with time_limit(seconds):
            return ("ok", fn())
    except HardTimeout:
        return ("timeout",)
    except RecursionError:
        return ("recursion",)
    except Exception as e:  # pylint: disable=broad-except
        return ("raised", type(e).__name__, str(e)[:160])


def replay_one(job):  # pylint: disable=too-many-locals,too-many-branches,too-many-statements
    """Build one program with the real classes in one id() order; returns the job and the list of
    outcomes {mode, status, what, q} (status: ok | violation | outside | nonterm)."""
    pool = _init()
    prog, kind = job["p"], job["kind"]
    lost = pool.touch()
    leaves = pool.leaves(job["order"], job["forder"])
    envs = []
    for a in vx.ASSIGNS:
        env = pool.env(leaves, a)
        env["__t__"] = pool.t
        envs.append(env)
    names = pool.names_of(leaves)
    model = [vx.from_model(v) for v in job["r"]]
    mkind = model[0][0]
    out = []
    if lost:
        out.append(dict(mode="auto", status="outside", what="pre-created cross objects fell out of SymPy's cache: "
                        "id() order of compound operands not controlled for this build"))
    try:
        raw = vx.build(prog, leaves, evaluate=False)
    except ValueError as e:
        # the library takes an unevaluated scalar product with a literal 0 factor for the zero vector and then
        # refuses to scale a vector by it; the expression as written cannot be represented: not decided
        raw = None
        out.append(dict(mode="doit", status="outside", what=f"expression as written is refused by the constructors: {e}"))
    if raw is not None:
        for i, env in enumerate(envs):           # the harness' reading of the program must agree with the model
            try:
                got = vx.evaluate(raw, env)
            except vx.Outside:
                continue
            if not vx.same_value(mkind, model[i][1], got):
                # the constructors with evaluate=False did not keep the expression as written (e.g. operands
                # reordered): evaluation "on request" then starts from another expression - the library's doing
                out.append(dict(mode="as-written", status="violation",
                                what=f"assignment {i + 1}: the expression held back with evaluate=False has value "
                                     f"{vx.show(got)}, the expression as written {vx.show((mkind, model[i][1]))}; "
                                     f"constructed: {str(raw)[:160]}"))
                break
    modes = [("auto", "val", lambda: vx.build(prog, leaves, evaluate=True))]
    if raw is not None:
        modes.append(("doit", "val", raw.doit))
    if kind == "diff":
        from symplyphysics.core.experimental.vectors import vector_diff
        modes.append(("diff", "diff", lambda: vx.build(prog, leaves, evaluate=True).diff(pool.t)))
        if raw is not None:
            modes.append(("diff-as-written", "diff", lambda: raw.diff(pool.t)))
            if mkind == "v":
                modes.append(("vector_diff", "diff", lambda: vector_diff(raw, pool.t)))
    for mode, which, fn in modes:
        res = _call(fn, DIFF_LIMIT_S)
        if res[0] == "recursion" and which == "diff":      # deterministic: the recursion never bottoms out
            out.append(dict(mode=mode, status="nonterm", what="unbounded recursion (RecursionError)"))
            continue
        if res[0] == "timeout" and which == "diff":
            again = _call(fn, DIFF_LIMIT_S)            # 'terminates': only a reproducible timeout counts
            if again[0] == "timeout":
                out.append(dict(mode=mode, status="nonterm", what=f"did not return within {DIFF_LIMIT_S} s (twice)"))
                continue
            res = again
            if res[0] == "recursion":
                out.append(dict(mode=mode, status="nonterm", what="unbounded recursion (RecursionError)"))
                continue
        if res[0] == "timeout":
            out.append(dict(mode=mode, status="outside", what="library call timed out"))
            continue
        if res[0] == "recursion":
            out.append(dict(mode=mode, status="violation", what="evaluation raised RecursionError (no expression returned)"))
            continue
        if res[0] == "raised" and res[1] == "NotImplementedError":
            out.append(dict(mode=mode, status="outside", what="the library declines: NotImplementedError"))
            continue
        if res[0] == "raised":
            out.append(dict(mode=mode, status="violation",
                            what=(f"well-typed expression not evaluated: {res[1]}: {res[2]}" if which == "val" else
                                  f"differentiation raised {res[1]}: {res[2]}")))
            continue
        expr = res[1]
        bad, undecided = [], None
        for i, env in enumerate(envs):
            want = model[i][1] if which == "val" else model[i][2]
            try:
                got = vx.evaluate(expr, env)
            except vx.Outside as e:
                undecided = str(e)
                break
            if not vx.same_value(mkind, want, got):
                bad.append(f"assignment {i + 1}: returned expression has value {vx.show(got)}, "
                           f"model {vx.show((mkind, want))}")
        entry = dict(mode=mode, which=which, expr=str(expr)[:300])
        try:
            entry["q"] = vx.compile_expr(expr, names, pool.t, want=mkind)[0]
        except vx.Outside as e:
            entry["q"] = None
            entry["nocompile"] = str(e)
        if undecided is not None:
            entry.update(status="outside", what="evaluator: " + undecided)
        elif bad:
            entry.update(status="violation", what="; ".join(bad) + f"; returned: {str(expr)[:200]}")
        else:
            entry.update(status="ok", what="")
        out.append(entry)
    return job, out


def describe_order(job) -> str:
    """The relative id() order of the operand objects and the display names, e.g. 'a<cross(c,d)<b<c<d names a=b'."""
    pool = _init()
    sig = vx.signature(job["p"])
    roles, pairs = sig
    labels = [vx.VEC_NAMES[r] for r in roles] + [f"cross({vx.VEC_NAMES[r]},{vx.VEC_NAMES[q]})" for r, q in pairs]
    pat = pool.pattern(sig, job["order"])
    same = [f"{vx.VEC_NAMES[r]}={vx.VEC_NAMES[q]}" for i, r in enumerate(roles) for q in roles[i + 1:]
            if pool.names[job["order"][r - 1]] == pool.names[job["order"][q - 1]]]
    return "<".join(labels[k] for k in pat) + (" same-display-name " + ",".join(same) if same else "")


def _key(job, mode):
    return f"{mode}: {vx.prog_str(job['p'])} | id-order {job['desc']} f,g,h={list(job['forder'])}"


def _replay_case(job, mode, what):
    return {"program": vx.prog_str(job["p"]), "p": job["p"], "r": job["r"], "kind": job["kind"], "order": list(job["order"]),
            "forder": list(job["forder"]), "desc": job["desc"], "mode": mode, "observed": what}


def validate_traces(run: Run, sc, records: dict, label: str) -> None:
    """records: key -> dict(id, mode, p, q, jobs=[(job, mode)]).  TLC evaluates both programs."""
    recs = sorted(records.values(), key=lambda r: r["id"])
    if not recs:
        return
    chunks = [recs[i:i + 15000] for i in range(0, len(recs), 15000)]

    def one(ci):
        path = sc / f"trace_{label}_{ci}.json"
        path.write_text(json.dumps({"assigns": vx.ASSIGNS,
                                    "recs": [{"id": r["id"], "mode": r["tmode"], "p": r["p"], "q": r["q"]}
                                             for r in chunks[ci]]}))
        cfg = write_cfg(sc / f"trace_{label}_{ci}.cfg", invariants=["Judge"])
        return run_tlc("VecAlgebraTrace", cfg, sc, workers=1, env={"TRACE_FILE": str(path)}, spec_dir=sc,
                       allow_violation=False)
    with ThreadPoolExecutor(max_workers=4) as ex:
        results = list(ex.map(one, range(len(chunks))))
    by_id = {r["id"]: r for r in recs}
    seen = set()
    counts = {"eq": 0, "ne": 0, "un": 0}
    for ci, res in enumerate(results):
        run.add_tlc(res, f"trace validation {label} chunk {ci}: {len(chunks[ci])} (expression, returned expression) records")
        for line in res.raw_prints:
            tag, rid, verdicts = parse_tla_tuple(line)
            assert tag == "V" and rid not in seen
            seen.add(rid)
            rec = by_id[rid]
            run.traces += 1
            worst = "ne" if "ne" in verdicts else "un" if "un" in verdicts else "eq"
            counts[worst] += 1
            if worst == "un":
                und = run.coverage.setdefault("trace_undecided_samples", [])
                if len(und) < 12:
                    und.append({"mode": rec["tmode"], "p": vx.prog_str(rec["p"]), "q": vx.prog_str(rec["q"])})
                run.outside("trace: a value of the recorded pair leaves the exact domain of the specification")
            elif worst == "ne":
                for job, mode in rec["jobs"][:3]:
                    run.violation(_key(job, mode), f"TLC: returned expression [{vx.prog_str(rec['q'])}] is not equal to "
                                  f"{'the derivative of ' if rec['tmode'] == 'diff' else ''}[{vx.prog_str(rec['p'])}] "
                                  f"under the assignments (verdicts {verdicts})",
                                  _replay_case(job, mode, "trace verdict " + str(verdicts)))
    if seen != set(by_id):
        raise RuntimeError(f"trace validation {label}: {len(set(by_id) - seen)} records without verdict")
    run.coverage.setdefault("trace_verdicts", {})[label] = counts


def run_config(run: Run, sc, pool, label, kind, consts, invariants, strength, cap) -> None:
    apool = _init()
    if label.startswith("samecross"):          # four operand objects (a, b, c, X): every order of every three is enough
        strength, cap = min(strength, 3), min(cap, 10)
    cmap = vx.mc_module(sc, "VecAlgebra", f"MC_{label}", consts)
    bounds = {k: (sorted(v) if isinstance(v, (set, frozenset)) else v) for k, v in consts.items() if k != "Assigns"}
    if kind == "none":
        cfg = write_cfg(sc / f"{label}.cfg", constants=cmap, invariants=invariants)
        res = run_tlc(f"MC_{label}", cfg, sc, workers=8, coverage=True, allow_violation=False, spec_dir=sc)
        run.add_tlc(res, f"model check {label}: invariants {invariants}, bounds {bounds}")
        return
    # one run: the invariants of the model and the emission of every complete behaviour (workers=1: clean stdout)
    cfg2 = write_cfg(sc / f"{label}.cfg", constants=cmap, invariants=invariants + ["Emit"])
    res2 = run_tlc(f"MC_{label}", cfg2, sc, workers=1, coverage=True, allow_violation=False, spec_dir=sc)
    run.add_tlc(res2, f"model check + enumeration {label}: invariants {invariants}, bounds {bounds}")
    programs = res2.printed
    run.coverage.setdefault("programs_emitted", {})[label] = len(programs)
    jobs = []
    for c in programs:
        if kind == "diff" and not any(op == "vec" and k >= 5 or op == "scal" and k == 3 for op, k in c["p"]):
            continue                      # nothing depends on t
        if label == "diffscaled" and not any(op == "vec" and k >= 8 for op, k in c["p"]):
            continue                      # covered by the diff configuration
        sig = vx.signature(c["p"])
        chosen, ncov, nuni = apool.assignments(sig, strength, cap)
        if ncov < nuni:
            run.coverage["id_order_patterns_not_covered_by_cap"] = run.coverage.get("id_order_patterns_not_covered_by_cap", 0) + 1
        for order in chosen:
            for forder in vx.forders_for(c["p"]):
                job = dict(p=c["p"], r=c["r"], kind=kind, order=order, forder=forder)
                job["desc"] = describe_order(job)
                jobs.append(job)
    run.coverage.setdefault("builds", {})[label] = len(jobs)
    records: dict = {}
    stats = {"ok": 0, "violation": 0, "outside": 0, "nonterm": 0}
    for job, out in pmap(pool, replay_one, jobs, chunk=100):
        run.traces += 1
        pstr = vx.prog_str(job["p"])
        run.count(pstr)
        if len(job["p"]) >= 5:
            run.sample({"program": pstr, "id_order": job["desc"], "model_values": job["r"],
                        "returned": {o["mode"]: o.get("expr") for o in out}})
        for o in out:
            stats[o["status"]] += 1
            mode = o["mode"]
            if o["status"] == "outside":
                run.outside(f"{label}/{mode}: {o['what']}"[:120])
            if o["status"] in ("nonterm", "violation"):
                cls = f"{label}/{mode}: " + ("nonterm" if o["status"] == "nonterm" else o["what"].split(":")[0][:60])
                byclass = run.coverage.setdefault("violations_by_class", {})
                byclass[cls] = byclass.get(cls, 0) + 1
            if o["status"] == "nonterm":
                run.violation(_key(job, mode), "differentiation does not terminate: " + o["what"],
                              _replay_case(job, mode, o["what"]))
            elif o["status"] == "violation":
                run.violation(_key(job, mode), o["what"], _replay_case(job, mode, o["what"]))
            q = o.get("q")
            if q is None:
                if "nocompile" in o:
                    run.outside(f"{label}/{mode}: returned expression not in the trace alphabet: {o['nocompile']}"[:120])
                continue
            tmode = o["which"]
            rk = json.dumps([tmode, job["p"], q])
            rec = records.setdefault(rk, dict(id=len(records) + 1, tmode=tmode, p=job["p"], q=q, jobs=[]))
            if len(rec["jobs"]) < 3:
                rec["jobs"].append((job, mode))
    run.coverage.setdefault("replay_outcomes", {})[label] = stats
    run.coverage.setdefault("distinct_trace_records", {})[label] = len(records)
    validate_traces(run, sc, records, label)


def main() -> int:
    tier = sys.argv[1] if len(sys.argv) > 1 else "quick"
    if tier == "--replay":
        return replay_file(sys.argv[2])
    run = Run(PID, tier)
    _init()
    run.coverage["id_order_control"] = {"strength": STRENGTH[tier], "cap": CAP[tier], "pool_symbols": vx.N_SYMS,
                                        "display_names": _POOL.names,
                                        "address_layout": "".join("S" if k == "s" else "c" for _, k in sorted(
                                            [(id(o), "s") for o in _POOL.syms] + [(id(o), "c") for o in _POOL.comp.values()]))}
    with Scratch() as sc, make_pool() as pool:
        vx.copy_specs(sc)
        only = os.environ.get("VERIF_ONLY")          # debugging aid: run one configuration
        for label, kind, consts, invariants in CONFIGS[tier]:
            if only and label not in only.split(","):
                continue
            run_config(run, sc, pool, label, kind, consts, invariants, STRENGTH[tier], CAP[tier])
    run.assumptions += [
        "values are compared under two generic integer assignments (|component| <= 3): a wrong rewrite rule that "
        "happens to be right on both points is not seen",
        "scalar values are exact numbers x*sqrt(n)/d; programs whose value leaves that domain (sum of different "
        "radicands, 32-bit guard) are not generated",
        "id() order is controlled for the symbol leaves and for cross products of two (possibly scaled) symbol leaves "
        "(pre-created, cache-pinned objects); the addresses of other intermediate product objects and of products over "
        "function leaves are whatever the allocator gives",
        "a RecursionError raised by .diff / vector_diff counts as non-termination (unbounded recursion)",
    ]
    return run.finish(exhaustive=True)


def replay_file(path: str) -> int:
    """Re-run one recorded case.  The recorded id() order of the operand objects (symbols and pre-created cross
    operands, `desc`) is looked up among the role assignments of this process' pool (the address layout differs
    from process to process): first with the same display-name coincidences, then the id() order alone."""
    data = json.loads(open(path).read())
    case = data["case"]
    _init()
    base = dict(p=case["p"], r=case["r"], kind=case["kind"], forder=tuple(case["forder"]))
    want = case.get("desc", "")
    exact, loose = [], []
    for pick in vx.itertools.permutations(range(vx.N_SYMS), 4):
        job = dict(base, order=tuple(pick))
        job["desc"] = describe_order(job)
        if job["desc"] == want and len(exact) < 6:
            exact.append(job)
        elif job["desc"].split(" same-display-name")[0] == want.split(" same-display-name")[0] and len(loose) < 6:
            loose.append(job)
    cands = exact + loose
    if not cands:
        print("(the recorded id() order is not realisable with this process' pool; using the recorded indices)")
        job = dict(base, order=tuple(case["order"]))
        job["desc"] = describe_order(job)
        cands = [job]
    bad, out, job = [], [], cands[0]
    for job in cands:
        _, out = replay_one(job)
        bad = [o for o in out if o["status"] in ("violation", "nonterm") and o["mode"] == case.get("mode", o["mode"])]
        if bad:
            break
    for o in bad:
        print(f"VIOLATION property={PID} replay={path}\n  {o['mode']}: {o['what']}")
    print("replayed:", vx.prog_str(job["p"]), "| id-order", job["desc"], "->", "violation" if bad else
          "; ".join(f"{o['mode']}: {o['status']} {o.get('expr', '')}" for o in out))
    return 1 if bad else 0


if __name__ == "__main__":
    main_wrapper(main)
