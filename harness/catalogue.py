"""The catalogue of symplyphysics (laws/, definitions/, conditions/): module list, decorated `calculate_*`
functions with their gate declarations, and deterministic argument synthesis.

Shared by the catalogue-wide checks (C02, C03, C04).  Nothing here judges anything: it only lists, exposes
declarations and builds arguments.

    list_modules()                      module names, from the working tree (no import)
    load(name)                          import one module -> (module, None) | (None, "ExcType: message")
    guarded_functions(module)           [Guarded] for every function of the module carrying decorator layers
    Guarded.inputs / .output / .output_same / .params / .missing_guards
    declared_dimension(decl)            declaration (Dimension | Symbol | Function | Symbolic | tuple) -> Dimension(s)
    shape_of(g, param)                  "scalar" | "number" | "seq" | "vec" | "seqvec" | "other" from the annotation
    synth_value(seed, g, param, k)      deterministic positive rational from (seed, function, parameter, k)
    synth_argument(seed, g, param)      a valid argument for one guarded parameter
    synth_arguments(seed, g)            {param: argument} for all parameters (UNKNOWN where nothing can be built)
    quantity_of(value, dimension)       Quantity(value * SI unit of the dimension)

The decorator declarations are read from `__verif_spec__` (set on every wrapper layer when
SYMPLYPHYSICS_VERIF=1); closure introspection is the fallback when the attribute is absent.
"""
from __future__ import annotations

import hashlib
import importlib
import inspect
import typing
from dataclasses import dataclass, field
from fractions import Fraction

from .common import REPO

TOPS = ("laws", "definitions", "conditions")


class _Unknown:
    def __repr__(self):
        return "UNKNOWN"


UNKNOWN = _Unknown()      # marker: no argument could be synthesised for this parameter


def list_modules(tops=TOPS) -> list[str]:
    """All catalogue module names (sorted), read from the file system of the working tree."""
    root = REPO / "symplyphysics"
    out = []
    for top in tops:
        for p in sorted((root / top).rglob("*.py")):
            if p.name == "__init__.py":
                continue
            rel = p.relative_to(REPO).with_suffix("")
            out.append(".".join(rel.parts))
    return sorted(out)


def load(name: str):
    try:
        return importlib.import_module(name), None
    except Exception as e:  # pylint: disable=broad-except
        return None, f"{type(e).__name__}: {str(e)[:200]}"


@dataclass
class Guarded:
    module: str
    name: str
    wrapper: typing.Callable            # the decorated function as published by the module
    func: typing.Callable               # the innermost, undecorated function
    layers: list                        # [(kind, spec)] outermost first; kind in input / output / output_same
    params: list                        # parameter names of the undecorated function, in order
    inputs: dict = field(default_factory=dict)   # guard name -> declaration (all input layers merged)
    output: object = None               # declaration of the result (validate_output), or None
    output_same: str | None = None      # parameter the result must match (validate_output_same), or None

    @property
    def qualname(self) -> str:
        return f"{self.module}.{self.name}"

    @property
    def missing_guards(self) -> list:
        """Guard names (and the output_same name) that are not parameters of the function."""
        bad = [g for g in self.inputs if g not in self.params]
        if self.output_same is not None and self.output_same not in self.params:
            bad.append(self.output_same)
        return bad

    @property
    def signature(self):
        return inspect.signature(self.func)


def _layer_spec(f):
    """(kind, spec) of one wrapper layer, or None if `f` is not a gate wrapper."""
    spec = getattr(f, "__verif_spec__", None)
    if spec is not None and "__verif_spec__" in vars(f):
        return spec
    # fallback: closure introspection of quantity_decorator's wrappers
    code = getattr(f, "__code__", None)
    if code is None or code.co_name != "wrapper_validate" or f.__closure__ is None:
        return None
    cells = dict(zip(code.co_freevars, (c.cell_contents for c in f.__closure__)))
    if "decorator_kwargs" in cells:
        return ("input", cells["decorator_kwargs"])
    if "param_name" in cells:
        return ("output_same", cells["param_name"])
    if "expected_unit" in cells:
        return ("output", cells["expected_unit"])
    return None


def unwrap(f):
    """Follow the gate wrapper layers of a published function: ([(kind, spec)], innermost function)."""
    layers = []
    seen = 0
    while seen < 10:
        spec = _layer_spec(f)
        if spec is None:
            break
        layers.append(tuple(spec))
        f = f.__wrapped__
        seen += 1
    return layers, f


def guarded_functions(module) -> list[Guarded]:
    """Decorated functions defined in `module` (in definition order)."""
    out = []
    for name, obj in vars(module).items():
        if not callable(obj) or getattr(obj, "__module__", None) != module.__name__:
            continue
        if not inspect.isfunction(obj):
            continue
        layers, func = unwrap(obj)
        if not layers:
            continue
        g = Guarded(module.__name__, name, obj, func, layers, list(inspect.signature(func).parameters))
        for kind, spec in layers:
            if kind == "input":
                g.inputs.update(spec)
            elif kind == "output":
                g.output = spec
            elif kind == "output_same":
                g.output_same = spec
        out.append(g)
    return out


def all_guarded(modules=None):
    """Import every catalogue module; returns ([Guarded], {module: import error})."""
    funcs, errors = [], {}
    for name in (modules if modules is not None else list_modules()):
        mod, err = load(name)
        if mod is None:
            errors[name] = err
            continue
        funcs.extend(guarded_functions(mod))
    return funcs, errors


# ---------------------------------------------------------------------------------------------------
# declarations


def declared_dimension(decl):
    """Declaration -> Dimension, a list of Dimensions (element-wise declaration), or None when the
    declaration carries none."""
    from sympy.physics.units import Dimension
    if isinstance(decl, (list, tuple)):
        ds = [declared_dimension(d) for d in decl]
        return None if any(d is None or isinstance(d, list) for d in ds) else ds
    if isinstance(decl, Dimension):
        return decl
    d = getattr(decl, "dimension", None)
    return d if isinstance(d, Dimension) else None


def is_any_dimension(dim) -> bool:
    from symplyphysics.core.dimensions.dimensions import AnyDimension
    return isinstance(dim, AnyDimension)


def quantity_of(value, dimension):
    """Quantity(value * SI unit of `dimension`) - the canonical valid argument for a declaration."""
    from symplyphysics import Quantity
    from symplyphysics.core.dimensions.dimensions import dimension_to_si_unit
    return Quantity(value * dimension_to_si_unit(dimension))


# ---------------------------------------------------------------------------------------------------
# shapes (from the annotations of the undecorated function)


def _ann(g: Guarded, param: str):
    try:
        hints = typing.get_type_hints(g.func)
    except Exception:  # pylint: disable=broad-except
        hints = {}
    if param in hints:
        return hints[param]
    p = g.signature.parameters.get(param)
    return None if p is None or p.annotation is inspect.Parameter.empty else p.annotation


def _shape_of_annotation(a) -> str:
    import collections.abc as cabc
    import types as _types
    from symplyphysics import Quantity, QuantityVector
    if a is None:
        return "other"
    if a is QuantityVector:
        return "vec"
    if a is Quantity:
        return "scalar"
    if a in (float, int):
        return "number"
    origin = typing.get_origin(a)
    args = typing.get_args(a)
    if origin in (typing.Union, _types.UnionType):
        shapes = [_shape_of_annotation(x) for x in args if x is not type(None)]
        for pref in ("scalar", "vec", "number"):
            if pref in shapes:
                return pref
        return shapes[0] if shapes else "other"
    if origin in (list, tuple, cabc.Sequence, cabc.Iterable):
        inner = [_shape_of_annotation(x) for x in args if x is not Ellipsis]
        if inner and all(s == "vec" for s in inner):
            return "seqvec"
        if inner and all(s in ("scalar", "number") for s in inner):
            return "seq"
        return "other"
    try:
        import sympy
        if isinstance(a, type) and issubclass(a, sympy.Number):
            return "number"
    except Exception:  # pylint: disable=broad-except
        pass
    return "other"


def shape_of(g: Guarded, param: str) -> str:
    return _shape_of_annotation(_ann(g, param))


def seq_length(g: Guarded, param: str, default: int = 3) -> int:
    """Length a sequence argument must have (fixed for tuple[...] annotations)."""
    a = _ann(g, param)
    if typing.get_origin(a) is tuple:
        args = typing.get_args(a)
        if args and Ellipsis not in args:
            return len(args)
    return default


# ---------------------------------------------------------------------------------------------------
# argument synthesis


def stable_hash(*parts) -> int:
    """Process-independent hash of the parts (for deterministic choices)."""
    return int.from_bytes(hashlib.sha256("|".join(str(p) for p in parts).encode()).digest()[:8], "big")


def synth_value(seed, g: Guarded, param: str, k: int = 0) -> Fraction:
    """A positive rational in [1/2, 10] fixed by (seed, function, parameter, k)."""
    h = stable_hash(seed, g.qualname, param, k)
    return Fraction(1 + h % 20, 2)


def _num(value: Fraction, exact: bool):
    import sympy
    return sympy.Rational(value.numerator, value.denominator) if exact else float(value)


def synth_argument(seed, g: Guarded, param: str, *, dimension=None, shape: str | None = None, exact: bool = True):
    """A valid argument for guarded parameter `param`: quantities of the declared dimension (or of
    `dimension`, to build an invalid one of the same shape), shaped after the annotation."""
    from symplyphysics import QuantityVector
    decl = g.inputs.get(param)
    dim = dimension if dimension is not None else declared_dimension(decl)
    if dim is None:
        return UNKNOWN
    shape = shape or shape_of(g, param)
    if isinstance(dim, list):                       # element-wise declaration: one quantity per entry
        return [quantity_of(_num(synth_value(seed, g, param, i), exact), d) for i, d in enumerate(dim)]
    if any(is_any_dimension(d) for d in [dim]):
        from sympy.physics.units import length
        dim = length                                # any dimension admitted: take a length
    if shape == "vec":
        return QuantityVector([quantity_of(_num(synth_value(seed, g, param, i), exact), dim) for i in range(3)])
    if shape == "seqvec":
        return [QuantityVector([quantity_of(_num(synth_value(seed, g, param, 3 * j + i), exact), dim) for i in range(3)])
                for j in range(2)]
    if shape == "seq":
        return [quantity_of(_num(synth_value(seed, g, param, i), exact), dim) for i in range(seq_length(g, param))]
    return quantity_of(_num(synth_value(seed, g, param), exact), dim)


def synth_unguarded(seed, g: Guarded, param: str, exact: bool = True):
    """Best effort for a parameter without a guard: numbers for int/float annotations, a dimensionless
    quantity for Quantity; UNKNOWN otherwise (callers treat the function as undecided for this tuple)."""
    from symplyphysics import Quantity
    p = g.signature.parameters[param]
    if p.default is not inspect.Parameter.empty:
        return p.default
    a = _ann(g, param)
    if a is int:
        return 2 + stable_hash(seed, g.qualname, param) % 3
    shape = _shape_of_annotation(a)
    if shape == "number":
        return _num(synth_value(seed, g, param), exact)
    if shape == "scalar":
        return Quantity(_num(synth_value(seed, g, param), exact))
    return UNKNOWN


def synth_arguments(seed, g: Guarded, exact: bool = True) -> dict:
    """{parameter: argument} for every parameter of the function, in signature order."""
    out = {}
    for p in g.params:
        if p in g.inputs:
            a = _ann(g, p)
            if a is int:                            # guarded counts (dimensionless) stay integers
                out[p] = 2 + stable_hash(seed, g.qualname, p) % 3
            else:
                out[p] = synth_argument(seed, g, p, exact=exact)
        else:
            out[p] = synth_unguarded(seed, g, p, exact)
    return out
