"""code -> spec for C05: recorded collect_quantity traces validated by spec/CollectTrace.tla."""
from . import collect_trace, qc_common


def validate(run, sc, tier):
    from symplyphysics import Quantity
    merged = collect_trace.record_tests(sc, tier, run.seed)
    run.coverage["recorder"] = {k: merged[k] for k in ("events", "files", "pytest_rc", "pytest_tail", "dropped")}
    if merged["pytest_rc"] != 0:
        run.outside(f"pytest under the recorder ended with rc={merged['pytest_rc']} (not this property's verdict)")
    collect_trace.validate_traces(run, sc, merged["traces"], "q", "tests")
    leaves = qc_common.setup()
    cases = getattr(run, "cases_for_traces", [])
    prog = collect_trace.record_programs(cases, lambda c: qc_common.build(c["p"], leaves, False), Quantity,
                                         4000 if tier == "quick" else 40000, run.seed)
    for k, v in prog["dropped"].items():
        run.outside(f"recorder: {k}", v)
    collect_trace.validate_traces(run, sc, prog["traces"], "q", "programs")
