"""code -> spec for C05 (filled in once hook H3 exists)."""


def validate(run, sc, tier):
    return
