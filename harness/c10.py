"""C10: Cartesian vector arithmetic obeys vector-space, dot and cross product laws.

model        : spec/VecArith.tla - TLC checks the identities of the statement on the model for every operand
               pair (grid -2..2, lengths 0..3 x 0..3) and every operand triple (smaller grid), and the refusal
               rules for every combination of coordinate-system objects.
spec -> code : TLC emits every pair / triple with the model's results; the real add_/subtract_cartesian_vectors,
               scale_vector, dot_vectors, cross_cartesian_vectors, vector_magnitude, vector_unit, project_vector,
               reject_cartesian_vector, equal_vectors are called with SymPy integers and compared exactly
               (projection / rejection after multiplying by the model's denominator, magnitude and unit squared).
               The same functions are called once per length combination with generic symbols and the symbolic
               results are evaluated on the whole grid against the model (polynomials of degree <= 2 per variable
               agreeing on 5 points per variable are identical).
code -> spec : the real results of the compositions named by the statement ((a+b)-b, (a x b).a, |a x b|^2,
               proj + rej, ...) are recorded as JSON and spec/VecArithTrace.tla lets TLC decide the identities on
               the recorded values.
"""
from __future__ import annotations

import json
import sys
from fractions import Fraction

from .common import HardTimeout, Run, main_wrapper, make_pool, pmap, time_limit
from .geom import in_threads, pad3, rat, to_fraction
from .tlc import Scratch, run_tlc, write_cfg

PID = "C10"

TIERS = {
    #            grid of the pair model / replay, grid of the triple model / replay
    "quick": dict(pairs="Grid5", triples="Grid3"),
    "thorough": dict(pairs="Grid5", triples="Grid4"),
}
SCALARS = "Scalars3"
MODEL_INVARIANTS = ["TypeOK", "Laws2", "Laws3", "RefusalRules", "NaryRefusalRules"]
TRACE_CHUNK = 16000

_SYS = None


def _init():
    """Coordinate-system objects 1..6 of the model: two distinct Cartesian, one cylindrical, one spherical, and a
    cylindrical and a spherical one wrapping the SAME CoordSys3D as Cartesian system 1."""
    global _SYS  # pylint: disable=global-statement
    from symplyphysics.core.coordinate_systems.coordinate_systems import CoordinateSystem
    if _SYS is None:
        _SYS = {1: CoordinateSystem(), 2: CoordinateSystem(),
                3: CoordinateSystem(CoordinateSystem.System.CYLINDRICAL),
                4: CoordinateSystem(CoordinateSystem.System.SPHERICAL)}
        _SYS[5] = CoordinateSystem(CoordinateSystem.System.CYLINDRICAL, _SYS[1].coord_system)
        _SYS[6] = CoordinateSystem(CoordinateSystem.System.SPHERICAL, _SYS[1].coord_system)
    return _SYS


def _vec(comps, sysid=1):
    from sympy import Integer
    from symplyphysics import Vector
    return Vector([Integer(c) for c in comps], _init()[sysid])


def _call(fn, *args):
    try:
        with time_limit(20):
            return ("ok", fn(*args))
    except HardTimeout:
        return ("timeout", None)
    except Exception as e:  # pylint: disable=broad-except
        return ("raised", f"{type(e).__name__}: {str(e)[:80]}")


def _ints(v):
    """Components of a returned Vector as exact integers zero-extended to 3, or None."""
    comps = list(v.components)
    if len(comps) > 3:
        return None
    out = []
    for c in comps:
        f = to_fraction(c)
        if f is None or f.denominator != 1:
            return None
        out.append(int(f))
    return pad3(out)


def _fracs(v):
    comps = list(v.components)
    if len(comps) > 3:
        return None
    out = [to_fraction(c) for c in comps]
    if any(f is None for f in out):
        return None
    return pad3(out)


def _int(x):
    f = to_fraction(x)
    return int(f) if f is not None and f.denominator == 1 else None


def _show(obs):
    if obs[0] != "ok":
        return f"{obs[0]} {obs[1] or ''}".strip()
    v = obs[1]
    return str(list(v.components)) if hasattr(v, "components") else str(v)


# ---------------------------------------------------------------------------------------------------------
# spec -> code: one pair

def replay_pair(case):
    """Returns (case, problems [(clause, what)], outside [reason], record for the trace spec or None)."""
    from symplyphysics.core.vectors import arithmetics as ar
    a, b = _vec(case["a"], case["sa"]), _vec(case["b"], case["sb"])
    verdict = case["verdict"]
    problems, outside = [], []

    def check(op, obs, compare):
        """Compare one observed outcome with the model's verdict and value."""
        v = verdict[op]
        if obs[0] == "timeout":
            outside.append(f"{op}: call timed out")
            return
        if v == "open":
            return
        if v == "refuse":
            if obs[0] != "raised":
                problems.append((op, f"model refuses (systems {case['sa']},{case['sb']}), code returned {_show(obs)}"))
            return
        if obs[0] == "raised":
            problems.append((op, f"model accepts, code raised {obs[1]}"))
            return
        bad = compare(obs[1])
        if bad:
            problems.append((op, bad))

    def expect_vec(want):
        return lambda got: None if _ints(got) == want else f"components {list(got.components)}, model {want}"

    def expect_int(want):
        return lambda got: None if _int(got) == want else f"value {got}, model {want}"

    check("add", _call(ar.add_cartesian_vectors, a, b), expect_vec(case["add"]))
    check("sub", _call(ar.subtract_cartesian_vectors, a, b), expect_vec(case["sub"]))
    check("dot", _call(ar.dot_vectors, a, b), expect_int(case["dot"]))
    check("cross", _call(ar.cross_cartesian_vectors, a, b), expect_vec(case["cross"]))
    check("eq", _call(ar.equal_vectors, a, b),
          lambda got: None if (got is True or got is False) and got == case["eq"] else f"equal_vectors -> {got}, model {case['eq']}")
    den = case["pden"]
    if den != 0:
        def scaled(want):
            def cmp(got):
                fr = _fracs(got)
                if fr is None or [f * den for f in fr] != [Fraction(w) for w in want]:
                    return f"components {list(got.components)}, model {want}/{den}"
                return None
            return cmp
        check("proj", _call(ar.project_vector, a, b), scaled(case["pnum"]))
        check("rej", _call(ar.reject_cartesian_vector, a, b), scaled(case["rnum"]))
    else:
        # projection onto the zero vector is undefined; only the refusal clauses apply
        for op, fn in (("proj", ar.project_vector), ("rej", ar.reject_cartesian_vector)):
            if verdict[op] == "refuse":
                check(op, _call(fn, a, b), lambda got: None)
            elif verdict[op] == "accept":
                outside.append(f"{op}: target is the zero vector (undefined)")
    # one-vector operations.  They are functions of the operand: before the Cartesian clauses of a are evaluated,
    # the same component tuple is measured in a cylindrical, a spherical and another Cartesian system; b is measured
    # in the Cartesian system first, then elsewhere, then again.
    if verdict["un"] == "accept":
        verdict = dict(verdict, scale="accept", msq="accept", unit="accept", **{"msq of b": "accept", "msq of b (again)": "accept"})
        for other in (3, 4, 2):
            _call(ar.vector_magnitude, _vec(case["a"], other))
        if case["sb"] == case["sa"]:
            check("msq of b", _call(lambda v: ar.vector_magnitude(v)**2, b), expect_int(case["msqb"]))
            for other in (4, 3, 2):
                _call(ar.vector_magnitude, _vec(case["b"], other))
                _call(ar.vector_unit, _vec(case["b"], other))
            check("msq of b (again)", _call(lambda v: ar.vector_magnitude(v)**2, b), expect_int(case["msqb"]))
        for k, want in zip(case["ks"], case["scale"]):
            check("scale", _call(ar.scale_vector, k, a), expect_vec(want))
        check("msq", _call(lambda v: ar.vector_magnitude(v)**2, a), expect_int(case["msq"]))
        if case["msq"] != 0:
            def unit_ok(got):
                import sympy as sp
                comps = pad3(list(got.components))
                for c, sq, sg in zip(comps, case["usq"], case["usign"]):
                    if to_fraction(sp.sympify(c)**2) != Fraction(sq[0], sq[1]) or _sign(c) != sg:
                        return f"components {list(got.components)}, model squares {case['usq']} signs {case['usign']}"
                return None
            check("unit", _call(ar.vector_unit, a), unit_ok)
        else:
            outside.append("unit: zero vector (undefined)")
    record = None
    # the record of real results is made whether or not the comparison above passed: TLC decides on its own
    if not outside_blocks_record(outside) and case["sa"] == case["sb"] == 1 and not any(p[1].startswith("model accepts, code raised") for p in problems):
        record = record_pair(case, a, b)
        if isinstance(record, tuple):
            problems.append(record)
            record = None
    return case, problems, outside, record


def outside_blocks_record(outside):
    return any("timed out" in o for o in outside)


def _sign(c):
    import sympy as sp
    c = sp.sympify(c)
    return 1 if c.is_positive else -1 if c.is_negative else 0 if c.is_zero else None


# ---------------------------------------------------------------------------------------------------------
# code -> spec: what the real code returns for the compositions named by the statement

class _NotExact(Exception):
    pass


def _need(x, what):
    if x is None:
        raise _NotExact(what)
    return x


def record_pair(case, a, b):
    from symplyphysics.core.vectors import arithmetics as ar
    try:
        with time_limit(60):
            add_ab, add_ba = ar.add_cartesian_vectors(a, b), ar.add_cartesian_vectors(b, a)
            sub_ab = ar.subtract_cartesian_vectors(a, b)
            cr_ab, cr_ba = ar.cross_cartesian_vectors(a, b), ar.cross_cartesian_vectors(b, a)
            r = {
                "k": "pair", "a": case["a"], "b": case["b"],
                "add_ab": _need(_ints(add_ab), "a+b"), "add_ba": _need(_ints(add_ba), "b+a"),
                "sub_ab": _need(_ints(sub_ab), "a-b"),
                "sab_b": _need(_ints(ar.subtract_cartesian_vectors(add_ab, b)), "(a+b)-b"),
                "sab_p": _need(_ints(ar.add_cartesian_vectors(sub_ab, b)), "(a-b)+b"),
                "dot_ab": _need(_int(ar.dot_vectors(a, b)), "a.b"), "dot_ba": _need(_int(ar.dot_vectors(b, a)), "b.a"),
                "dot_aa": _need(_int(ar.dot_vectors(a, a)), "a.a"),
                "msq_a": _need(_int(ar.vector_magnitude(a)**2), "|a|^2"),
                "msq_b": _need(_int(ar.vector_magnitude(b)**2), "|b|^2"),
                "cr_ab": _need(_ints(cr_ab), "a x b"), "cr_ba": _need(_ints(cr_ba), "b x a"),
                "d_cr_a": _need(_int(ar.dot_vectors(cr_ab, a)), "(a x b).a"),
                "d_cr_b": _need(_int(ar.dot_vectors(cr_ab, b)), "(a x b).b"),
                "msq_cr": _need(_int(ar.vector_magnitude(cr_ab)**2), "|a x b|^2"),
                "eq_ab": bool(ar.equal_vectors(a, b)), "eq_aa": bool(ar.equal_vectors(a, a)),
                "eq_comm": bool(ar.equal_vectors(add_ab, add_ba)),
                "sc": [],
            }
            for k in case["ks"]:
                ka = ar.scale_vector(k, a)
                r["sc"].append({
                    "k": k, "ka": _need(_ints(ka), "k a"),
                    "l": _need(_ints(ar.scale_vector(k, add_ab)), "k(a+b)"),
                    "r": _need(_ints(ar.add_cartesian_vectors(ka, ar.scale_vector(k, b))), "ka+kb"),
                    "dl": _need(_int(ar.dot_vectors(ka, b)), "(ka).b"),
                    "cl": _need(_ints(ar.cross_cartesian_vectors(ka, b)), "(ka) x b"),
                })
            zero3 = [rat(0)] * 3
            r["hp"] = case["pden"] != 0
            if r["hp"]:
                pr, rj = ar.project_vector(a, b), ar.reject_cartesian_vector(a, b)
                r["pr"] = [rat(f) for f in _need(_fracs(pr), "proj")]
                r["rj"] = [rat(f) for f in _need(_fracs(rj), "rej")]
                r["prj"] = [rat(f) for f in _need(_fracs(ar.add_cartesian_vectors(pr, rj)), "proj+rej")]
                r["d_rj_b"] = rat(_need(to_fraction(ar.dot_vectors(rj, b)), "rej.b"))
            else:
                r.update(pr=zero3, rj=zero3, prj=zero3, d_rj_b=rat(0))
            r["hu"] = case["msq"] != 0
            if r["hu"]:
                u = ar.vector_unit(a)
                comps = pad3(list(u.components))
                r["usq"] = [rat(_need(to_fraction(c * c), "unit^2")) for c in comps]
                r["usg"] = [_need(_sign(c), "sign of unit") for c in comps]
                r["msq_u"] = rat(_need(to_fraction(ar.vector_magnitude(u)**2), "|unit|^2"))
            else:
                r.update(usq=zero3, usg=[0, 0, 0], msq_u=rat(0))
            return r
    except _NotExact as e:
        return ("record", f"real result of {e} is not an exact integer / rational vector of <= 3 components")
    except HardTimeout:
        return None
    except Exception as e:  # pylint: disable=broad-except
        return ("record", f"composition raised {type(e).__name__}: {str(e)[:100]}")


def replay_triple(case):
    """Model comparison and trace record for one operand triple (one Cartesian system)."""
    from symplyphysics.core.vectors import arithmetics as ar
    a, b, c = _vec(case["a"]), _vec(case["b"]), _vec(case["c"])
    problems, outside = [], []
    try:
        with time_limit(60):
            ab = ar.add_cartesian_vectors(a, b)
            r = {
                "k": "triple", "a": case["a"], "b": case["b"], "c": case["c"],
                "l": _need(_ints(ar.add_cartesian_vectors(ab, c)), "(a+b)+c"),
                "r": _need(_ints(ar.add_cartesian_vectors(a, ar.add_cartesian_vectors(b, c))), "a+(b+c)"),
                "v": _need(_ints(ar.add_cartesian_vectors(a, b, c)), "add(a,b,c)"),
                "sv": _need(_ints(ar.subtract_cartesian_vectors(a, b, c)), "subtract(a,b,c)"),
                "d_l": _need(_int(ar.dot_vectors(ab, c)), "(a+b).c"),
                "d_ac": _need(_int(ar.dot_vectors(a, c)), "a.c"), "d_bc": _need(_int(ar.dot_vectors(b, c)), "b.c"),
                "d_r": _need(_int(ar.dot_vectors(c, ab)), "c.(a+b)"),
                "d_ca": _need(_int(ar.dot_vectors(c, a)), "c.a"), "d_cb": _need(_int(ar.dot_vectors(c, b)), "c.b"),
                "c_l": _need(_ints(ar.cross_cartesian_vectors(ab, c)), "(a+b) x c"),
                "c_s": _need(_ints(ar.add_cartesian_vectors(ar.cross_cartesian_vectors(a, c),
                                                            ar.cross_cartesian_vectors(b, c))), "a x c + b x c"),
                "c_r": _need(_ints(ar.cross_cartesian_vectors(c, ab)), "c x (a+b)"),
                "c_rs": _need(_ints(ar.add_cartesian_vectors(ar.cross_cartesian_vectors(c, a),
                                                             ar.cross_cartesian_vectors(c, b))), "c x a + c x b"),
            }
    except _NotExact as e:
        return case, [("record", f"real result of {e} is not an exact integer vector of <= 3 components")], outside, None
    except HardTimeout:
        return case, problems, ["triple: call timed out"], None
    except Exception as e:  # pylint: disable=broad-except
        return case, [("accept", f"model accepts, code raised {type(e).__name__}: {str(e)[:100]}")], outside, None
    for key, want, what in (("l", case["add3"], "(a+b)+c"), ("r", case["add3"], "a+(b+c)"), ("v", case["add3"], "add(a,b,c)"),
                            ("d_l", case["dotl"], "(a+b).c"), ("c_l", case["crossl"], "(a+b) x c"),
                            ("c_r", case["crossr"], "c x (a+b)")):
        if r[key] != want:
            problems.append((what, f"{what} = {r[key]}, model {want}"))
    return case, problems, outside, r


FLOAT_FACTORS = ("1e-9", "1e-20", "1e15")
FLOAT_RTOL = 1e-9


def replay_float(args):
    """The common-factor law (k u).(k v) = k^2 (u.v), |k u| = |k| |u|, |unit(k u)| = 1, k u + k v = k (u + v),
    (k u) x (k v) = k^2 (u x v) with a FLOAT factor k (tiny or huge components).  Expected values are k-multiples of
    the model's integer results; the comparison is relative (floats are outside TLC's exact arithmetic)."""
    import sympy as sp
    from symplyphysics import Vector
    from symplyphysics.core.vectors import arithmetics as ar
    case, kstr = args
    k = sp.Float(kstr)
    cs = _init()[1]
    ua, ub = _vec(case["a"]), _vec(case["b"])
    variants = {
        "Float components": (Vector([k * c for c in case["a"]], cs), Vector([k * c for c in case["b"]], cs)),
        "scale_vector(k, .)": (ar.scale_vector(k, ua), ar.scale_vector(k, ub)),
    }
    problems, outside = [], []
    size = max(1.0, (case["msq"] * case["msqb"]) ** 0.5)

    def close(got, want, scale):
        try:
            got = sp.sympify(got)
            if not got.is_number or not got.is_finite:
                return False
            return abs(float(got) - float(want)) <= FLOAT_RTOL * float(scale)
        except (TypeError, ValueError):
            return False

    for name, (a, b) in variants.items():
        try:
            with time_limit(20):
                d = ar.dot_vectors(a, b)
                if not close(d, k * k * case["dot"], k * k * size):
                    problems.append((f"float dot k={kstr}", f"{name}: (k a).(k b) = {d}, model k^2 * {case['dot']} = {k * k * case['dot']}"))
                m = ar.vector_magnitude(a)
                want_m = k * sp.sqrt(case["msq"])
                if not close(m, want_m, k * max(1.0, case["msq"] ** 0.5)):
                    problems.append((f"float magnitude k={kstr}", f"{name}: |k a| = {m}, model k * sqrt({case['msq']}) = {sp.N(want_m)}"))
                s_ = pad3(list(ar.add_cartesian_vectors(a, b).components))
                if not all(close(g, k * w, k * size) for g, w in zip(s_, case["add"])):
                    problems.append((f"float add k={kstr}", f"{name}: k a + k b = {s_}, model k * {case['add']}"))
                c_ = pad3(list(ar.cross_cartesian_vectors(a, b).components))
                if not all(close(g, k * k * w, k * k * size) for g, w in zip(c_, case["cross"])):
                    problems.append((f"float cross k={kstr}", f"{name}: (k a) x (k b) = {c_}, model k^2 * {case['cross']}"))
                if case["msq"] != 0:
                    u = ar.vector_unit(a)
                    comps = pad3(list(u.components))
                    want = [sg * (Fraction(sq[0], sq[1]) ** 0.5) for sq, sg in zip(case["usq"], case["usign"])]
                    if not all(close(g, w, 1.0) for g, w in zip(comps, want)):
                        problems.append((f"float unit k={kstr}", f"{name}: unit(k a) = {comps}, model {want}"))
                    mu = ar.vector_magnitude(u)
                    if not close(mu, 1.0, 1.0):
                        problems.append((f"float unit magnitude k={kstr}", f"{name}: |unit(k a)| = {mu}, model 1"))
        except HardTimeout:
            outside.append("float family: call timed out")
        except Exception as e:  # pylint: disable=broad-except
            problems.append((f"float k={kstr}", f"{name}: model accepts, code raised {type(e).__name__}: {str(e)[:100]}"))
    return case, problems, outside, kstr


def replay_nary(case):
    """add_cartesian_vectors / subtract_cartesian_vectors with 3 or 4 operands of arbitrary systems."""
    from symplyphysics.core.vectors import arithmetics as ar
    vs = [_vec(c, s) for c, s in zip(case["vs"], case["sys"])]
    problems, outside = [], []
    for op, fn, want in (("add", ar.add_cartesian_vectors, case["sum"]), ("sub", ar.subtract_cartesian_vectors, case["diff"])):
        obs = _call(fn, *vs)
        if obs[0] == "timeout":
            outside.append(f"{op}: call timed out")
        elif case["verdict"] == "refuse":
            if obs[0] != "raised":
                problems.append((op, f"model refuses the {len(vs)}-ary call (systems {case['sys']}), code returned {_show(obs)}"))
        elif obs[0] == "raised":
            problems.append((op, f"model accepts, code raised {obs[1]}"))
        elif _ints(obs[1]) != want:
            problems.append((op, f"components {list(obs[1].components)}, model {want}"))
    return case, problems, outside, None


# ---------------------------------------------------------------------------------------------------------
# generic symbols: symbolic results evaluated on the grid against the model + expr_equals spot checks

def symbolic_tables():
    """For every length combination, the real functions applied to vectors of generic symbols, compiled to
    Python functions of the components (exact on Fractions)."""
    import sympy as sp
    from symplyphysics import Vector
    from symplyphysics.core.vectors import arithmetics as ar
    cs = _init()[1]
    sa, sb = sp.symbols("a1:4"), sp.symbols("b1:4")
    tables, problems, outside = {}, [], []
    for la in range(4):
        for lb in range(4):
            a, b = Vector(list(sa[:la]), cs), Vector(list(sb[:lb]), cs)
            try:
                with time_limit(120):
                    exprs = {
                        "add": pad3(ar.add_cartesian_vectors(a, b).components),
                        "sub": pad3(ar.subtract_cartesian_vectors(a, b).components),
                        "dot": [ar.dot_vectors(a, b)],
                        "cross": pad3(ar.cross_cartesian_vectors(a, b).components),
                        "msq": [ar.vector_magnitude(a)**2],
                    }
                    if lb > 0:
                        exprs["proj"] = pad3(ar.project_vector(a, b).components)
                        exprs["rej"] = pad3(ar.reject_cartesian_vector(a, b).components)
                    if la > 0:
                        exprs["usq"] = [sp.sympify(c)**2 for c in pad3(ar.vector_unit(a).components)]
                    tables[(la, lb)] = {k: sp.lambdify(sa + sb, v, modules=[{"sqrt": _no_sqrt}, "math"]) for k, v in exprs.items()}
                    # spot checks with expr_equals (the library's own comparison) on the symbolic results
                    from symplyphysics.core.expr_comparisons import expr_equals
                    cr = ar.cross_cartesian_vectors(a, b)
                    spot = {
                        "lagrange": expr_equals(ar.dot_vectors(cr, cr), ar.dot_vectors(a, a) * ar.dot_vectors(b, b) - ar.dot_vectors(a, b)**2),
                        "cross_orth": expr_equals(ar.dot_vectors(cr, a), 0) and expr_equals(ar.dot_vectors(cr, b), 0),
                        "add_comm": ar.equal_vectors(ar.add_cartesian_vectors(a, b), ar.add_cartesian_vectors(b, a)),
                        "sub_inverse": ar.equal_vectors(ar.subtract_cartesian_vectors(ar.add_cartesian_vectors(a, b), b), a),
                        "cross_antisym": ar.equal_vectors(cr, ar.scale_vector(-1, ar.cross_cartesian_vectors(b, a))),
                        "dot_sym": expr_equals(ar.dot_vectors(a, b), ar.dot_vectors(b, a)),
                    }
                    if lb > 0:
                        pr, rj = ar.project_vector(a, b), ar.reject_cartesian_vector(a, b)
                        spot["proj_plus_rej"] = ar.equal_vectors(ar.add_cartesian_vectors(pr, rj), a)
                        spot["rej_orth"] = expr_equals(ar.dot_vectors(rj, b), 0)
                    if la > 0:
                        spot["unit_magnitude"] = expr_equals(ar.vector_magnitude(ar.vector_unit(a))**2, 1)
                    for name, ok in spot.items():
                        if ok is not True:
                            problems.append((f"symbolic {name} lengths=({la},{lb})", f"expr_equals / equal_vectors -> {ok} on generic symbols"))
            except HardTimeout:
                outside.append(f"symbolic lengths ({la},{lb}): SymPy timed out")
            except Exception as e:  # pylint: disable=broad-except
                problems.append((f"symbolic lengths=({la},{lb})", f"raised {type(e).__name__}: {str(e)[:100]}"))
    return tables, problems, outside


def _no_sqrt(_x):
    raise ArithmeticError("sqrt left in a squared symbolic result")


def symbolic_on_grid(tables, case):
    """Evaluate the symbolic results at the operands of one emitted pair and compare with the model."""
    la, lb = len(case["a"]), len(case["b"])
    t = tables.get((la, lb))
    if t is None:
        return []
    args = [Fraction(x) for x in pad3(case["a"]) + pad3(case["b"])]
    bad = []

    def ev(name):
        out = t[name](*args)
        return [Fraction(x) for x in out]

    try:
        for name, want in (("add", case["add"]), ("sub", case["sub"]), ("dot", [case["dot"]]), ("cross", case["cross"]),
                           ("msq", [case["msq"]])):
            got = ev(name)
            if got != [Fraction(w) for w in want]:
                bad.append((f"symbolic {name}", f"symbolic result at a={case['a']} b={case['b']} is {[str(g) for g in got]}, model {want}"))
        if case["pden"] != 0 and "proj" in t:
            for name, num in (("proj", case["pnum"]), ("rej", case["rnum"])):
                got = ev(name)
                if [g * case["pden"] for g in got] != [Fraction(w) for w in num]:
                    bad.append((f"symbolic {name}", f"symbolic result at a={case['a']} b={case['b']} is {[str(g) for g in got]}, model {num}/{case['pden']}"))
        if case["msq"] != 0 and "usq" in t:
            got = ev("usq")
            if got != [Fraction(n, d) for n, d in case["usq"]]:
                bad.append(("symbolic unit", f"squared unit components at a={case['a']} are {[str(g) for g in got]}, model {case['usq']}"))
    except (ArithmeticError, ValueError, TypeError) as e:
        bad.append(("symbolic evaluation", f"a={case['a']} b={case['b']}: {type(e).__name__}: {e}"))
    return bad


# ---------------------------------------------------------------------------------------------------------

def _pmap_pool(fn, cases):
    """Parallel replay in a fork pool that lives only while no TLC thread is running."""
    with make_pool() as pool:
        yield from pmap(pool, fn, cases, chunk=500)


def _key(case, clause):
    if case.get("nary"):
        return f"n-ary operands={case['vs']} systems={case['sys']}: {clause}"
    if case.get("n") == 3:
        return f"triple a={case['a']} b={case['b']} c={case['c']}: {clause}"
    return f"pair a={case['a']} b={case['b']} systems=({case.get('sa', 1)},{case.get('sb', 1)}): {clause}"


def _cfg(sc, name, grid, systems, nops, invariants, lens=(0, 1, 2, 3)):
    return write_cfg(sc / f"{name}.cfg", constants={"Grid": f"<-{grid}", "Systems": set(systems), "NOps": nops,
                                                     "Scalars": f"<-{SCALARS}", "Lens": set(lens)}, invariants=invariants)


def model_and_emit(run, sc, configs):
    """Model-check and emit every configuration (label, grid, systems, nops, lens, emit invariant); the TLC runs go
    side by side."""
    def check(label, grid, systems, nops, lens, _emit):
        cfg = _cfg(sc, f"va_{label}", grid, systems, nops, MODEL_INVARIANTS, lens)
        return run_tlc("VecArith", cfg, sc, workers=4, coverage=True, allow_violation=False)

    def emit(label, grid, systems, nops, lens, emit_inv):
        cfg2 = _cfg(sc, f"va_{label}_emit", grid, systems, nops, [emit_inv], lens)
        return run_tlc("VecArith", cfg2, sc, workers=1, allow_violation=False, heap_gb=12)

    results = in_threads([(check, c) for c in configs] + [(emit, c) for c in configs], max_threads=10)
    out = {}
    for (label, grid, systems, nops, lens, _), res, res2 in zip(configs, results[:len(configs)], results[len(configs):]):
        run.add_tlc(res, f"model check {label}: {MODEL_INVARIANTS}, Grid={grid} Systems={sorted(systems)} NOps={nops} Lens={sorted(lens)}")
        out[label] = res2.printed
        run.coverage.setdefault("cases_emitted", {})[label] = len(res2.printed)
    return out


def validate_trace(run, sc, records, label):
    """code -> spec: TLC decides the identities on the recorded real results, chunk by chunk."""
    failing = {}

    def one(n, start):
        chunk = records[start:start + TRACE_CHUNK]
        path = sc / f"trace_{label}_{n}.json"
        path.write_text(json.dumps(chunk))
        cfg = write_cfg(sc / f"vat_{label}_{n}.cfg", init="TInit", next_="TNext",
                        constants={"Grid": "<-Grid5", "Systems": {1}, "NOps": 3, "Scalars": f"<-{SCALARS}", "Lens": {0, 1, 2, 3}},
                        invariants=["Checked", "ModelLaws"], postcondition="AllConsumed")
        res = run_tlc("VecArithTrace", cfg, sc, workers=1, env={"TRACE_FILE": str(path)}, allow_violation=False, heap_gb=6)
        path.unlink()
        return len(chunk), res

    for n, (size, res) in enumerate(in_threads([(one, (n, start)) for n, start in enumerate(range(0, len(records), TRACE_CHUNK))],
                                               max_threads=6)):
        run.add_tlc(res, f"trace validation {label} chunk {n}: {size} records of real results")
        if res.distinct != size + 1:
            raise RuntimeError(f"trace spec consumed {res.distinct - 1} of {size} records")
        for p in res.printed:
            if isinstance(p, dict) and "fail" in p:
                failing[p["fail"]] = p["clauses"]
    return failing


MAX_LISTED = 300


def report(run, key, what, replay):
    """run.violation, but after MAX_LISTED distinct violations the rest is only counted (a badly broken
    implementation fails hundreds of thousands of cases; listing them all is useless and quadratic)."""
    if len(run.violations) >= MAX_LISTED and key not in run.known:
        run.coverage["violations_beyond_the_listed_ones"] = run.coverage.get("violations_beyond_the_listed_ones", 0) + 1
        return
    run.violation(key, what, replay)


def main() -> int:
    tier = sys.argv[1] if len(sys.argv) > 1 else "quick"
    if tier == "--replay":
        return replay_file(sys.argv[2])
    t = TIERS[tier]
    run = Run(PID, tier)
    _init()
    with Scratch() as sc:
        full = (0, 1, 2, 3)
        emitted = model_and_emit(run, sc, [("pairs", t["pairs"], {1}, 2, full, "Emit"), ("systems", "Grid1", {1, 2, 3, 4, 5, 6}, 2, full, "Emit"),
                                           ("triples", t["triples"], {1}, 3, full, "Emit"),
                                           # n-ary sums / differences over all system combinations, offending operand anywhere
                                           ("nary3", "Grid1", {1, 2, 3, 4, 5, 6}, 3, (0, 1, 3), "EmitNary"),
                                           ("nary4", "Grid1", {1, 2, 3, 5, 6}, 4, (0, 2), "EmitNary")])
        pairs, systems, triples = emitted["pairs"], emitted["systems"], emitted["triples"]
        nary = emitted["nary3"] + emitted["nary4"]

        # generic symbols
        tables, sym_problems, sym_outside = symbolic_tables()
        for clause, what in sym_problems:
            report(run, clause, what, {"kind": "symbolic", "clause": clause})
        for o in sym_outside:
            run.outside(o)
        run.coverage["symbolic_length_combinations"] = len(tables)
        sym_evals = 0
        for case in pairs:
            for clause, what in symbolic_on_grid(tables, case):
                report(run, _key(case, clause), what, {"kind": "pair", "model": case})
            sym_evals += 1
        run.coverage["symbolic_results_evaluated_on_grid_pairs"] = sym_evals

        records = []
        refusals = 0
        for label, cases, fn in (("pairs", pairs, replay_pair), ("systems", systems, replay_pair), ("triples", triples, replay_triple),
                                 ("nary", nary, replay_nary)):
            for case, problems, outside, record in _pmap_pool(fn, cases):
                run.traces += 1
                if label == "nary":
                    run.count(json.dumps([case["sys"], case["vs"]]))
                    refusals += case["verdict"] == "refuse"
                    for o in outside:
                        run.outside(o)
                    for clause, what in problems:
                        report(run, _key(case, clause), what, {"kind": "nary", "model": case})
                    continue
                run.count(json.dumps([case.get("sa", 1), case.get("sb", 1), case["a"], case["b"], case.get("c", [])]))
                if label == "systems" and "refuse" in case["verdict"].values():
                    refusals += 1
                if sum(map(len, (case["a"], case["b"], case.get("c", [])))) >= 6:
                    run.sample({"a": case["a"], "b": case["b"], **({"c": case["c"]} if "c" in case else {}),
                                "model": {k: case[k] for k in ("add", "dot", "cross", "pnum", "pden", "add3", "crossl") if k in case}})
                for o in outside:
                    run.outside(o)
                for clause, what in problems:
                    report(run, _key(case, clause), what, {"kind": "pair" if case["n"] == 2 else "triple", "model": case})
                if record is not None:
                    record["id"] = len(records)
                    records.append((record, case))
        # float components: the pairs over {-1, 0, 2}, tiny and huge common factors
        family = [c for c in pairs if all(x in (-1, 0, 2) for x in c["a"] + c["b"])]
        floats = 0
        for case, problems, outside, kstr in _pmap_pool(replay_float, [(c, k) for c in family for k in FLOAT_FACTORS]):
            run.traces += 1
            floats += 1
            run.count(json.dumps(["float", kstr, case["a"], case["b"]]))
            for o in outside:
                run.outside(o)
            for clause, what in problems:
                report(run, _key(case, clause), what, {"kind": "float", "model": case, "k": kstr})
        run.coverage["float_cases_compared_with_relative_tolerance"] = floats
        run.coverage["system_combinations_with_a_refusal"] = refusals
        run.coverage["records_of_real_results"] = len(records)

        failing = validate_trace(run, sc, [r for r, _ in records], "real")
        run.traces += len(records)
        run.coverage["records_rejected_by_trace_spec"] = len(failing)
        for rid, clauses in sorted(failing.items()):
            rec, case = records[rid]
            for clause in clauses:
                report(run, _key(case, f"recorded {clause}"),
                              f"TLC rejects clause {clause} on the recorded real results {json.dumps(rec)[:300]}",
                              {"kind": "pair" if case["n"] == 2 else "triple", "model": case, "record": rec, "clause": clause})
        selftest(run, sc, records, failing)
    run.assumptions += [
        "components are SymPy integers on the grid; the functions are polynomial (rational for project/reject/unit) of "
        "degree <= 2 per component, so agreement on 5 points per variable extends to all values; the symbolic results "
        "for generic symbols are evaluated on the same grid",
        "results are compared modulo trailing zero components (missing components count as zero)",
        "projection onto / unit of the zero vector is undefined and not compared",
        "any exception counts as a refusal; a rejection is treated as a sum (refused for non-Cartesian vectors)",
        "float components (factors 1e-9, 1e-20, 1e15 on the pairs over {-1, 0, 2}) are compared with the k-multiples of "
        "the model's integer results with relative tolerance 1e-9: decided outside TLC's exact arithmetic",
        "magnitude / unit clauses are evaluated before and after the same component tuples were measured in a "
        "cylindrical, a spherical and another Cartesian system (results must not depend on the history)",
    ]
    return run.finish(exhaustive=True)


def selftest(run, sc, records, failing):
    """Binding of the trace direction: a record with one corrupted real result must be rejected by TLC."""
    import copy
    good = next((r for r, _ in records if r["k"] == "pair" and r["cr_ab"] != [0, 0, 0] and r["hp"] and r["id"] not in failing), None)
    if good is None:
        run.coverage["trace_selftest"] = "skipped: no intact record"
        return
    good = copy.deepcopy(good)
    bad1, bad2 = copy.deepcopy(good), copy.deepcopy(good)
    bad1["cr_ab"][0] += 1
    bad2["rj"][0] = rat(Fraction(*bad2["rj"][0]) + 1)
    for i, r in enumerate((good, bad1, bad2)):
        r["id"] = i
    dummy = Run(PID, "selftest")
    failing = validate_trace(dummy, sc, [good, bad1, bad2], "selftest")
    ok = 0 not in failing and "cross" in failing.get(1, []) and "proj_plus_rej" in failing.get(2, [])
    run.coverage["trace_selftest"] = "corrupted cross / rejection records rejected, intact record accepted" if ok else f"FAILED: {failing}"
    if not ok:
        raise RuntimeError(f"trace self-test failed: {failing}")


def replay_file(path: str) -> int:
    data = json.loads(open(path).read())
    c = data["case"]
    _init()
    bad = []
    if c.get("kind") == "symbolic":
        _, problems, _ = symbolic_tables()
        bad = [p for p in problems if p[0] == c["clause"]]
    else:
        case = c["model"]
        if c.get("kind") == "float":
            _, problems, _, _ = replay_float((case, c["k"]))
            for b in problems:
                print(f"VIOLATION property={PID} replay={path}\n  {b}")
            print("replayed:", data["key"], "->", "violation" if problems else "ok")
            return 1 if problems else 0
        fn = replay_nary if case.get("nary") else replay_pair if case["n"] == 2 else replay_triple
        _, problems, _, record = fn(case)
        bad = list(problems)
        if case["n"] == 2 and not case.get("nary"):
            tables, _, _ = symbolic_tables()
            bad += symbolic_on_grid(tables, case)
        if record is not None:
            record["id"] = 0
            run = Run(PID, "replay")
            with Scratch() as sc:
                failing = validate_trace(run, sc, [record], "replay")
            bad += [(f"recorded {cl}", "TLC rejects the clause on the recorded real results") for cl in failing.get(0, [])]
    for b in bad:
        print(f"VIOLATION property={PID} replay={path}\n  {b}")
    print("replayed:", data["key"], "->", "violation" if bad else "ok")
    return 1 if bad else 0


if __name__ == "__main__":
    main_wrapper(main)
