"""C20: physical constants carry reference values and dimensions.

spec          : spec/Constants.tla holds the reference table (CODATA 2018/2022, exact SI constants, IAU nominal
                values) as TLA+ data and the seven identities of the statement evaluated with 9-digit limb
                arithmetic (spec/BigMant.tla).  TLC checks the table's well-formedness and the identities on
                the reference table itself; the limb products are cross-checked against exact integers here.
code -> spec  : every constant of symplyphysics.quantities is read from the working tree (dimension exponents
                through SymPy's dimension system, SI value = scale factor / 1000^(mass exponent), normalised to a
                9-digit mantissa; the number of digits to which the library itself writes the value) and
                spec/ConstantsTrace.tla decides every row (dimension Equiv, value within the k-th digit) and the
                identities on the recorded values.  Exhaustive over the finite table.
"""
from __future__ import annotations

import ast
import json
import re
import sys
from decimal import ROUND_HALF_UP, Decimal, getcontext
from pathlib import Path

from . import qc_common
from .common import REPO, Run, main_wrapper
from .tlc import Scratch, run_tlc, write_cfg

PID = "C20"
getcontext().prec = 50


def normalise(value: Decimal):
    """Positive decimal -> (nine-digit mantissa rounded half-up, decimal exponent)."""
    if value <= 0 or not value.is_finite():
        return 0, 0
    e = value.adjusted()
    m = int((value.scaleb(8 - e)).quantize(Decimal(1), rounding=ROUND_HALF_UP))
    if m == 10**9:
        m, e = 10**8, e + 1
    return m, e


def normalise12(value: Decimal):
    """Positive decimal -> (four base-1000 limbs of the twelve-digit mantissa, rounded half-up; decimal exponent)."""
    if value <= 0 or not value.is_finite():
        return [100, 0, 0, 0], -99
    e = value.adjusted()
    m = int((value.scaleb(11 - e)).quantize(Decimal(1), rounding=ROUND_HALF_UP))
    if m == 10**12:
        m, e = 10**11, e + 1
    return [m // 10**9, (m // 10**6) % 1000, (m // 1000) % 1000, m % 1000], e


def literal_digits(text: str) -> int:
    """Significant digits of a numeric literal as written (0.529e-10 -> 3, 120.17 -> 5, 298 -> 3)."""
    t = text.lower().replace("_", "")
    t = re.split(r"e", t)[0]
    t = t.replace(".", "").lstrip("0")
    return max(len(t), 1)


def stated_digits(src: str) -> dict:
    """name -> digits to which the library states the value in `name = Quantity(expr, ...)`: the shortest
    single floating-point literal of the expression (integer literals next to a float literal are exact factors
    such as 2 or 1 + ..; exponents of ** are not values); the single integer literal if there is no float literal
    (298 * kelvin); 9 if the expression has no literal or is computed from several literals."""
    tree = ast.parse(src)
    out = {}

    def literals(node):
        if isinstance(node, ast.BinOp) and isinstance(node.op, ast.Pow):
            yield from literals(node.left)
            return
        if isinstance(node, ast.Constant) and isinstance(node.value, (int, float)) and not isinstance(node.value, bool):
            yield node
            return
        for child in ast.iter_child_nodes(node):
            yield from literals(child)

    for stmt in tree.body:
        if not (isinstance(stmt, ast.Assign) and isinstance(stmt.value, ast.Call) and stmt.value.args):
            continue
        lits = list(literals(stmt.value.args[0]))
        floats = [n for n in lits if isinstance(n.value, float)]
        # the precision a constant is STATED to is that of the one literal it is written with; a value computed
        # from several literals (sun_luminosity * 10**(0.4 * 4.74)) states none and is held to the reference
        names = {n.id for n in ast.walk(stmt.value.args[0]) if isinstance(n, ast.Name)} - {"units", "prefixes"}
        single = len(floats or lits) == 1 and not names      # one literal times units, nothing else
        digits = [literal_digits(ast.get_source_segment(src, n)) for n in (floats or lits)] if single else []
        for t in stmt.targets:
            if isinstance(t, ast.Name):
                out[t.id] = min(min(digits), 9) if digits else 9
    return out


# read paths: every public way of obtaining the SI value of a constant (name -> function(quantity) -> number)
def _paths():
    from symplyphysics.core import convert
    from symplyphysics.core.dimensions import dimension_to_si_unit
    return {
        "scale": None,                                           # scale factor / 1000^(mass exponent), see record_table
        "convert_to_si": convert.convert_to_si,
        "convert_to_unit": lambda q: convert.convert_to(q, dimension_to_si_unit(q.dimension)),
        "expr_symbolic": lambda q: convert.evaluate_expression(q, evaluate=False),
        "expr_evaluated": lambda q: convert.evaluate_expression(q, evaluate=True),
        "evaluate_quantity": lambda q: convert.convert_to_si(convert.evaluate_quantity(q)),
    }


# helper operations a user may have performed on a constant before reading it (results are discarded)
def _helpers():
    from symplyphysics import Quantity
    from symplyphysics.core import convert
    from symplyphysics.docs.printer_code import code_str
    from symplyphysics.docs.printer_latex import latex_str
    return {
        "evalq_n3": lambda q: convert.evaluate_quantity(q, n=3),
        "evalq_chop": lambda q: convert.evaluate_quantity(q, chop=True),
        "to_si": lambda q: (convert.convert_to_si(q), convert.convert_to_float(q / q)),
        "expr_eval_n4": lambda q: convert.evaluate_expression(q * 2, evaluate=True, n=4),
        "algebra": lambda q: (Quantity(q * 3), Quantity(q**2), Quantity(q / 7)),
        "print": lambda q: (str(q), code_str(q), latex_str(q)),
    }


PATH_NAMES = ["scale", "convert_to_si", "convert_to_unit", "expr_symbolic", "expr_evaluated", "evaluate_quantity"]
HELPER_NAMES = ["evalq_n3", "evalq_chop", "to_si", "expr_eval_n4", "algebra", "print", "long_session"]
N_HIDS = 5               # relations evaluated with twelve-digit arithmetic (HIdNames)
N_IDS = 9                # identities / relations of spec/Constants.tla (IdNames)
LONG_SESSION = 40000     # fresh quantities created by the history step "long_session" (a long interactive session)


def long_session() -> None:
    """Create LONG_SESSION fresh quantities of several kinds; the catalogue's constants are the oldest
    quantities of the process and must not be affected by how many were created after them."""
    from sympy.physics import units
    from symplyphysics import Quantity
    forms = [units.meter, 1, 3 * units.second, units.kilogram / units.meter**3]
    for i in range(LONG_SESSION):
        Quantity(forms[i % len(forms)])


def catalogue():
    from symplyphysics import quantities
    from symplyphysics.core.symbols.quantities import Quantity
    exported = list(quantities.__all__)
    others = sorted(n for n, o in vars(quantities).items()
                    if isinstance(o, Quantity) and not n.startswith("_") and n not in exported)
    return quantities, exported, others


def record_tables(hist):
    """Perform the helper calls of `hist` on every constant, then read every constant through every path.
    Returns ([{hist, path, rows}], problems).  Run in a forked child (isolated()): a helper that corrupts the
    shared catalogue must not leak into the next history."""
    import sympy
    from symplyphysics.core.symbols.quantities import Quantity
    quantities, exported, others = catalogue()
    src = (REPO / "symplyphysics" / "quantities" / "__init__.py").read_text(encoding="utf-8")
    sig = stated_digits(src)
    helpers, paths = _helpers(), _paths()
    problems = []
    names = exported + others
    for h in hist:
        if h == "long_session":
            long_session()
            continue
        for name in names:
            q = getattr(quantities, name, None)
            if isinstance(q, Quantity):
                try:
                    helpers[h](q)
                except Exception:  # pylint: disable=broad-except
                    pass      # the helper's own refusal is not the subject of C20
    tables = []
    for path in PATH_NAMES:
        rows = []
        for name in names:
            q = getattr(quantities, name, None)
            if not isinstance(q, Quantity):
                problems.append((name, path, f"exported name {name} is not a Quantity: {q!r}"))
                continue
            dim = qc_common.project_dim(q.dimension)
            if dim is None or any(int(d) != 1 for _n, d in dim):
                problems.append((name, path, f"dimension {q.dimension} has no integer SI exponent vector"))
                continue
            try:
                raw = qc_common.to_si(q.scale_factor, dim) if path == "scale" else paths[path](q)
                si = sympy.N(raw, 30)
                ok = bool(si.is_real and si.is_finite)
            except Exception as e:  # pylint: disable=broad-except
                problems.append((name, path, f"reading the constant through {path} raised {type(e).__name__}: {e}"))
                continue
            if not ok:
                problems.append((name, path, f"value read through {path} is {raw}: not a finite real number"))
                continue
            m, e = normalise(Decimal(str(si)))
            hl, he = normalise12(Decimal(str(si)))
            rows.append({"name": name, "exported": name in exported, "d": dim, "m": m, "e": e, "hl": hl, "he": he,
                         "sig": sig.get(name, 9),
                         "_value": str(sympy.N(si, 12)), "_dimension": str(q.dimension)})
        tables.append({"hist": list(hist), "path": path, "rows": rows})
    return tables, problems


def isolated(fn, *args):
    """Run fn(*args) in a forked child and return its (pickled) result."""
    import os
    import pickle
    r, w = os.pipe()
    pid = os.fork()
    if pid == 0:
        os.close(r)
        try:
            data = pickle.dumps(("ok", fn(*args)))
        except BaseException as e:  # pylint: disable=broad-except
            data = pickle.dumps(("error", f"{type(e).__name__}: {e}"))
        with os.fdopen(w, "wb") as f:
            f.write(data)
        os._exit(0)
    os.close(w)
    with os.fdopen(r, "rb") as f:
        data = f.read()
    os.waitpid(pid, 0)
    kind, val = pickle.loads(data)
    if kind == "error":
        raise RuntimeError(f"recording child failed: {val}")
    return val


def enumerate_histories(run: Run, sc: Path, max_hist: int):
    cfg = write_cfg(sc / "constants_use.cfg", init="UInit", next_="UNext",
                    constants={"MaxHist": max_hist, "Helpers": set(HELPER_NAMES), "Paths": set(PATH_NAMES)},
                    invariants=["CatalogueImmutable", "ReadsAgree", "IdentitiesSurvive", "UEmit"])
    res = run_tlc("ConstantsUse", cfg, sc, workers=1, coverage=True, allow_violation=False)
    run.add_tlc(res, f"use model: every history of up to {max_hist} helper calls over {len(HELPER_NAMES)} helpers leaves the "
                     "catalogue and the identities intact; every read path returns the catalogue entry")
    return [p["hist"] for p in res.printed if "hist" in p]


def check_reference(run: Run, sc: Path) -> None:
    cfg = write_cfg(sc / "constants.cfg", invariants=["TableWellFormed", "IdentitiesHoldOnReference", "BigMantSane",
                                                       "IdReport", "MulProbe", "ProbeOrder"])
    res = run_tlc("Constants", cfg, sc, workers=1, coverage=True, allow_violation=False)
    run.add_tlc(res, "reference table: well-formed rows, the seven identities hold on the reference values "
                     "(oracle self-consistency), limb multiplication exact on all 3-digit operand pairs")
    order = next(p["order"] for p in res.printed if "order" in p)
    margins = {p["id"]: {"distance_in_9th_digit": p["dist"], "compared_to_digits": p["digits"]} for p in res.printed if "id" in p}
    run.coverage["identity_margins_on_reference"] = margins
    # limb arithmetic against exact integers
    n = 0
    for p in res.printed:
        if "x" not in p:
            continue
        for y, got in zip(order, p["p"]):
            exact = p["x"] * y
            digits = len(str(exact))
            want = (exact + 5 * 10**(digits - 10)) // 10**(digits - 9)
            e = digits - 17
            if want == 10**9:
                want, e = 10**8, e + 1
            n += 1
            if got["m"] != want or got["e"] != e:
                raise RuntimeError(f"BigMant!BMul({p['x']}, {y}) = {got}, exact {want}e{e}")
    run.coverage["limb_products_cross_checked"] = n
    run.evaluations += n


def check_recorded(run: Run, sc: Path, tables, label: str = "") -> None:
    tf = sc / f"constants_trace{label}.json"
    tf.write_text(json.dumps({"tables": [{"hist": t["hist"], "path": t["path"],
                                          "rows": [{k: v for k, v in r.items() if not k.startswith("_")} for r in t["rows"]]}
                                         for t in tables]}))
    cfg = write_cfg(sc / f"constants_trace{label}.cfg", init="TInit", next_="TNext",
                    invariants=["RowVerdict", "IdVerdict", "HIdVerdict", "Unmatched"])
    res = run_tlc("ConstantsTrace", cfg, sc, workers=1, env={"TRACE_FILE": str(tf)}, allow_violation=False)
    nrows = sum(len(t["rows"]) for t in tables)
    run.add_tlc(res, f"recorded constants: {len(tables)} tables (history of helper calls x read path), {nrows} rows and "
                     f"{N_IDS * len(tables)} identity / relation evaluations decided by ConstantsTrace")
    verdicts = {(p["tb"], p["row"]): p for p in res.printed if "row" in p}
    ids = {(p["tb"], p["id"]): p for p in res.printed if "id" in p}
    hids = {(p["tb"], p["hid"]): p for p in res.printed if "hid" in p}
    if len(hids) != N_HIDS * len(tables):
        raise RuntimeError(f"ConstantsTrace gave {len(hids)} twelve-digit relation verdicts for {len(tables)} tables")
    if len(verdicts) != nrows or len(ids) != N_IDS * len(tables):
        raise RuntimeError(f"ConstantsTrace gave {len(verdicts)} row verdicts for {nrows} rows, {len(ids)} identity verdicts")
    bad_plain = set()      # (name or identity, path) already wrong without any prior helper call
    for n, t in enumerate(tables, start=1):
        plain = not t["hist"]
        where = ("" if t["path"] == "scale" else f" read through {t['path']}") + \
                ("" if plain else f" after {' , '.join(t['hist'])} on the catalogue")
        suffix = ("" if t["path"] == "scale" else f" via {t['path']}") + ("" if plain else f" after {' '.join(t['hist'])}")
        for r in t["rows"]:
            v = verdicts[(n, r["name"])]
            name = r["name"]
            run.traces += 1
            if not v["covered"]:
                if plain and t["path"] == "scale":
                    if r["exported"]:
                        # the statement quantifies over EVERY exported constant, but a constant the reference table does
                        # not know cannot be judged either way: a correct new constant must not raise an alarm.  It is
                        # counted (loudly) as outside the decided fragment; the table has 52 rows to make this rare.
                        run.outside(f"EXPORTED constant without a reference row in spec/Constants.tla (not judged): {name} = "
                                    f"{r['_value']} ({r['_dimension']})")
                    else:
                        run.outside(f"public constant not in __all__ without a reference row: {name}")
                continue
            run.count(f"{name}{suffix}")
            what = []
            if not v["dim"]:
                what.append(f"dimension {r['_dimension']} (exponents L M T I K N J A = {[x[0] for x in r['d']]}) is not the "
                            "dimension of the quantity it names")
            if not v["val"]:
                what.append(f"SI value {r['_value']} (mantissa {r['m']}e{r['e']}){where} differs from the reference "
                            f"{v['refm']}e{v['refe']} by {v['dist']} units of the 9th digit; compared to {v['digits']} digits")
            if what:
                if (name, "scale") in bad_plain and not (plain and t["path"] == "scale"):
                    continue                  # the constant itself is wrong: reported once, for the direct read
                if plain:
                    bad_plain.add((name, t["path"]))
                elif (name, t["path"]) in bad_plain:
                    continue                  # already reported without the history
                if r["exported"]:
                    run.violation(f"row {name}{suffix}", "; ".join(what),
                                  {"name": name, "hist": t["hist"], "path": t["path"], "recorded": r, "verdict": v})
                else:
                    run.outside(f"public constant not in __all__ deviates from its reference: {name}{suffix}: " + "; ".join(what))
            if plain and t["path"] == "scale" and len(run.samples) < 4:
                run.sample({"constant": name, "recorded": {"m": r["m"], "e": r["e"], "dim": [x[0] for x in r["d"]], "stated_digits": r["sig"]},
                            "reference": {"m": v["refm"], "e": v["refe"]}, "compared_to_digits": v["digits"], "distance": v["dist"]})
        for idn in sorted({k[1] for k in ids}):
            v = ids[(n, idn)]
            run.traces += 1
            if not v["evaluated"]:
                if plain and t["path"] == "scale":
                    run.outside(f"identity {idn} not evaluated: a constant it involves is not exported")
                continue
            run.count(f"identity {idn}{suffix}")
            if not v["holds"]:
                if (idn, "scale") in bad_plain and not (plain and t["path"] == "scale"):
                    continue
                if plain:
                    bad_plain.add((idn, t["path"]))
                elif (idn, t["path"]) in bad_plain:
                    continue
                run.violation(f"identity {idn}{suffix}", f"identity {idn} fails on the library's values{where}: lhs {v['lhs']} vs "
                              f"rhs {v['rhs']}, {v['dist']} units of the 9th digit apart, compared to {v['digits']} digits",
                              {"identity": idn, "hist": t["hist"], "path": t["path"], "verdict": v})
    # relations in twelve-digit arithmetic
    for n, t in enumerate(tables, start=1):
        plain = not t["hist"]
        suffix = ("" if t["path"] == "scale" else f" via {t['path']}") + ("" if plain else f" after {' '.join(t['hist'])}")
        for idn in sorted({k[1] for k in hids}):
            v = hids[(n, idn)]
            run.traces += 1
            if not v["evaluated"]:
                continue
            run.count(f"relation12 {idn}{suffix}")
            if v["holds"]:
                continue
            if (idn, "scale") in bad_plain or (("h12 " + idn, "scale") in bad_plain and not (plain and t["path"] == "scale")):
                continue          # already reported at nine digits / for the direct read
            if plain:
                bad_plain.add(("h12 " + idn, t["path"]))
            elif ("h12 " + idn, t["path"]) in bad_plain:
                continue
            run.violation(f"relation {idn} at 1e-10{suffix}",
                          f"the constants are not mutually consistent: relation {idn} evaluated with twelve digits gives lhs "
                          f"{v['lhs']} vs rhs {v['rhs']}, {v['dist']} units of the 12th digit apart; it must hold within "
                          f"{v['q']}e-10 relative (the precision to which the constants involved are known)",
                          {"identity": idn, "hist": t["hist"], "path": t["path"], "verdict": v})
    run.coverage["relation_margins_12_digits"] = {
        k[1]: {"distance_in_12th_digit": v.get("dist"), "tolerance_1e-10": v.get("q")} for k, v in hids.items() if k[0] == 1}
    run.coverage["identity_margins_on_library_values"] = {
        k[1]: {"distance_in_9th_digit": v.get("dist"), "compared_to_digits": v.get("digits")} for k, v in ids.items() if k[0] == 1}
    un = next((p["unmatched"] for p in res.printed if "unmatched" in p), [])
    if un:
        run.coverage["reference_rows_without_library_constant"] = un
    if len(run.samples) < 6 and len(tables) > 1:
        t = tables[-1]
        run.sample({"history": t["hist"], "read_path": t["path"], "rows": len(t["rows"])})


def record_all(run: Run, sc: Path, max_hist: int):
    import symplyphysics.quantities  # noqa: F401  pylint: disable=unused-import,import-outside-toplevel
    hists = enumerate_histories(run, sc, max_hist)
    hists.sort(key=lambda h: (len(h), h))
    tables = []
    for h in hists:
        tbs, problems = isolated(record_tables, h)
        tables += tbs
        for name, path, what in problems:
            suffix = ("" if path == "scale" else f" via {path}") + ("" if not h else f" after {' '.join(h)}")
            run.violation(f"row {name}{suffix}", what, {"name": name, "hist": h, "path": path})
    run.coverage["histories_replayed"] = len(hists)
    run.coverage["read_paths"] = PATH_NAMES
    run.coverage["helper_operations"] = HELPER_NAMES
    first = tables[0]["rows"] if tables else []
    run.coverage["constants_recorded"] = {"exported": sum(1 for r in first if r["exported"]),
                                          "public_not_exported": [r["name"] for r in first if not r["exported"]]}
    return tables


def main() -> int:
    tier = sys.argv[1] if len(sys.argv) > 1 else "quick"
    if tier == "--replay":
        return replay_file(sys.argv[2])
    run = Run(PID, tier)
    with Scratch() as sc:
        check_reference(run, sc)
        tables = record_all(run, sc, 1 if tier == "quick" else 2)
        check_recorded(run, sc, tables)
    run.assumptions += [
        "reference values are CODATA 2018/2022 and IAU 2015 nominal values entered in spec/Constants.tla; where the two "
        "CODATA adjustments differ the reference precision stops before the first differing digit",
        "'within its stated precision': a value is compared to min(reference precision, digits of the shortest numeric "
        "literal the library writes in the defining expression) significant digits, one unit of that digit",
        "SymPy scale factors are relative to gram: SI value = scale factor / 1000^(mass exponent)",
        "identities are compared to the coarsest precision involved and to at most 7 digits (rounding of chained 9-digit products)",
        "public constants not listed in __all__ (gravitational_constant, sun_luminosity) are compared but a deviation is not an alarm",
        "a constant is read through the scale factor and through the public conversion / evaluation functions of "
        "symplyphysics.core.convert, before and after helper calls on the catalogue's own objects and after a 'long session' "
        f"creating {LONG_SESSION} fresh quantities (each history in a fresh "
        "process image); a helper raising is ignored, a read path raising is a violation",
    ]
    return run.finish(exhaustive=True)


def replay_file(path: str) -> int:
    """Re-run the recorded history (and the empty one) and look for the same finding."""
    data = json.loads(Path(path).read_text())
    run = Run(PID, "replay")
    key = data["key"]
    hist = data.get("case", {}).get("hist", [])
    import symplyphysics.quantities  # noqa: F401  pylint: disable=unused-import,import-outside-toplevel
    tables = []
    for h in ([[]] if not hist else [[], hist]):
        tbs, problems = isolated(record_tables, h)
        tables += tbs
        for name, pth, what in problems:
            suffix = ("" if pth == "scale" else f" via {pth}") + ("" if not h else f" after {' '.join(h)}")
            run.violation(f"row {name}{suffix}", what, {})
    with Scratch() as sc:
        check_recorded(run, sc, tables)
    bad = [v for v in run.violations if v["key"] == key]
    for v in bad:
        print(f"VIOLATION property={PID} replay={path}\n  {v['what']}")
    print("replayed:", key, "->", "violation" if bad else "ok")
    return 1 if bad else 0


if __name__ == "__main__":
    main_wrapper(main)
