"""C20: physical constants carry reference values and dimensions.

spec          : spec/Constants.tla holds the reference table (CODATA 2018/2022, exact SI constants, IAU nominal
                values) as TLA+ data and the seven identities of the statement evaluated with 9-digit limb
                arithmetic (spec/BigMant.tla).  TLC checks the table's well-formedness and the identities on
                the reference table itself; the limb products are cross-checked against exact integers here.
code -> spec  : every constant of symplyphysics.quantities is read from the working tree (dimension exponents
                through SymPy's dimension system, SI value = scale factor / 1000^(mass exponent), normalised to a
                9-digit mantissa; the number of digits to which the library itself writes the value) and
                spec/ConstantsTrace.tla decides every row (dimension Equiv, value within the k-th digit) and the
                identities on the recorded values.  Exhaustive over the finite table.
"""
from __future__ import annotations

import ast
import json
import re
import sys
from decimal import ROUND_HALF_UP, Decimal, getcontext
from pathlib import Path

from . import qc_common
from .common import REPO, Run, main_wrapper
from .tlc import Scratch, run_tlc, write_cfg

PID = "C20"
getcontext().prec = 50


def normalise(value: Decimal):
    """Positive decimal -> (nine-digit mantissa rounded half-up, decimal exponent)."""
    if value <= 0 or not value.is_finite():
        return 0, 0
    e = value.adjusted()
    m = int((value.scaleb(8 - e)).quantize(Decimal(1), rounding=ROUND_HALF_UP))
    if m == 10**9:
        m, e = 10**8, e + 1
    return m, e


def literal_digits(text: str) -> int:
    """Significant digits of a numeric literal as written (0.529e-10 -> 3, 120.17 -> 5, 298 -> 3)."""
    t = text.lower().replace("_", "")
    t = re.split(r"e", t)[0]
    t = t.replace(".", "").lstrip("0")
    return max(len(t), 1)


def stated_digits(src: str) -> dict:
    """name -> digits to which the library states the value in `name = Quantity(expr, ...)`: the shortest
    floating-point literal of the expression (integer literals next to a float literal are exact factors such as
    2 or 1 + ..; exponents of ** are not values); the shortest integer literal if there is no float literal
    (298 * kelvin); 9 if the expression has no literal."""
    tree = ast.parse(src)
    out = {}

    def literals(node):
        if isinstance(node, ast.BinOp) and isinstance(node.op, ast.Pow):
            yield from literals(node.left)
            return
        if isinstance(node, ast.Constant) and isinstance(node.value, (int, float)) and not isinstance(node.value, bool):
            yield node
            return
        for child in ast.iter_child_nodes(node):
            yield from literals(child)

    for stmt in tree.body:
        if not (isinstance(stmt, ast.Assign) and isinstance(stmt.value, ast.Call) and stmt.value.args):
            continue
        lits = list(literals(stmt.value.args[0]))
        floats = [n for n in lits if isinstance(n.value, float)]
        digits = [literal_digits(ast.get_source_segment(src, n)) for n in (floats or lits)]
        for t in stmt.targets:
            if isinstance(t, ast.Name):
                out[t.id] = min(min(digits), 9) if digits else 9
    return out


def record():
    """Read every public constant of the catalogue from the working tree."""
    import sympy
    from symplyphysics import quantities
    from symplyphysics.core.symbols.quantities import Quantity
    src = (REPO / "symplyphysics" / "quantities" / "__init__.py").read_text(encoding="utf-8")
    sig = stated_digits(src)
    exported = list(quantities.__all__)
    others = sorted(n for n, o in vars(quantities).items()
                    if isinstance(o, Quantity) and not n.startswith("_") and n not in exported)
    rows, problems = [], []
    for name in exported + others:
        q = getattr(quantities, name, None)
        if not isinstance(q, Quantity):
            problems.append((name, f"exported name {name} is not a Quantity: {q!r}"))
            continue
        dim = qc_common.project_dim(q.dimension)
        if dim is None or any(int(d) != 1 for _n, d in dim):
            problems.append((name, f"dimension {q.dimension} has no integer SI exponent vector"))
            continue
        si = sympy.N(qc_common.to_si(q.scale_factor, dim), 30)
        if not (si.is_real and si.is_finite):
            problems.append((name, f"SI value {si} is not a finite real number"))
            continue
        m, e = normalise(Decimal(str(si)))
        rows.append({"name": name, "exported": name in exported, "d": dim, "m": m, "e": e, "sig": sig.get(name, 9),
                     "_value": str(sympy.N(si, 12)), "_dimension": str(q.dimension)})
    return rows, problems


def check_reference(run: Run, sc: Path) -> None:
    cfg = write_cfg(sc / "constants.cfg", invariants=["TableWellFormed", "IdentitiesHoldOnReference", "BigMantSane",
                                                       "IdReport", "MulProbe", "ProbeOrder"])
    res = run_tlc("Constants", cfg, sc, workers=1, coverage=True, allow_violation=False)
    run.add_tlc(res, "reference table: well-formed rows, the seven identities hold on the reference values "
                     "(oracle self-consistency), limb multiplication exact on all 3-digit operand pairs")
    order = next(p["order"] for p in res.printed if "order" in p)
    margins = {p["id"]: {"distance_in_9th_digit": p["dist"], "compared_to_digits": p["digits"]} for p in res.printed if "id" in p}
    run.coverage["identity_margins_on_reference"] = margins
    # limb arithmetic against exact integers
    n = 0
    for p in res.printed:
        if "x" not in p:
            continue
        for y, got in zip(order, p["p"]):
            exact = p["x"] * y
            digits = len(str(exact))
            want = (exact + 5 * 10**(digits - 10)) // 10**(digits - 9)
            e = digits - 17
            if want == 10**9:
                want, e = 10**8, e + 1
            n += 1
            if got["m"] != want or got["e"] != e:
                raise RuntimeError(f"BigMant!BMul({p['x']}, {y}) = {got}, exact {want}e{e}")
    run.coverage["limb_products_cross_checked"] = n
    run.evaluations += n


def check_recorded(run: Run, sc: Path, rows, label: str = "") -> None:
    tf = sc / f"constants_trace{label}.json"
    tf.write_text(json.dumps({"rows": [{k: v for k, v in r.items() if not k.startswith("_")} for r in rows]}))
    cfg = write_cfg(sc / f"constants_trace{label}.cfg", init="TInit", next_="TNext",
                    invariants=["RowVerdict", "IdVerdict", "Unmatched"])
    res = run_tlc("ConstantsTrace", cfg, sc, workers=1, env={"TRACE_FILE": str(tf)}, allow_violation=False)
    run.add_tlc(res, f"recorded constants: {len(rows)} rows and 7 identities decided by ConstantsTrace")
    by_name = {r["name"]: r for r in rows}
    verdicts = {p["row"]: p for p in res.printed if "row" in p}
    ids = {p["id"]: p for p in res.printed if "id" in p}
    if set(verdicts) != set(by_name) or len(ids) != 7:
        raise RuntimeError(f"ConstantsTrace gave {len(verdicts)} row verdicts for {len(by_name)} rows, {len(ids)} identity verdicts")
    for name, v in verdicts.items():
        r = by_name[name]
        run.traces += 1
        if not v["covered"]:
            run.outside(f"constant without a reference row: {name}")
            continue
        run.count(name)
        what = []
        if not v["dim"]:
            what.append(f"dimension {r['_dimension']} (exponents L M T I K N J A = {[x[0] for x in r['d']]}) is not the "
                        "dimension of the quantity it names")
        if not v["val"]:
            what.append(f"SI value {r['_value']} (mantissa {r['m']}e{r['e']}) differs from the reference "
                        f"{v['refm']}e{v['refe']} by {v['dist']} units of the 9th digit; compared to {v['digits']} digits")
        if what:
            if r["exported"]:
                run.violation(f"row {name}", "; ".join(what), {"name": name, "recorded": r, "verdict": v})
            else:
                run.outside(f"public constant not in __all__ deviates from its reference: {name}: " + "; ".join(what))
        if len(run.samples) < 4:
            run.sample({"constant": name, "recorded": {"m": r["m"], "e": r["e"], "dim": [x[0] for x in r["d"]], "stated_digits": r["sig"]},
                        "reference": {"m": v["refm"], "e": v["refe"]}, "compared_to_digits": v["digits"], "distance": v["dist"]})
    for idn, v in ids.items():
        run.traces += 1
        if not v["evaluated"]:
            run.outside(f"identity {idn} not evaluated: a constant it involves is not exported")
            continue
        run.count(f"identity {idn}")
        if not v["holds"]:
            run.violation(f"identity {idn}", f"identity {idn} fails on the library's values: lhs {v['lhs']} vs rhs {v['rhs']}, "
                          f"{v['dist']} units of the 9th digit apart, compared to {v['digits']} digits",
                          {"identity": idn, "verdict": v, "rows": [r for r in rows if not r["name"].startswith("_")]})
    run.coverage["identity_margins_on_library_values"] = {
        k: {"distance_in_9th_digit": v.get("dist"), "compared_to_digits": v.get("digits")} for k, v in ids.items()}
    un = next((p["unmatched"] for p in res.printed if "unmatched" in p), [])
    if un:
        run.coverage["reference_rows_without_library_constant"] = un


def main() -> int:
    tier = sys.argv[1] if len(sys.argv) > 1 else "quick"
    if tier == "--replay":
        return replay_file(sys.argv[2])
    run = Run(PID, tier)
    with Scratch() as sc:
        check_reference(run, sc)
        rows, problems = record()
        for name, what in problems:
            run.violation(f"row {name}", what, {"name": name})
        run.coverage["constants_recorded"] = {"exported": sum(1 for r in rows if r["exported"]),
                                              "public_not_exported": [r["name"] for r in rows if not r["exported"]]}
        check_recorded(run, sc, rows)
    run.assumptions += [
        "reference values are CODATA 2018/2022 and IAU 2015 nominal values entered in spec/Constants.tla; where the two "
        "CODATA adjustments differ the reference precision stops before the first differing digit",
        "'within its stated precision': a value is compared to min(reference precision, digits of the shortest numeric "
        "literal the library writes in the defining expression) significant digits, one unit of that digit",
        "SymPy scale factors are relative to gram: SI value = scale factor / 1000^(mass exponent)",
        "identities are compared to the coarsest precision involved and to at most 7 digits (rounding of chained 9-digit products)",
        "public constants not listed in __all__ (gravitational_constant, sun_luminosity) are compared but a deviation is not an alarm",
    ]
    return run.finish(exhaustive=True)


def replay_file(path: str) -> int:
    data = json.loads(Path(path).read_text())
    run = Run(PID, "replay")
    rows, problems = record()
    key = data["key"]
    with Scratch() as sc:
        check_recorded(run, sc, rows)
    bad = [v for v in run.violations if v["key"] == key] + [p for p in problems if f"row {p[0]}" == key]
    for v in bad:
        print(f"VIOLATION property={PID} replay={path}\n  {v}")
    print("replayed:", key, "->", "violation" if bad else "ok")
    return 1 if bad else 0


if __name__ == "__main__":
    main_wrapper(main)
