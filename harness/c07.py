"""C07: unit conversion is exact, invertible and scale-consistent.

spec -> code : TLC enumerates every behaviour of spec/Convert.tla - every conversion chain a -> b -> c over the
               unit table (refusals included), every two-operand expression, every Celsius/kelvin round trip -
               and each is replayed into the real convert_to / convert_to_si / convert_to_float /
               evaluate_expression / to_kelvin / from_kelvin / *_quantity with Rational inputs (exact equality)
               and with float inputs (relative 1e-12).
code -> spec : the real convert_to / convert_to_si are run over SymPy's own table of units (every unit with
               an exact rational scale, pairwise) and spec/ConvertTrace.tla recomputes every recorded result
               from the specification's operators.
"""
from __future__ import annotations

import json
import sys
from fractions import Fraction

from .common import HardTimeout, Run, main_wrapper, make_pool, pmap, time_limit
from .dimproj import dimstr, project_dim
from .tlc import Scratch, parse_tla_tuple, run_tlc, write_cfg

PID = "C07"
TEMP_TICK = 10**6      # temperatures of the model are millionths of a degree

ALL_UNITS = {"one", "percent", "rad", "aq", "m", "km", "cm", "mm", "kilo_m", "milli_m", "inch", "s", "minute", "hour", "ms",
             "kg", "gram", "tonne", "newton", "kN", "joule", "Nm", "Wh", "watt", "pascal", "kPa", "hertz", "rad_s",
             "aq_s", "liter", "m3", "mps", "kmh", "kelvin", "mK", "thousand", "hundredth", "half", "bit", "byte", "bit_s"}
INEXACT = {"milli_m", "half"}       # prefixes.milli is the float 10**-3; "half" is the plain float 0.5

CFG = {
    "quick": dict(UnitNames=ALL_UNITS - {"half"}, ValueNames={"v1", "v2", "vm3", "vh", "v75"}, MaxChain=2,
                  ExprOps={"mul", "div", "add", "sub", "sq", "scale"},
                  ExprUnits={"m", "km", "s", "hour", "kg", "newton", "one", "percent"}, ExprVals={"v2", "vh"},
                  ImagFactors={2}, ComplexVals={"v2", "vh"}, ScaledVals={"v75"}, Exps10={40 - 30, 40 + 30},
                  Temps={300000000 + t for t in (-273150000, -40000000, 0, 25000000, 100000000, 273150000,
                                                 15000, 4222100, 21456000, 300123456, -268927899)}),
    "thorough": dict(UnitNames=ALL_UNITS, ValueNames={"v1", "v2", "vm3", "vh", "v75", "v1000", "vmil", "v0"}, MaxChain=3,
                     ExprOps={"mul", "div", "add", "sub", "sq", "scale"},
                     ExprUnits={"m", "km", "cm", "inch", "s", "hour", "ms", "kg", "gram", "newton", "kN", "joule", "Wh",
                                "one", "percent", "rad", "aq", "kmh", "liter", "kelvin"},
                     ExprVals={"v2", "vh", "vm3", "v75"}, ImagFactors={1, 3}, ComplexVals={"v1", "vm3", "vh", "v75"},
                     ScaledVals={"v2", "v75", "vm3"}, Exps10={40 - 34, 40 - 30, 40 - 19, 40 - 13, 40 + 20, 40 + 34},
                     Temps={300000000 + t for t in (-273150000, -273149999, -40000000, -1, 0, 1, 25000000, 36770000,
                                                    100000000, 273150000, 299990000, 15000, 4222100, 21456000, 300123456,
                                                    -268927899, 1234567, 77355001, 1357246801)}),
}
INVARIANTS = ["TypeOK", "ValuePreserved", "Composition", "Inverse", "OwnSIUnit", "RefusalExact", "Linear",
              "ForeignBaseCounts", "EvaluationPreservesValue", "Homogeneous", "CelsiusHelper", "TempInverse"]
# units that are plain SymPy expressions (no wrapped symplyphysics Quantity inside): an expression may mix them
# with wrapped quantities
PLAIN_UNITS = ALL_UNITS - {"bit", "byte", "bit_s", "one", "aq", "aq_s", "mK", "kilo_m", "milli_m", "kN", "thousand", "hundredth", "half", "bit", "byte", "bit_s"}
VALS = {"v1": Fraction(1), "v2": Fraction(2), "vm3": Fraction(-3), "vh": Fraction(1, 2), "v75": Fraction(7, 5),
        "v1000": Fraction(1000), "vmil": Fraction(1, 1000), "v0": Fraction(0)}

_R = None


def _real():
    global _R  # pylint: disable=global-statement
    if _R is None:
        import sympy as sp
        from sympy.physics import units
        from sympy.physics.units.definitions.dimension_definitions import angle as angle_type
        from symplyphysics import Quantity, convert_to, convert_to_float, convert_to_si, prefixes
        from symplyphysics.core.convert import evaluate_expression
        from symplyphysics.core.symbols import celsius
        u = units
        _R = dict(
            sp=sp, Quantity=Quantity, convert_to=convert_to, convert_to_si=convert_to_si,
            convert_to_float=convert_to_float, evaluate_expression=evaluate_expression, celsius=celsius, units=units,
            millikelvin=Quantity(sp.Rational(1, 1000) * units.kelvin),
            unit={
                "one": sp.S.One, "percent": u.percent, "rad": u.radian, "aq": Quantity(1, dimension=angle_type),
                "m": u.meter, "km": u.kilometer, "cm": u.centimeter, "mm": u.millimeter,
                "kilo_m": prefixes.kilo * u.meter, "milli_m": prefixes.milli * u.meter, "inch": u.inch,
                "s": u.second, "minute": u.minute, "hour": u.hour, "ms": u.millisecond,
                "kg": u.kilogram, "gram": u.gram, "tonne": u.metric_ton,
                "newton": u.newton, "kN": prefixes.kilo * u.newton,
                "joule": u.joule, "Nm": u.newton * u.meter, "Wh": u.watt * u.hour, "watt": u.watt,
                "pascal": u.pascal, "kPa": u.kPa, "hertz": u.hertz, "rad_s": u.radian / u.second,
                "aq_s": Quantity(1, dimension=angle_type) / u.second,
                "liter": u.liter, "m3": u.meter**3, "mps": u.meter / u.second, "kmh": u.kilometer / u.hour,
                # plain numbers as conversion targets / as the unit a dimensionless quantity is counted in
                "thousand": sp.Integer(1000), "hundredth": sp.Rational(1, 100), "half": 0.5,
                "bit": u.bit, "byte": u.byte, "bit_s": u.bit / u.second,        # information has no SI unit
                "kelvin": u.kelvin, "mK": Quantity(sp.Rational(1, 1000) * u.kelvin),
            })
    return _R


def frac(x):
    """SymPy number -> Fraction (exact for Rational, the float's exact value otherwise); None if not real."""
    sp = _real()["sp"]
    x = sp.sympify(x)
    if x.is_Rational:
        return Fraction(int(x.p), int(x.q))
    if x.is_Float or (x.is_number and x.is_real):
        return Fraction(float(x))
    return None


def same(got, want: Fraction, exact: bool, scale: Fraction = Fraction(0)) -> bool:
    """scale: magnitude of the operands of a sum (float round-off of a cancelling sum is relative to them)."""
    f = frac(got)
    if f is None:
        return False
    sp = _real()["sp"]
    if exact:
        return sp.sympify(got).is_Rational and f == want
    return abs(f - want) <= max(abs(want), scale) * Fraction(1, 10**12)


def rat(fr: Fraction):
    return _real()["sp"].Rational(fr.numerator, fr.denominator)


def quantity(val: Fraction, uname: str, as_float: bool, k: int = 0):
    """The quantity val * (1 + k i) units."""
    r = _real()
    return r["Quantity"]((float(val) if as_float else rat(val)) * (1 + k * r["sp"].I) * r["unit"][uname])


def same_complex(got, want: Fraction, k: int, exact: bool) -> bool:
    """got == want * (1 + k i), part by part."""
    sp = _real()["sp"]
    try:
        re_, im_ = sp.sympify(got).as_real_imag()
    except Exception:  # pylint: disable=broad-except
        return False
    return same(re_, want, exact) and same(im_, want * k, exact)


def replay_chain(case, as_float):
    r = _real()
    out = []
    val = VALS[case["val"]]
    chain = case["chain"]
    k = case.get("im", 0)
    exact = not as_float and not (set(chain) & INEXACT)
    q = quantity(val, chain[0], as_float, k)
    n = None
    refused = None
    with time_limit(20):
        for i, uname in enumerate(chain[1:], start=1):
            try:
                n = r["convert_to"](q, r["unit"][uname])
            except Exception as e:  # pylint: disable=broad-except
                refused = (i, type(e).__name__)
                break
            if i < len(chain) - 1:
                q = r["Quantity"](n * r["unit"][uname])
        want = Fraction(case["n"][0], case["n"][1])
        if case["err"]:
            if refused is None or refused[0] != len(chain) - 1:
                out.append(f"conversion {chain[-2]} -> {chain[-1]} must be refused, code returned {n}"
                           if refused is None else f"refused at step {refused[0]} ({refused[1]}), model refuses the last step")
        else:
            if refused is not None:
                out.append(f"model converts, code refused step {refused[0]} with {refused[1]}")
            elif not same_complex(n, want, k, exact):
                out.append(f"convert_to gives {n}, model {want}" + (f" * (1 + {k}i)" if k else ""))
        if len(chain) == 2 and not case.get("x"):   # once per start quantity and first target: the SI value
            # (a quantity carrying information has no SI unit: nothing is claimed about its SI value)
            q0 = quantity(val, chain[0], as_float, k)
            si = Fraction(case["si"][0], case["si"][1])
            got = r["convert_to_si"](q0)
            if not same_complex(got, si, k, exact):
                out.append(f"convert_to_si gives {got}, model {si}" + (f" * (1 + {k}i)" if k else ""))
            if all(x[0] == 0 for x in case["d"][:7]):
                # a float result must be the whole number n (n times one equals the quantity): a value with an
                # imaginary part has no float, the conversion can only be refused
                try:
                    got = r["convert_to_float"](q0)
                except Exception as e:  # pylint: disable=broad-except
                    got = e
                if case.get("flt", True):
                    if not isinstance(got, float) or abs(Fraction(got) - si) > abs(si) * Fraction(1, 10**12):
                        out.append(f"convert_to_float gives {got!r}, model {si}")
                elif not isinstance(got, Exception):
                    out.append(f"convert_to_float gives {got!r} for the complex value {si} * (1 + {k}i): "
                               "no float times one equals the quantity")
    return out


def replay_celsius(case, as_float):
    """The Celsius helper for quantities: defined exactly for temperatures."""
    r = _real()
    c = r["celsius"]
    out = []
    q = quantity(VALS[case["a"]["val"]], case["a"]["u"], as_float)
    try:
        with time_limit(20):
            got = c.from_kelvin_quantity(q).value
    except HardTimeout:
        raise
    except Exception as e:  # pylint: disable=broad-except
        got = e
    if case["ok"]:
        want = Fraction(case["c"][0], case["c"][1])
        if isinstance(got, Exception):
            out.append(f"from_kelvin_quantity refused a temperature ({type(got).__name__}), model {want} C")
        elif abs(Fraction(float(got)) - want) > Fraction(1, 10**9):
            out.append(f"from_kelvin_quantity gives {got} C, model {want} C")
    elif not isinstance(got, Exception):
        out.append(f"from_kelvin_quantity accepted a quantity that is not a temperature and returned {got} C")
    return out


def build_expr(op, qa, qb):
    if op == "mul":
        return qa * qb
    if op == "div":
        return qa / qb
    if op == "add":
        return qa + qb
    if op == "sub":
        return qa - qb
    if op == "sq":
        return qa**2
    return qb * qa


def replay_expr(case, as_float, plain=False):
    """plain: the second operand is written with the plain SymPy unit (2*units.kilometer) instead of a wrapped
    symplyphysics Quantity - evaluation must replace both kinds of quantity by their SI numbers."""
    r = _real()
    out = []
    exact = not as_float and case["a"]["u"] not in INEXACT and case["b"]["u"] not in INEXACT
    # both operands scaled by 10^e (the model: the value scales by 10^(e * degree of the operation))
    c10 = Fraction(10) ** case.get("e", 0)
    va, vb = VALS[case["a"]["val"]] * c10, VALS[case["b"]["val"]] * c10
    qa = quantity(va, case["a"]["u"], as_float)
    if plain:
        qb = (float(vb) if as_float else rat(vb)) * r["unit"][case["b"]["u"]]
    else:
        qb = quantity(vb, case["b"]["u"], as_float)
    want = Fraction(case["si"][0], case["si"][1]) * Fraction(10) ** case.get("e10", 0)
    with time_limit(20):
        e = build_expr(case["op"], qa, qb)
        scale = Fraction(0)
        if case["op"] in ("add", "sub"):      # both operands have the dimension of the result: |want| <= scale
            scale = abs(frac(r["convert_to_si"](qa)) or 0) + abs(want) if case["op"] == "sub" else abs(want)
            scale = max(scale, abs(frac(r["convert_to_si"](qa)) or 0))
        got = r["evaluate_expression"](e)
        if not same(got, want, exact, scale):
            out.append(f"evaluate_expression gives {got}, model {want}")
        got = r["evaluate_expression"](e, evaluate=True)
        if not same(got, want, False, scale):
            out.append(f"evaluate_expression(evaluate=True) gives {got}, model {want}")
        if want != 0:      # a zero-valued expression has no dimension inside Quantity()
            qe = r["Quantity"](e)
            got = r["convert_to_si"](qe)
            if not same(got, want, exact, scale):
                out.append(f"convert_to_si(Quantity(expr)) gives {got}, model {want}")
            d = project_dim(qe.dimension)
            if d != case["d"]:
                out.append(f"Quantity(expr) has dimension {dimstr(d) if d else qe.dimension}, model {dimstr(case['d'])}")
    return out


def replay_temp(case):
    """Returns [(subkey | None, text)]; a subkey folds a failure of one helper at one temperature.
    One Celsius object is kept through the history (as in the model): conversions back from kelvin are stored
    into it and "shift" changes its value in place."""
    r = _real()
    c = r["celsius"]
    out = []
    tol = 1e-9
    v = case["t0"] / TEMP_TICK
    scale = case["s0"]
    cobj = c.Celsius(v) if scale == "C" else None
    for op in case.get("ops") or ["conv"] * case["steps"]:
        if op == "shift":
            cobj.value = cobj.value + 10
            v = cobj.value
        elif scale == "C":
            v2 = c.to_kelvin(cobj)
            try:
                vq = float(r["convert_to"](c.to_kelvin_quantity(cobj), r["units"].kelvin))
                if abs(vq - v2) > tol:
                    out.append((None, f"to_kelvin_quantity(Celsius object holding {cobj.value}) = {vq} K, to_kelvin = {v2}"))
            except Exception as e:  # pylint: disable=broad-except
                out.append((f"temp to_kelvin_quantity({round(v, 6)} C)", f"to_kelvin_quantity(Celsius({v})) raised {type(e).__name__}: {e}"))
            v, scale = v2, "K"
        else:
            v2 = c.from_kelvin(v).value
            try:
                vq = c.from_kelvin_quantity(r["Quantity"](v * r["units"].kelvin)).value
                if abs(vq - v2) > tol:
                    out.append((None, f"from_kelvin_quantity({v} K) = {vq}, from_kelvin = {v2}"))
                vm = c.from_kelvin_quantity(r["Quantity"](v * 1000 * r["millikelvin"])).value     # the same in millikelvin
                if abs(vm - v2) > tol:
                    out.append((None, f"from_kelvin_quantity({v * 1000} mK) = {vm}, from_kelvin({v}) = {v2}"))
            except Exception as e:  # pylint: disable=broad-except
                out.append((f"temp from_kelvin_quantity({round(v, 6)} K)",
                            f"from_kelvin_quantity(Quantity({v} * kelvin)) raised {type(e).__name__}: {e}"))
            if cobj is None:
                cobj = c.Celsius(v2)
            else:
                cobj.value = v2           # the same object is reused
            v, scale = v2, "C"
    want = case["v"] / TEMP_TICK
    if scale != case["scale"] or abs(v - want) > tol:
        out.append((None, f"after {case.get('ops')} from {case['t0'] / TEMP_TICK} {case['s0']}: code {v} {scale}, "
                          f"model {want} {case['scale']}"))
    return out


def replay_one(case):
    """-> (case, verdict, [(subkey | None, text)])"""
    res = []
    try:
        return _replay_one(case, res)
    except HardTimeout:
        return case, "outside", [(None, "conversion timed out")]
    except Exception as e:  # pylint: disable=broad-except
        # the model defines a value for every emitted behaviour: an exception of the library is a failure
        res.append((None, f"the library raised {type(e).__name__}: {str(e)[:200]} (the model defines a value here)"))
        return case, "violation", res


def _replay_one(case, res):
    try:
        if case["k"] == "chain":
            for as_float in (False, True):
                res += [(None, ("float: " if as_float else "exact: ") + w) for w in replay_chain(case, as_float)]
        elif case["k"] == "expr":
            for as_float in (False, True):
                res += [(None, ("float: " if as_float else "exact: ") + w) for w in replay_expr(case, as_float)]
            if case["b"]["u"] in PLAIN_UNITS and case["op"] != "sq":
                for as_float in (False, True):
                    res += [(None, ("float, plain unit: " if as_float else "exact, plain unit: ") + w)
                            for w in replay_expr(case, as_float, plain=True)]
        elif case["k"] == "celsius":
            for as_float in (False, True):
                res += [(None, ("float: " if as_float else "exact: ") + w) for w in replay_celsius(case, as_float)]
        else:
            res += replay_temp(case)
    except HardTimeout:
        return case, "outside", [(None, "conversion timed out")]
    return case, ("violation" if res else "ok"), res


def case_key(case):
    if case["k"] == "chain":
        return f"chain {case['val']}" + (f"*(1+{case['im']}i) " if case.get("im") else " ") + " -> ".join(case["chain"])
    if case["k"] == "celsius":
        return f"celsius {case['a']['val']} {case['a']['u']}"
    if case["k"] == "expr":
        return f"expr {case['op']}({case['a']['val']} {case['a']['u']}, {case['b']['val']} {case['b']['u']})" + \
            (f" x 1e{case['e']}" if case.get("e") else "")
    return f"temp {case['t0']} {case['s0']} " + "/".join(case.get("ops") or [f"x{case['steps']}"])


def enumerate_and_replay(run: Run, sc, cfgd, pool):
    from concurrent.futures import ThreadPoolExecutor
    cfg = write_cfg(sc / "convert.cfg", constants=cfgd, invariants=INVARIANTS)
    cfg2 = write_cfg(sc / "convert_emit.cfg", constants=cfgd, invariants=["Emit"])
    with ThreadPoolExecutor(2) as ex:
        f1 = ex.submit(run_tlc, "Convert", cfg, sc, workers=8, coverage=True, allow_violation=False)
        f2 = ex.submit(run_tlc, "Convert", cfg2, sc, workers=1, allow_violation=False)
        res, res2 = f1.result(), f2.result()
    run.add_tlc(res, f"model check: invariants {INVARIANTS}; {len(cfgd['UnitNames'])} units x {len(cfgd['ValueNames'])} values, "
                     f"chains of {cfgd['MaxChain']} conversions, expressions {sorted(cfgd['ExprOps'])}, "
                     f"{len(cfgd['Temps'])} temperatures")
    cases = res2.printed
    kinds = {}
    for case, verdict, detail in pmap(pool, replay_one, cases):
        run.traces += 1
        key = case_key(case)
        run.count(key)
        kinds[case["k"]] = kinds.get(case["k"], 0) + 1
        if case["k"] == "chain" and case["err"]:
            kinds["refused chains"] = kinds.get("refused chains", 0) + 1
        if kinds[case["k"]] <= 2:
            run.sample({"case": key, "model": {k: v for k, v in case.items() if k in ("n", "err", "si", "v", "scale")}})
        if verdict == "outside":
            run.outside(detail[0][1])
        elif verdict == "violation":
            own = [t for k, t in detail if k is None]
            if own:
                run.violation(key, "; ".join(own)[:500], {"kind": "replay", "case": case})
            for k, t in detail:
                if k is not None:
                    run.violation(k, t[:500], {"kind": "replay", "case": case, "subkey": k})
    run.coverage["behaviours_replayed"] = kinds


# -------------------------------------------------------------------------------------------------
# code -> spec: SymPy's own unit table


LIMIT = 46340          # products of two components stay below 2^31


def small(fr: Fraction) -> bool:
    return abs(fr.numerator) <= LIMIT and fr.denominator <= LIMIT


def sympy_units():
    """Every distinct unit of sympy.physics.units with an exact rational scale: (name, object, SI value, dimvec)."""
    r = _real()
    from sympy.physics.units import Quantity as SymQuantity
    from .qc_common import to_si
    seen, out = set(), []
    for name in sorted(dir(r["units"])):
        q = getattr(r["units"], name)
        if not isinstance(q, SymQuantity) or q in seen:
            continue
        seen.add(q)
        try:
            sf = q.scale_factor
            d = project_dim(q.dimension)
        except Exception:  # pylint: disable=broad-except
            continue
        if d is None or not sf.is_Rational:
            continue
        si = to_si(sf, d)
        if not si.is_Rational:
            continue
        out.append((name, q, Fraction(int(si.p), int(si.q)), d))
    return out


def record_conversions(job):
    """Worker: convert value * unit_i to every unit_j with the real code; returns records."""
    rows, table_len, values = job
    r = _real()
    table = sympy_units()
    assert len(table) == table_len
    recs, skipped = [], 0
    for i in rows:
        name, uq, usi, ud = table[i]
        for val in values:
            val = Fraction(*val)
            qv = val * usi
            q = r["Quantity"](rat(val) * uq)
            if small(qv):
                try:
                    with time_limit(10):
                        got = frac(r["convert_to_si"](q))
                    recs.append({"kind": "si", "what": f"{val} {name}", "qv": qv, "qd": ud, "uv": Fraction(1), "ud": ud,
                                 "out": "ok", "res": got})
                except HardTimeout:
                    skipped += 1
                except Exception as e:  # pylint: disable=broad-except
                    recs.append({"kind": "si", "what": f"{val} {name}", "qv": qv, "qd": ud, "uv": Fraction(1), "ud": ud,
                                 "out": "refused", "res": Fraction(0), "exc": type(e).__name__})
            for name2, uq2, usi2, ud2 in table:
                if not (small(qv) and small(usi2)):
                    skipped += 1
                    continue
                try:
                    with time_limit(10):
                        got = r["convert_to"](q, uq2)
                    got = frac(got) if r["sp"].sympify(got).is_Rational else None
                    out = "ok"
                except HardTimeout:
                    skipped += 1
                    continue
                except Exception as e:  # pylint: disable=broad-except
                    got, out = Fraction(0), "refused"
                if got is None or abs(got.numerator) >= 2**31 or got.denominator >= 2**31:
                    skipped += 1        # not an exact rational, or not a JSON / TLC integer
                    continue
                recs.append({"kind": "conv", "what": f"{val} {name} -> {name2}", "qv": qv, "qd": ud, "uv": usi2, "ud": ud2,
                             "out": out, "res": got})
    return recs, skipped


def pair(fr: Fraction):
    return [fr.numerator, fr.denominator]


def trace_validation(run: Run, sc, pool, tier):
    _real()
    table = sympy_units()
    values = [(2, 1), (3, 4)] if tier == "quick" else [(1, 1), (2, 1), (3, 4), (-5, 1), (7, 100)]
    jobs = [(list(range(i, len(table), 32)), len(table), values) for i in range(32)]
    recs, skipped = [], 0
    for rs, sk in pmap(pool, record_conversions, jobs, chunk=1):
        recs += rs
        skipped += sk
    recs.sort(key=lambda x: (x["kind"], x["what"]))
    for i, rec in enumerate(recs):
        rec["id"] = i + 1
    path = sc / "conversions.json"
    path.write_text(json.dumps([{"id": x["id"], "kind": x["kind"], "qv": pair(x["qv"]), "qd": x["qd"], "uv": pair(x["uv"]),
                                 "ud": x["ud"], "out": x["out"], "res": pair(x["res"])} for x in recs]))
    cfg = write_cfg(sc / "converttrace.cfg", init="TInit", next_="TNext",
                    constants=dict(UnitNames=set(), ValueNames=set(), MaxChain=0, ExprOps=set(), ExprUnits=set(),
                                   ExprVals=set(), Temps=set(), ImagFactors=set(), ComplexVals=set(), ScaledVals=set(),
                                   Exps10=set()),
                    invariants=["Validate", "Checked"])
    res = run_tlc("ConvertTrace", cfg, sc, workers=1, env={"TRACE_FILE": str(path)}, allow_violation=False)
    run.add_tlc(res, f"trace validation: {len(recs)} conversions recorded from the real convert_to / convert_to_si over "
                     f"{len(table)} SymPy units, recomputed with ConvertTo / Convertible / ToSI")
    bad, checked = {}, None
    for line in res.raw_prints:
        v = parse_tla_tuple(line)
        if v[0] == "BAD":
            bad[v[1]] = v
        elif v[0] == "CHECKED":
            checked = v[1]
    if checked != len(recs):
        raise RuntimeError(f"ConvertTrace checked {checked} of {len(recs)} records")
    for rec in recs:
        run.traces += 1
        run.count("trace " + rec["what"])
        if rec["id"] in bad:
            _, _, eout, eres = bad[rec["id"]]
            exp = "refusal" if eout == "refused" else str(Fraction(eres[0], eres[1]))
            obs = f"refused ({rec.get('exc', 'exception')})" if rec["out"] == "refused" else str(rec["res"])
            run.violation("trace " + rec["what"], f"{rec['kind']} {rec['what']}: specification gives {exp}, code {obs}",
                          {"kind": "trace", "what": rec["what"]})
    if skipped:
        run.outside("recorded conversion outside 32-bit exact arithmetic (not sent to TLC)", skipped)
    run.coverage["recorded_conversions"] = {"sympy_units": len(table), "records": len(recs), "not_representable": skipped}
    if recs:
        run.sample({"recorded": recs[len(recs) // 2]["what"], "result": str(recs[len(recs) // 2]["res"])})


def main() -> int:
    tier = sys.argv[1] if len(sys.argv) > 1 else "quick"
    if tier == "--replay":
        return replay_file(sys.argv[2])
    run = Run(PID, tier)
    _real()
    with Scratch() as sc, make_pool() as pool:
        enumerate_and_replay(run, sc, CFG[tier], pool)
        trace_validation(run, sc, pool, tier)
    run.assumptions += [
        "SymPy scale factors are relative to gram: the SI value of a real quantity is scale_factor / 1000^(mass exponent) "
        "(projection for the recorded conversions; the replay compares the library's own return values)",
        "prefixes.milli is the float 10**-3: chains through milli*meter and all float replays are compared to 1e-12 "
        "relative, everything else exactly; Celsius/kelvin helpers work on floats: compared to 1e-9 absolute",
        "conversion of a zero-valued quantity to a unit of another dimension is not decided (zero matches any "
        "dimension in this library); any exception counts as a refusal",
        "irrational unit scales (degree, electronvolt-like float constants) are outside the exact model",
    ]
    return run.finish(exhaustive=True)


def replay_file(path: str) -> int:
    data = json.loads(open(path).read())
    case = data["case"]
    _real()
    if case["kind"] == "replay":
        _, verdict, detail = replay_one(case["case"])
        if "subkey" in case:
            detail = [d for d in detail if d[0] == case["subkey"]]
        else:
            detail = [d for d in detail if d[0] is None]
        bad = verdict == "violation" and bool(detail)
        print("replayed:", case_key(case["case"]), "->", detail if bad else "ok")
    else:
        run = Run(PID, "replay")
        with Scratch() as sc, make_pool(4) as pool:
            trace_validation(run, sc, pool, "thorough")
        bad = any(v["key"] == data["key"] for v in run.violations) or data["key"] in run.known_hit
        print("re-recorded the conversions of SymPy's unit table ->", "violation" if bad else "ok")
    if bad:
        print(f"VIOLATION property={PID} replay={path}\n  {data['key']}")
    return 1 if bad else 0


if __name__ == "__main__":
    main_wrapper(main)
