"""code -> spec for C06: recorded collect_expression traces validated by spec/CollectTrace.tla."""
from . import collect_trace, qc_common


def validate(run, sc, tier):
    from symplyphysics.core.dimensions import collect_expression_and_dimension
    from . import c06
    merged = collect_trace.record_tests(sc, tier, run.seed)
    run.coverage["recorder"] = {k: merged[k] for k in ("events", "files", "pytest_rc", "pytest_tail", "dropped")}
    if merged["pytest_rc"] != 0:
        run.outside(f"pytest under the recorder ended with rc={merged['pytest_rc']} (not this property's verdict)")
    collect_trace.validate_traces(run, sc, merged["traces"], "e", "tests")
    cases = getattr(run, "cases_for_traces", [])
    if c06._L is None:      # `python -m harness.c06` runs the module as __main__: this is a second instance
        c06._init()
    prog = collect_trace.record_programs(cases, lambda c: qc_common.build(c["p"], c06._L, False, extra_ops={"gapp": lambda args, ev: c06._GFUN(args[0])}),
                                         collect_expression_and_dimension, 4000 if tier == "quick" else 40000, run.seed)
    for k, v in prog["dropped"].items():
        run.outside(f"recorder: {k}", v)
    collect_trace.validate_traces(run, sc, prog["traces"], "e", "programs")
