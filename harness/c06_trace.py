"""code -> spec for C06 (filled in below once the trace spec exists)."""


def validate(run, sc, tier):
    return
