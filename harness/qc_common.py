"""Shared between C05 and C06: the leaf alphabet of the expression machines, mapped to real objects,
tree construction from postfix programs, and the projection real result -> abstract value."""
from __future__ import annotations

from fractions import Fraction

BASE = ["L", "M", "T", "I", "K", "N", "J", "A"]


def setup():
    """Import the library (from the working tree) and build the leaf objects once per process."""
    import sympy as sp
    from sympy.physics import units
    from sympy.physics.units import prefixes as sp_prefixes
    from sympy.physics.units.definitions.dimension_definitions import angle as angle_type
    from symplyphysics import Quantity, prefixes
    x = sp.Symbol("x")
    f = sp.Function("f")
    leaves = {
        "n0": sp.Integer(0), "n1": sp.Integer(1), "n2": sp.Integer(2), "n3": sp.Integer(3), "n4": sp.Integer(4),
        "nm1": sp.Integer(-1), "nm2": sp.Integer(-2), "nh": sp.Rational(1, 2),
        "oo": sp.oo, "noo": -sp.oo, "nan": sp.nan,
        "m": units.meter, "km": units.kilometer, "cm": units.centimeter, "s": units.second,
        "minute": units.minute, "kg": units.kilogram, "gram": units.gram,
        "newton": units.newton, "hz": units.hertz, "joule": units.joule, "rad": units.radian,
        "kilo": sp.sympify(prefixes.kilo), "milli": sp.sympify(prefixes.milli),   # NB: 10**-3 is a float in the library
        "pkilo": sp_prefixes.kilo, "pkibi": sp_prefixes.kibi,    # Prefix objects: decimal (10**3) and binary (2**10)
        "q2m": Quantity(2 * units.meter), "q4m2": Quantity(4 * units.meter**2), "q0": Quantity(0),
        "qang": Quantity(2, dimension=angle_type),
        "sym": x, "deriv": sp.Derivative(f(x), x),
    }
    return leaves


ARITY = {"gapp": 1, "atan2": 2, "mul2": 2, "mul3": 3, "add2": 2, "add3": 3, "pow": 2, "abs": 1, "min2": 2, "max2": 2, "exp": 1,
         "neg": 1, "d1": 2, "d2": 2}


def build(prog, leaves, evaluate: bool, extra_ops=None):
    """Postfix program -> SymPy expression.  evaluate=False keeps every node as written."""
    import sympy as sp
    st = []
    for tok in prog:
        if tok in leaves:
            st.append(leaves[tok])
            continue
        n = ARITY[tok]
        args = st[-n:]
        del st[-n:]
        if extra_ops and tok in extra_ops:
            st.append(extra_ops[tok](args, evaluate))
        elif tok in ("mul2", "mul3"):
            st.append(sp.Mul(*args, evaluate=evaluate))
        elif tok in ("add2", "add3"):
            st.append(sp.Add(*args, evaluate=evaluate))
        elif tok == "pow":
            st.append(sp.Pow(args[0], args[1], evaluate=evaluate))
        elif tok == "abs":
            st.append(sp.Abs(args[0], evaluate=evaluate))
        elif tok == "min2":
            st.append(sp.Min(*args, evaluate=evaluate))
        elif tok == "max2":
            st.append(sp.Max(*args, evaluate=evaluate))
        elif tok == "exp":
            st.append(sp.exp(args[0], evaluate=evaluate))
        elif tok == "atan2":
            st.append(sp.atan2(args[0], args[1], evaluate=evaluate))
        else:
            raise KeyError(tok)
    assert len(st) == 1, prog
    return st[0]


_DIMNAME = {"length": "L", "mass": "M", "time": "T", "current": "I", "temperature": "K",
            "amount_of_substance": "N", "luminous_intensity": "J", "angle": "A"}


def project_dim(dimension):
    """Real Dimension -> exponent vector (list of [n, d] in BASE order); None if outside the 8 bases."""
    import sympy as sp
    from sympy.physics.units.systems.si import dimsys_SI
    try:
        deps = dimsys_SI.get_dimensional_dependencies(dimension)
    except Exception:  # pylint: disable=broad-except
        return None     # not a dimension SymPy can interpret (e.g. a quantity or symbol in an exponent)
    vec = {b: Fraction(0) for b in BASE}
    for k, e in deps.items():
        name = _DIMNAME.get(str(k.name))
        if name is None:
            return None
        try:
            r = sp.Rational(e)
            vec[name] = Fraction(int(r.p), int(r.q))
        except (TypeError, ValueError, AttributeError):
            return None
    return [[vec[b].numerator, vec[b].denominator] for b in BASE]


def classify(scale):
    """Real scale factor -> (class, Fraction or None); 'other' for anything that is not a real number
    (also when SymPy itself fails on the returned object)."""
    try:
        return _classify(scale)
    except Exception:  # pylint: disable=broad-except
        return "other", None


def _classify(scale):
    import sympy as sp
    if scale is sp.nan or scale == sp.nan:
        return "nan", None
    if scale == sp.oo:
        return "inf", None
    if scale == -sp.oo:
        return "ninf", None
    if scale == 0:
        return "zero", Fraction(0)
    if getattr(scale, "is_Rational", False):
        return "fin", Fraction(int(scale.p), int(scale.q))
    if getattr(scale, "is_Float", False):
        return "float", Fraction(float(scale))
    if scale.is_number and scale.is_finite and scale.is_real is not False:
        if scale.atoms(sp.Float):            # Float * sqrt(1000): a floating-point number written as an expression
            try:
                return "float", Fraction(float(scale))
            except (TypeError, ValueError):
                return "other", None
        if scale.is_rational is False or not scale.is_Float:
            return "irr", None
    return "other", None


def to_si(scale, dimvec):
    """SymPy's scale factors are relative to gram: the SI value divides by 1000 per mass exponent
    (done in SymPy so that half-integer mass exponents stay exact)."""
    import sympy as sp
    m = sp.Rational(dimvec[1][0], dimvec[1][1])
    return scale / sp.Integer(1000) ** m


def s_(x) -> str:
    """str() that never raises (SymPy cannot print some NaN-containing products)."""
    try:
        return str(x)
    except Exception:  # pylint: disable=broad-except
        try:
            import sympy as sp
            return sp.srepr(x)
        except Exception:  # pylint: disable=broad-except
            return "<unprintable>"
