"""C13: circulation and flux integrals satisfy Stokes', Green's and Gauss' theorems.

model        : spec/Integrals.tla over spec/FieldOps.tla / spec/Poly.tla: exact integrals of polynomial fields over
               rectangles and boxes (one-dimensional integrals) and over discs / ellipses (moment table; values
               q + p*pi).  TLC checks on every (field, region) state that both sides of each theorem agree in the
               model (area moments against Wallis line integrals, edge and face integrals), that reversing the
               orientation negates and that the parametrisation speed cancels.
spec -> code : TLC emits the required value of every function for every basis field and region; the harness calls the
               real circulation_along_curve, circulation_along_surface_boundary, flux_across_curve,
               flux_across_surface_boundary, flux_across_surface (six faces of a box) and flux_across_volume_boundary
               with the standard parametrisation, re-timed ones, the reversed one and (circulation) a curved surface
               spanned by the same curve (the polynomial graph of Integrals!Graph, on which TLC checks Stokes' theorem
               in the model), the field also given with its trailing zero components omitted (1 or 2 components,
               possibly depending on z).  Every result must be a NUMBER free of coordinate / parameter symbols and
               equal the model's exact value (compared as rational + rational*pi).
               Regions include parameter domains with dependent limits (triangles; tetrahedra with
               flux_across_volume_boundary limits depending on the outer variables), planar problems whose field
               components depend on z (taken at z = 0 by two-component curves / surfaces), and cylindrical shells /
               balls where flux_across_volume_boundary is called in the cylindrical / spherical system (fields given
               natively as r^a z^c e_i, which the model knows as Cartesian polynomial fields) and compared with the
               flux through the faces.
               Cases on shells / balls / half balls are replayed along Integrals!SystemHistory (coordinate-system objects
               A, B, a newly created one, A again, in one process); the others in one object each, rotating.
code -> spec : all results are written to a JSON trace; spec/IntegralsTrace.tla lets TLC recompute the required value
               from the coefficient maps and reject records that are not that number.
"""
from __future__ import annotations

import json
import sys

import sympy as sp
from sympy import cos, pi, sin

from . import fields_common as fc
from .common import HardTimeout, Run, main_wrapper, make_pool, pmap, time_limit
from .tlc import Scratch, parse_tla_tuple, run_tlc, write_cfg

PID = "C13"

TIERS = {
    "quick": dict(models=[dict(D=3, MaxDeg=2, MaxTerms=2, EmitDeg=0, EmitTerms=0, Regions="<-RegionsQuick")],
                  emits=[dict(D=3, MaxDeg=2, MaxTerms=1, EmitDeg=2, EmitTerms=1, Regions="<-RegionsQuick")],
                  curved=False),
    "thorough": dict(models=[dict(D=3, MaxDeg=3, MaxTerms=2, EmitDeg=0, EmitTerms=0, Regions="<-RegionsQuick"),
                             dict(D=3, MaxDeg=3, MaxTerms=1, EmitDeg=0, EmitTerms=0, Regions="<-RegionsAll")],
                     emits=[dict(D=3, MaxDeg=3, MaxTerms=1, EmitDeg=3, EmitTerms=1, Regions="<-RegionsAll"),
                            dict(D=3, MaxDeg=2, MaxTerms=2, EmitDeg=2, EmitTerms=2, Regions="<-RegionsPairs")],
                     curved=True),
}
CURVED_MODEL = dict(D=4, MaxDeg=2, MaxTerms=1, EmitDeg=0, EmitTerms=0, Regions="<-RegionsCurved")
MODEL_INVARIANTS = ["ITypeOK", "Stokes", "Green", "Gauss", "GaussNative", "ReverseNegates", "SpeedCancels", "DivCurlZero"]
TRACE_D = 3
CALL_LIMIT = 60

T, S_, U, V = sp.symbols("t_par s_par u_par v_par", real=True)
TP = sp.Symbol("tp_par", positive=True)       # a parameter that only runs over positive values
CART = []
CURV = {}


CUR = {}
INST = {}


def _types():
    from symplyphysics.core.coordinate_systems.coordinate_systems import CoordinateSystem
    t = CoordinateSystem.System
    return CoordinateSystem, {"cart": t.CARTESIAN, "cyl": t.CYLINDRICAL, "sph": t.SPHERICAL}


def _init():
    """Two CoordinateSystem objects of every kind are created up front ("A", "B"); "new" creates one afresh."""
    if not INST:
        cls, types = _types()
        for name, t in types.items():
            INST[name] = {"A": cls(t), "B": cls(t)}
        _use("A")


def _use(label):
    cls, types = _types()
    for name, t in types.items():
        CUR[name] = cls(t) if label == "new" else INST[name][label]
    CART[:] = [CUR["cart"]]
    CURV["cyl"], CURV["sph"] = CUR["cyl"], CUR["sph"]


def _coords(p):
    return [p.coordinate(0), p.coordinate(1), p.coordinate(2)]


def make_curv_field(system, comps):
    """The Cartesian polynomial field written in the coordinates and the local frame of `system`."""
    from symplyphysics.core.fields.vector_field import VectorField
    return VectorField(lambda p: fc.vector_in(system, comps, _coords(p)), CURV[system])


def make_field(comps):
    from symplyphysics.core.fields.vector_field import VectorField
    return VectorField(lambda p: [fc.poly_expr(t, p.x, p.y, p.z) for t in comps], CART[0])


def _faces_of(kind):
    return {"shell": shell_faces, "ball": ball_faces, "hball": hball_faces}[kind]


def region_name(reg):
    def r(v):
        return str(fc.rat(v))
    c, s = reg["c"], reg["s"]
    if reg["k"] == "ell":
        return f"ellipse(centre=({r(c[0])},{r(c[1])}),z={r(c[2])},semi-axes=({r(s[0])},{r(s[1])}))"
    if reg["k"] == "rect":
        return f"rect([{r(c[0])},{r(s[0])}]x[{r(c[1])},{r(s[1])}],z={r(c[2])})"
    if reg["k"] == "tri":
        return f"triangle(corner=({r(c[0])},{r(c[1])}),z={r(c[2])},legs=({r(s[0])},{r(s[1])}))"
    if reg["k"] == "tet":
        return f"tetrahedron(corner=({r(c[0])},{r(c[1])},{r(c[2])}),edges=({r(s[0])},{r(s[1])},{r(s[2])}))"
    if reg["k"] == "shell":
        return f"shell({r(c[0])}<=r<={r(s[0])},{r(c[1])}<=z<={r(s[1])})"
    if reg["k"] == "ball":
        return f"ball(R={r(s[0])})"
    if reg["k"] == "hball":
        return f"half-ball(R={r(s[0])},y>=0)"
    return f"box([{r(c[0])},{r(s[0])}]x[{r(c[1])},{r(s[1])}]x[{r(c[2])},{r(s[2])}])"


# ---- parametrisations (standard, re-timed, reversed) ---------------------------------------------------
REV_VARIANTS = ("rev", "swapped")        # parametrisations that run through the curve in the opposite direction


def ell_curve(reg, variant, planar2d):
    cx, cy, h = [fc.rat(v) for v in reg["c"]]
    a, b = fc.rat(reg["s"][0]), fc.rat(reg["s"][1])

    def piece(tt, lim, rational=False):
        traj = [cx + a * (1 - tt ** 2) / (1 + tt ** 2), cy + b * 2 * tt / (1 + tt ** 2)] if rational else \
            [cx + a * cos(tt), cy + b * sin(tt)]
        if not planar2d:
            traj.append(h)
        return traj, lim
    if variant == "mixed":        # two halves, the second one given over a DECREASING interval
        return [piece(T, (T, 0, pi)), piece(-T, (T, -pi, -2 * pi))]
    if variant == "halves":
        return [piece(T, (T, -pi, 0)), piece(T, (T, 0, pi))]
    if variant == "rational":     # stereographic parametrisation of the whole ellipse, infinite limits
        return [piece(T, (T, -sp.oo, sp.oo), rational=True)]
    tt, lim = {"std": (T, (T, 0, 2 * pi)), "retime": (2 * T, (T, 0, pi)),
               "shift": (T + pi / 3, (T, -pi / 3, 5 * pi / 3)), "rev": (-T, (T, 0, 2 * pi)),
               "swapped": (T, (T, 2 * pi, 0)),                     # the standard parametrisation, limits swapped
               "minus_pi_pi": (T, (T, -pi, pi))}[variant]
    return [piece(tt, lim)]


def ell_surface(reg, variant, planar2d):
    cx, cy, h = [fc.rat(v) for v in reg["c"]]
    a, b = fc.rat(reg["s"][0]), fc.rat(reg["s"][1])
    ps, pt = (S_, 0, 1), (T, 0, 2 * pi)
    rad, ang = S_, T
    if variant == "retime":
        rad, ang, ps, pt = 2 * S_, 2 * T, (S_, 0, sp.Rational(1, 2)), (T, 0, pi)
    surf = [cx + a * rad * cos(ang), cy + b * rad * sin(ang)]
    if variant == "curved":
        surf.append(h + 1 - rad ** 2)
    elif not planar2d:
        surf.append(h)
    return (surf, pt, ps) if variant == "rev" else (surf, ps, pt)


def _edges(corners, h, variant, planar2d):
    tt, lim = {"std": (T, (T, 0, 1)), "retime": (2 * T, (T, 0, sp.Rational(1, 2))), "shift": (T - 1, (T, 1, 2)),
               "rev": (T, (T, 0, 1)), "swapped": (T, (T, 1, 0)), "mixed": (T, (T, 0, 1)),
               "speed": (TP ** 2, (TP, 0, 1))}[variant]          # varying speed: |dr/dt| = 2 t * length
    out = []
    for i, ((ax, ay), (bx, by)) in enumerate(zip(corners[:-1], corners[1:])):
        lim_i = lim
        if variant == "rev":
            (ax, ay), (bx, by) = (bx, by), (ax, ay)
        elif variant == "mixed" and i % 2 == 1:
            # the same side in the same direction, written from its far end over a decreasing interval
            (ax, ay), (bx, by), lim_i = (bx, by), (ax, ay), (T, 1, 0)
        traj = [ax + (bx - ax) * tt, ay + (by - ay) * tt]
        if not planar2d:
            traj.append(h)
        out.append((traj, lim_i))
    return out


def rect_edges(reg, variant, planar2d):
    x0, y0, h = [fc.rat(v) for v in reg["c"]]
    x1, y1 = fc.rat(reg["s"][0]), fc.rat(reg["s"][1])
    return _edges([(x0, y0), (x1, y0), (x1, y1), (x0, y1), (x0, y0)], h, variant, planar2d)


def tri_edges(reg, variant, planar2d):
    x0, y0, h = [fc.rat(v) for v in reg["c"]]
    a, b = fc.rat(reg["s"][0]), fc.rat(reg["s"][1])
    return _edges([(x0, y0), (x0 + a, y0), (x0, y0 + b), (x0, y0)], h, variant, planar2d)


def tri_surface(reg, variant, planar2d):
    """The triangle as a parametrised surface; the limits of the FIRST parameter depend on the second one."""
    x0, y0, h = [fc.rat(v) for v in reg["c"]]
    a, b = fc.rat(reg["s"][0]), fc.rat(reg["s"][1])
    uu, vv = U, V
    p1, p2 = (U, 0, 1 - V), (V, 0, 1)
    if variant == "retime":
        uu, vv, p1, p2 = 2 * U, 3 * V, (U, 0, (1 - 3 * V) / 2), (V, 0, sp.Rational(1, 3))
    elif variant == "rev":
        p1, p2 = (V, 0, 1 - U), (U, 0, 1)
    if variant == "direct":        # the coordinates themselves as parameters
        surf = [U, V]
        p1, p2 = (U, x0, x0 + a * (1 - (V - y0) / b)), (V, y0, y0 + b)
    else:
        surf = [x0 + a * uu, y0 + b * vv]
    if variant == "curved":
        surf.append(h + uu * vv * (1 - uu - vv))
    elif not planar2d:
        surf.append(h)
    return surf, p1, p2


def tet_faces(reg, variant):
    x0, y0, z0 = [fc.rat(v) for v in reg["c"]]
    a, b, c = [fc.rat(v) for v in reg["s"]]
    k = 2 if variant == "retime" else 1
    u, v = k * U, k * V
    p1, p2 = (U, 0, (1 - k * V) / k), (V, 0, sp.Rational(1, k))
    return [([x0 + a * u, y0 + b * v, z0 + c * (1 - u - v)], p1, p2),      # slanted face, normal (bc, ac, ab)
            ([x0, y0 + b * v, z0 + c * u], p1, p2),                        # e_z x e_y = -e_x
            ([x0 + a * u, y0, z0 + c * v], p1, p2),                        # e_x x e_z = -e_y
            ([x0 + a * v, y0 + b * u, z0], p1, p2)]                        # e_y x e_x = -e_z


def tet_limits(reg):
    x, y, _ = CART[0].coord_system.base_scalars()
    x0, y0, z0 = [fc.rat(v) for v in reg["c"]]
    a, b, c = [fc.rat(v) for v in reg["s"]]
    return [(x0, x0 + a), (y0, y0 + b * (1 - (x - x0) / a)), (z0, z0 + c * (1 - (x - x0) / a - (y - y0) / b))]


def shell_faces(reg, variant):
    r0, z0 = fc.rat(reg["c"][0]), fc.rat(reg["c"][1])
    r1, z1 = fc.rat(reg["s"][0]), fc.rat(reg["s"][1])
    k = 2 if variant == "retime" else 1
    ang, full = k * U, (U, 0, 2 * pi / k)
    return [([r1 * cos(ang), r1 * sin(ang), V], full, (V, z0, z1)),             # outer wall, normal +e_r
            ([r0 * cos(ang), r0 * sin(ang), V], (V, z0, z1), full),             # inner wall, normal -e_r
            ([V * cos(ang), V * sin(ang), z1], (V, r0, r1), full),              # top, +e_z
            ([V * cos(ang), V * sin(ang), z0], full, (V, r0, r1))]              # bottom, -e_z


def ball_faces(reg, variant):
    rad = fc.rat(reg["s"][0])
    k = 2 if variant == "retime" else 1
    az = k * V
    return [([rad * sin(U) * cos(az), rad * sin(U) * sin(az), rad * cos(U)], (U, 0, pi), (V, 0, 2 * pi / k))]


def hball_faces(reg, variant):
    rad = fc.rat(reg["s"][0])
    k = 2 if variant == "retime" else 1
    az = k * V
    return [([rad * sin(U) * cos(az), rad * sin(U) * sin(az), rad * cos(U)], (U, 0, pi), (V, 0, pi / k)),   # half sphere
            ([V * sin(k * U), 0, V * cos(k * U)], (U, 0, 2 * pi / k), (V, 0, rad))]      # disc y = 0, normal -e_y


def curv_limits(reg):
    if reg["k"] == "hball":
        return "sph", [(0, fc.rat(reg["s"][0])), (0, pi), (0, pi)]
    if reg["k"] == "shell":
        return "cyl", [(fc.rat(reg["c"][0]), fc.rat(reg["s"][0])), (0, 2 * pi), (fc.rat(reg["c"][1]), fc.rat(reg["s"][1]))]
    return "sph", [(0, fc.rat(reg["s"][0])), (0, 2 * pi), (0, pi)]


def rect_surface(reg, variant, planar2d):
    x0, y0, h = [fc.rat(v) for v in reg["c"]]
    x1, y1 = fc.rat(reg["s"][0]), fc.rat(reg["s"][1])
    pu, pv = (U, x0, x1), (V, y0, y1)
    xx, yy = U, V
    if variant == "retime":
        xx, yy, pu, pv = 2 * U, 3 * V, (U, x0 / 2, x1 / 2), (V, y0 / 3, y1 / 3)
    surf = [xx, yy]
    if variant == "curved":
        surf.append(h + (xx - x0) * (xx - x1) * (yy - y0) * (yy - y1))
    elif not planar2d:
        surf.append(h)
    return (surf, pv, pu) if variant == "rev" else (surf, pu, pv)


def box_faces(reg, variant):
    x0, y0, z0 = [fc.rat(v) for v in reg["c"]]
    x1, y1, z1 = [fc.rat(v) for v in reg["s"]]
    k = 2 if variant == "retime" else 1

    def lim(sym, a, b):
        return (sym, a / k, b / k)
    u, v = k * U, k * V
    faces = [([x1, u, v], lim(U, y0, y1), lim(V, z0, z1)),     # d/du x d/dv = e_y x e_z = +e_x
             ([x0, v, u], lim(U, z0, z1), lim(V, y0, y1)),     # e_z x e_y = -e_x
             ([v, y1, u], lim(U, z0, z1), lim(V, x0, x1)),     # e_z x e_x = +e_y
             ([u, y0, v], lim(U, x0, x1), lim(V, z0, z1)),     # e_x x e_z = -e_y
             ([u, v, z1], lim(U, x0, x1), lim(V, y0, y1)),     # e_x x e_y = +e_z
             ([v, u, z0], lim(U, y0, y1), lim(V, x0, x1))]     # e_y x e_x = -e_z
    if variant == "rev":
        faces = [(s, p2, p1) for s, p1, p2 in faces]
    return faces


# ---- one emitted case ------------------------------------------------------------------------------------
class Out:
    def __init__(self, case):
        self.case = case
        self.records, self.verdicts, self.calls = [], [], 0

    def result(self):
        return {"case": self.case, "records": self.records, "verdicts": self.verdicts, "calls": self.calls}


def _value(v):
    return fc.rat(v["q"]) + fc.rat(v["p"]) * pi


def _disarm():
    """Make sure no alarm of common.time_limit is left armed or pending (its repeating timer can fire once more while
    the with-block is being left, which would raise HardTimeout at an arbitrary later point)."""
    import signal
    import time
    for _ in range(10):
        try:
            signal.setitimer(signal.ITIMER_REAL, 0, 0)
            time.sleep(0)          # a pending handler runs here, inside the try
            return
        except HardTimeout:
            continue


def _guarded(fn, limit):
    """("ok", value) or ("timeout", None); a HardTimeout never escapes."""
    try:
        try:
            with time_limit(limit):
                return "ok", fn()
        finally:
            _disarm()
    except HardTimeout:
        _disarm()
        return "timeout", None


def _run(out, lib, fnclass, comps, reg, variant, rev, expected, thunks, name=None):
    """thunks: callables each returning one library result; the value of the call is their sum."""
    name = name or fc.field_name(comps)
    key = f"{lib}:{name}:{region_name(reg)}"
    total = sp.S.Zero
    for th in thunks:
        out.calls += 1
        status, res = _guarded(lambda th=th: sp.sympify(th()), CALL_LIMIT)
        if status == "timeout":
            out.verdicts.append(("outside", key, f"{lib} timed out after {CALL_LIMIT} s"))
            return
        total = total + res
    exp = _value(expected)
    rec = {"fn": fnclass, "comps": comps, "reg": reg, "rev": 1 if rev else 0, "num": 1, "q": [0, 1], "p": [0, 1],
           "key": key, "lib": lib, "variant": variant}
    # the 'number' clause first: coordinate / parameter symbols, or anything that is not a finite number
    if total.free_symbols or total.has(sp.Integral, sp.nan, sp.zoo, sp.oo, -sp.oo):
        rec["num"] = 0
        out.records.append(rec)
        out.verdicts.append(("violation", key, f"variant {variant}: result is not a number: {str(total)[:300]} "
                                               f"(required {exp})"))
        return

    def decide():
        qp = fc.split_pi(total)
        if qp is None or fc.pair_of(qp[0]) is None or fc.pair_of(qp[1]) is None:
            diff = abs(complex(sp.N(total - exp, 40)))
            return ("num", diff < 1e-25)
        return ("exact", qp)
    status, res = _guarded(decide, 30)
    if status == "timeout":
        out.verdicts.append(("outside", key, "result is a number that could not be reduced within 30 s"))
        return
    if res[0] == "num":
        if res[1]:
            out.verdicts.append(("outside", key, "result is a number equal to the model's value numerically, "
                                                 "but not reduced to rational + rational*pi"))
        else:
            out.verdicts.append(("violation", key, f"variant {variant}: result {str(total)[:300]}, required {exp}"))
        return
    qp = res[1]
    rec["q"], rec["p"] = fc.pair_of(qp[0]), fc.pair_of(qp[1])
    out.records.append(rec)
    if sp.expand(total - exp) != 0:
        out.verdicts.append(("violation", key, f"variant {variant}: result {total}, required {exp}"))


def replay_case(case):
    from symplyphysics.core.fields import analysis as an
    _init()
    out = Out(case)
    reg = case["reg"]
    comps3 = fc.basis_terms(case["terms"]) if case["terms"] else [[], [], []]
    field3 = make_field(comps3)
    if reg["k"] == "box":
        for variant in ("std", "retime", "rev"):
            exp = case["flux3rev"] if variant == "rev" else case["flux3"]
            _run(out, "flux_across_surface", "flux3", comps3, reg, variant, variant == "rev", exp,
                 [lambda f=f: an.flux_across_surface(field3, *f) for f in box_faces(reg, variant)])
        lims = [(fc.rat(reg["c"][i]), fc.rat(reg["s"][i])) for i in range(3)]
        _run(out, "flux_across_volume_boundary", "flux3", comps3, reg, "std", False, case["flux3"],
             [lambda: an.flux_across_volume_boundary(field3, *lims)])
        return out.result()
    if reg["k"] == "tet":
        for variant in ("std", "retime"):
            _run(out, "flux_across_surface", "flux3", comps3, reg, variant, False, case["flux3"],
                 [lambda f=f: an.flux_across_surface(field3, *f) for f in tet_faces(reg, variant)])
        _run(out, "flux_across_volume_boundary", "flux3", comps3, reg, "dependent limits", False, case["flux3"],
             [lambda: an.flux_across_volume_boundary(field3, *tet_limits(reg))])
        return out.result()
    if reg["k"] in ("shell", "ball", "hball"):
        faces = _faces_of(reg["k"])
        for variant in ("std", "retime"):
            _run(out, "flux_across_surface", "flux3", comps3, reg, variant, False, case["flux3"],
                 [lambda f=f: an.flux_across_surface(field3, *f) for f in faces(reg, variant)])
        system, lims = curv_limits(reg)
        # the spherical re-expression makes simplify slow and memory-hungry: thorough, fields of degree <= 1 only
        small = len(case["terms"]) <= 1 and all(sum(t["e"]) <= 1 for t in case["terms"])
        if system == "cyl" or (case.get("thorough") and small):
            fieldc = make_curv_field(system, comps3)
            _run(out, "flux_across_volume_boundary", "flux3", comps3, reg, f"{system} system, re-expressed field", False,
                 case["flux3"], [lambda: an.flux_across_volume_boundary(fieldc, *lims)])
        return out.result()
    in_plane0 = fc.rat(reg["c"][2]) == 0
    curve, surface = {"ell": (ell_curve, ell_surface), "rect": (rect_edges, rect_surface),
                      "tri": (tri_edges, tri_surface)}[reg["k"]]
    extra = ("direct",) if reg["k"] == "tri" else ()
    # circulation: along the curve, and from the curl over a surface spanned by it
    more = ("minus_pi_pi", "halves", "rational") if reg["k"] == "ell" else ("speed",)
    for variant in ("std", "retime", "shift", "rev", "swapped", "mixed") + more:
        exp = case["circrev"] if variant in REV_VARIANTS else case["circ"]
        planar2d = in_plane0 and variant in ("std", "rev", "mixed")        # two-component trajectories where possible
        _run(out, "circulation_along_curve", "circ", comps3, reg, variant, variant in REV_VARIANTS, exp,
             [lambda tr=tr, lim=lim: an.circulation_along_curve(field3, tr, lim)
              for tr, lim in curve(reg, variant, planar2d)])
    for variant in ("std", "retime", "rev", "curved") + extra:
        exp = case["circrev"] if variant == "rev" else case["circ"]
        surf, p1, p2 = surface(reg, variant, in_plane0 and variant == "std")
        _run(out, "circulation_along_surface_boundary", "circ", comps3, reg, variant, variant == "rev", exp,
             [lambda: an.circulation_along_surface_boundary(field3, surf, p1, p2)])
    # the same field given with its trailing zero components omitted (it may still depend on z)
    used = max([i + 1 for i, c in enumerate(comps3) if c] or [1])
    if used < 3:
        short = comps3[:used]
        field_s = make_field(short)
        _run(out, "circulation_along_curve", "circ", short, reg, f"std, {used}-component field", False, case["circ"],
             [lambda tr=tr, lim=lim: an.circulation_along_curve(field_s, tr, lim) for tr, lim in curve(reg, "std", False)])
        for variant in ("std", "curved"):
            surf, p1, p2 = surface(reg, variant, False)
            _run(out, "circulation_along_surface_boundary", "circ", short, reg, f"{variant}, {used}-component field",
                 False, case["circ"], [lambda: an.circulation_along_surface_boundary(field_s, surf, p1, p2)])
    # outward flux across the closed planar curve, and from the divergence over the enclosed region
    if case.get("planar") == 1:
        comps2 = comps3[:2]
        field2 = make_field(comps2)
        # (the rational parametrisation is left out here: the unit normal of a rationally parametrised ellipse
        #  makes SymPy's integration hang)
        for variant in ("std", "retime", "rev", "swapped", "mixed") + (more[:2] if reg["k"] == "ell" else more):
            exp = case["flux2rev"] if variant in REV_VARIANTS else case["flux2"]
            _run(out, "flux_across_curve", "flux2", comps2, reg, variant, variant in REV_VARIANTS, exp,
                 [lambda tr=tr, lim=lim: an.flux_across_curve(field2, tr, lim)
                  for tr, lim in curve(reg, variant, True)])
        for variant in ("std", "retime") + extra:
            surf, p1, p2 = surface(reg, variant, True)
            _run(out, "flux_across_surface_boundary", "flux2", comps2, reg, variant, False, case["flux2"],
                 [lambda: an.flux_across_surface_boundary(field2, surf, p1, p2)])
    return out.result()


# ---- fields given natively in cylindrical / spherical components (emitted by INativeEmit) -----------------
def replay_native(case):
    from symplyphysics.core.fields import analysis as an
    from symplyphysics.core.fields.vector_field import VectorField
    _init()
    out = Out(case)
    n, reg = case["native"], case["reg"]
    system, lims = curv_limits(reg)
    if n["sys"] != system:
        raise RuntimeError(f"native field {n} emitted for region {reg}")
    comp, a, c, m = n["comp"], n["a"], n["c"], n.get("m", [0, 0, 0])
    azimuthal = system == "sph" and comp == 2       # m(x, y, z) * r sin(phi) e_theta = m * (-y, x, 0)

    def mono(q):
        if azimuthal:
            x, y, z = fc.cart_coords_in("sph", q) if q[0] is not fc.RAD else (fc.X, fc.Y, fc.Z)
            return x ** m[0] * y ** m[1] * z ** m[2] * (q[0] * sin(q[2]) if q[0] is not fc.RAD else fc.RHO)
        return q[0] ** a * (q[2] ** c if system == "cyl" else 1)
    # the Cartesian polynomial the model works with must BE this field (the harness' own frames decide)
    cart = [fc.merge([[list(e), list(v)] for e, v in comp_terms]) for comp_terms in case["cart"]]
    frame = fc.frame_of_cart(system)[comp - 1]
    mine = [mono(fc.curv_coords_of_cart(system)) * frame[j] for j in range(3)]
    for j in range(3):
        if sp.simplify(mine[j] - fc.poly_expr(cart[j])) != 0:
            raise RuntimeError(f"model's Cartesian form of the native field {n} is not the field: component {j + 1}")
    names = ("r", "theta", "z") if system == "cyl" else ("r", "theta", "phi")
    label = f"{system}:{names[0]}^{a}" + (f"*z^{c}" if system == "cyl" and c else "") + f"*e_{names[comp - 1]}"
    if azimuthal:
        label = f"sph:x^{m[0]}*y^{m[1]}*z^{m[2]}*r*sin(phi)*e_theta"
    name = fc.field_name(cart)
    for variant, length in (("native, 3 components", 3), ("native, trailing zero components omitted", comp)):
        field = VectorField(lambda p, length=length: [mono(_coords(p)) if i + 1 == comp else sp.S.Zero
                                                      for i in range(length)], CURV[system])
        _run(out, "flux_across_volume_boundary", "flux3", cart, reg, f"{label}: {variant}", False, case["flux3"],
             [lambda: an.flux_across_volume_boundary(field, *lims)], name=f"{label}={name}")
    # the flux through the faces (Cartesian form of the same field) must be the same number
    fieldc = make_field(cart)
    faces = _faces_of(reg["k"])
    _run(out, "flux_across_surface", "flux3", cart, reg, "std", False, case["flux3"],
         [lambda f=f: an.flux_across_surface(fieldc, *f) for f in faces(reg, "std")], name=f"{label}={name}")
    return out.result()


def replay_any(case):
    """Replay along the history of coordinate-system objects the model asks for (shell / ball / half ball: A, B, a new
    one, A again - all in this process); the other cases use one object, rotating through A, B, new."""
    _init()
    history = case.get("history") or [("A", "B", "new")[case.get("idx", 0) % 3]]
    merged = None
    for label in history:
        _use(label)
        res = replay_native(case) if "native" in case else replay_case(case)
        for r in res["records"]:
            r["inst"] = label
        res["verdicts"] = [(k, key, what + (f" [coordinate-system object {label}]" if k == "violation" else ""))
                           for k, key, what in res["verdicts"]]
        if merged is None:
            merged = res
        else:
            merged["records"] += res["records"]
            merged["verdicts"] += res["verdicts"]
            merged["calls"] += res["calls"]
    return merged


# ---- thorough: trigonometric fields (outside the model; decided by the harness against sympy's own integrals) ----
TRIG_FIELDS = {
    "(sin(y),x*cos(y),0)": lambda x, y, z: [sin(y), x * cos(y), sp.S.Zero],
    "(y*cos(x),sin(x)+y**2,0)": lambda x, y, z: [y * cos(x), sin(x) + y ** 2, sp.S.Zero],
    "(sin(x)*cos(z),z*sin(y),x*cos(y)+z**2)": lambda x, y, z: [sin(x) * cos(z), z * sin(y), x * cos(y) + z ** 2],
}
TRIG_REGIONS = [{"k": "rect", "c": [[0, 1], [0, 1], [0, 1]], "s": [[2, 1], [3, 1], [0, 1]]},
                {"k": "box", "c": [[0, 1], [-1, 1], [1, 1]], "s": [[1, 1], [2, 1], [2, 1]]}]


def trig_cases():
    return [{"type": "trig", "field": f, "reg": r} for f in TRIG_FIELDS for r in TRIG_REGIONS]


def replay_trig(case):
    from symplyphysics.core.fields import analysis as an
    from symplyphysics.core.fields.vector_field import VectorField
    _init()
    out = Out(case)
    fn, reg = TRIG_FIELDS[case["field"]], case["reg"]
    own = fn(fc.X, fc.Y, fc.Z)
    lo, hi = [fc.rat(v) for v in reg["c"]], [fc.rat(v) for v in reg["s"]]

    def check(lib, variant, required, thunks):
        key = f"{lib}:{case['field']}:{region_name(reg)}"
        total = sp.S.Zero
        for th in thunks:
            out.calls += 1
            status, res = _guarded(lambda th=th: sp.sympify(th()), CALL_LIMIT)
            if status == "timeout":
                out.verdicts.append(("outside", key, f"{lib} timed out after {CALL_LIMIT} s (trigonometric field)"))
                return
            total = total + res
        if total.free_symbols or total.has(sp.Integral, sp.nan, sp.zoo):
            out.verdicts.append(("violation", key, f"variant {variant}: result is not a number: {str(total)[:300]}"))
            return
        status, differs = _guarded(lambda: abs(complex(sp.N(total - required, 40))) > 1e-25, 30)
        if status == "timeout":
            out.verdicts.append(("outside", key, "numeric comparison timed out (trigonometric field)"))
        elif differs:
            out.verdicts.append(("violation", key, f"variant {variant}: result {total}, required {required}"))

    if reg["k"] == "box":
        field = VectorField(lambda p: fn(p.x, p.y, p.z), CART[0])
        req = sp.integrate(fc.cart_div(own), (fc.X, lo[0], hi[0]), (fc.Y, lo[1], hi[1]), (fc.Z, lo[2], hi[2]))
        check("flux_across_surface", "std", req,
              [lambda f=f: an.flux_across_surface(field, *f) for f in box_faces(reg, "std")])
        check("flux_across_volume_boundary", "std", req,
              [lambda: an.flux_across_volume_boundary(field, *zip(lo, hi))])
        return out.result()
    field = VectorField(lambda p: fn(p.x, p.y, p.z), CART[0])
    at0 = {fc.Z: 0}
    req = sp.integrate(fc.cart_curl(own)[2].subs(at0), (fc.X, lo[0], hi[0]), (fc.Y, lo[1], hi[1]))
    for variant in ("std", "retime", "rev"):
        sign = -1 if variant == "rev" else 1
        check("circulation_along_curve", variant, sign * req,
              [lambda tr=tr, lim=lim: an.circulation_along_curve(field, tr, lim)
               for tr, lim in rect_edges(reg, variant, True)])
        surf, p1, p2 = rect_surface(reg, variant, True)
        check("circulation_along_surface_boundary", variant, sign * req,
              [lambda: an.circulation_along_surface_boundary(field, surf, p1, p2)])
    if own[2] == 0 and not any(c.has(fc.Z) for c in own):
        field2 = VectorField(lambda p: fn(p.x, p.y, p.z)[:2], CART[0])
        req2 = sp.integrate(sp.diff(own[0], fc.X) + sp.diff(own[1], fc.Y), (fc.X, lo[0], hi[0]), (fc.Y, lo[1], hi[1]))
        for variant in ("std", "retime", "rev"):
            check("flux_across_curve", variant, (-1 if variant == "rev" else 1) * req2,
                  [lambda tr=tr, lim=lim: an.flux_across_curve(field2, tr, lim)
                   for tr, lim in rect_edges(reg, variant, True)])
        surf, p1, p2 = rect_surface(reg, "std", True)
        check("flux_across_surface_boundary", "std", req2,
              [lambda: an.flux_across_surface_boundary(field2, surf, p1, p2)])
    return out.result()


# ---- driver --------------------------------------------------------------------------------------------
def _tlc_trace(sc, records, label):
    path = sc / f"c13_{label}.ndjson"
    with open(path, "w") as f:
        for r in records:
            f.write(json.dumps({k: r[k] for k in ("fn", "comps", "reg", "rev", "num", "q", "p")}) + "\n")
    cfg = write_cfg(sc / f"int_trace_{label}.cfg", init="TInit", next_="TNext",
                    constants=dict(D=TRACE_D, MaxDeg=0, MaxTerms=0, EmitDeg=0, EmitTerms=0, Regions="<-RegionsAll"),
                    invariants=["Validate", "Stokes", "Green", "Gauss"], postcondition="AllSeen")
    res = run_tlc("IntegralsTrace", cfg, sc, workers=1, env={"TRACE_FILE": str(path)}, allow_violation=False)
    if res.distinct != len(records):
        raise RuntimeError(f"trace validation visited {res.distinct} states for {len(records)} records")
    rejected = [int(v[1]) for v in map(parse_tla_tuple, res.raw_prints) if v and v[0] == "REJECT"]
    return res, rejected


def validate_trace(run: Run, sc, records, label):
    if not records:
        return []
    res, rejected = _tlc_trace(sc, records, label)
    run.add_tlc(res, f"trace validation ({label}): {len(records)} recorded circulation / flux results decided by TLC "
                     f"(IntegralsTrace: Expected = CircByStokes / FluxByGreen / FluxByGauss)")
    run.traces += len(records)
    run.coverage.setdefault("trace_records_validated", {})[label] = len(records)
    run.coverage.setdefault("trace_records_rejected", {})[label] = len(rejected)
    for i in rejected:
        r = records[i - 1]
        got = "not a number" if r["num"] == 0 else f"q={r['q']} p={r['p']} (value q + p*pi)"
        run.violation(r["key"], f"TLC rejects the result of {r['lib']} (variant {r['variant']}): {got}", r.get("replay", {}))
    return rejected


def selftest_trace(run: Run, sc, records):
    """Binding self-test: the orientation flag of one accepted record with a non-zero value is flipped; TLC must
    reject exactly that record."""
    nonzero = [dict(r) for r in records if r["num"] == 1 and (r["q"][0] != 0 or r["p"][0] != 0)
               and r["reg"]["k"] in ("ell", "rect", "box", "tri")][:20]
    if not nonzero:
        return
    sample = [dict(r) for r in records if r["num"] == 1][:20] + nonzero
    k = len(sample) - len(nonzero) // 2 - 1
    sample[k]["rev"] = 1 - sample[k]["rev"]
    _, rejected = _tlc_trace(sc, sample, "selftest")
    if rejected != [k + 1]:
        raise RuntimeError(f"trace self-test: corrupted record {k + 1}, TLC rejected {rejected}")
    run.coverage["selftest"] = "flipping the orientation flag of one recorded result made TLC reject that record"


def collect(run: Run, results, label):
    records = []
    per_fn = run.coverage.setdefault("library_calls", {})
    for res in results:
        case = res["case"]
        run.traces += 1
        run.count(json.dumps({"field": case.get("terms", case.get("native")), "reg": case["reg"]}, sort_keys=True),
                  n=res["calls"])
        for r in res["records"]:
            r["replay"] = case
            per_fn[r["lib"]] = per_fn.get(r["lib"], 0) + 1
            records.append(r)
        for kind, key, what in res["verdicts"]:
            if kind == "outside":
                run.outside(what)
            else:
                run.violation(key, what, case)
    run.coverage.setdefault("cases_replayed", {})[label] = len(results)
    return records


def main() -> int:
    tier = sys.argv[1] if len(sys.argv) > 1 else "quick"
    if tier == "--replay":
        return replay_file(sys.argv[2])
    t = TIERS[tier]
    run = Run(PID, tier)
    _init()
    with Scratch() as sc, make_pool() as pool:
        for n, model in enumerate(t["models"]):
            cfg = write_cfg(sc / f"int_model{n}.cfg", init="IInit", next_="INext", constants=model,
                            invariants=MODEL_INVARIANTS)
            res = run_tlc("Integrals", cfg, sc, workers=8, coverage=True, allow_violation=False)
            run.add_tlc(res, f"model check Integrals: {MODEL_INVARIANTS} on (vector fields: sums of <= "
                             f"{model['MaxTerms']} basis monomials of degree <= {model['MaxDeg']}) x "
                             f"({model['Regions'][2:]})")
        cfgc = write_cfg(sc / "int_curved.cfg", init="IInit", next_="INext", constants=CURVED_MODEL,
                         invariants=["CurvedStokes"])
        resc = run_tlc("Integrals", cfgc, sc, workers=8, allow_violation=False)
        run.add_tlc(resc, "model check Integrals: CurvedStokes (flux of curl F through the polynomial graph over each planar "
                          "region = circulation along its boundary; all fields of degree <= 2 fit with D = 4) on basis fields "
                          "of degree <= 2 x RegionsCurved")
        records = []
        for n, emit in enumerate(t["emits"]):
            cfg2 = write_cfg(sc / f"int_emit{n}.cfg", init="IInit", next_="INext", constants=emit,
                             invariants=["IEmit", "INativeEmit"])
            res2 = run_tlc("Integrals", cfg2, sc, workers=1, allow_violation=False)
            run.add_tlc(res2, f"emission {n}: required values for sums of <= {emit['EmitTerms']} basis fields of "
                              f"degree <= {emit['EmitDeg']} on {emit['Regions'][2:]}")
            cases = res2.printed
            if not cases:
                raise RuntimeError("TLC emitted no cases")
            for i, c in enumerate(cases):
                c["thorough"] = t["curved"]
                c["idx"] = i
            for c in [c for c in cases if "native" in c][:1] + [c for c in cases if len(c.get("terms", ())) == 1][5::97][:4]:
                run.sample({k: v for k, v in c.items() if k not in ("thorough", "idx")})
            results = list(pmap(pool, replay_any, cases, chunk=4))
            records += collect(run, results, f"emission{n}")
        rejected = set(validate_trace(run, sc, records, "all"))
        selftest_trace(run, sc, [r for i, r in enumerate(records, 1) if i not in rejected])
        if t["curved"]:
            n_trig = 0
            for res in pmap(pool, replay_trig, trig_cases(), chunk=1):
                n_trig += res["calls"]
                for kind, key, what in res["verdicts"]:
                    if kind == "outside":
                        run.outside(what)
                    else:
                        run.violation(key, what, res["case"])
            run.coverage["trigonometric_field_calls_decided_by_harness_outside_TLC_fragment"] = n_trig
    run.coverage["bounds"] = {"models": t["models"], "emissions": t["emits"], "trace_D": TRACE_D,
                              "variants": {"curve": ["std", "retime (t -> 2t)", "shift (t -> t + c)", "rev (t -> -t / sides reversed)",
                                                     "swapped (standard parametrisation, limits swapped: decreasing interval)",
                                                     "mixed (pieces over increasing and decreasing intervals)",
                                                     "ellipse: (-pi, pi), two halves, rational parametrisation over (-oo, oo)"],
                                           "surface": ["std", "retime", "rev (parameters swapped)"] +
                                                      ["curved surface with the same boundary (Integrals!Graph)",
                                                       "std / curved with the trailing zero components of the field omitted"],
                                           "box": ["std", "retime", "rev (all normals inward)"],
                                           "triangle surface": ["std (limits of the first parameter depend on the "
                                                                "second)", "retime", "rev", "direct (coordinates as "
                                                                "parameters)"],
                                           "tetrahedron": ["four faces std / retime", "volume integral with dependent limits"],
                                           "shell / ball": ["faces std / retime (Cartesian field)", "volume integral in the "
                                                            "cylindrical / spherical system: re-expressed Cartesian field, "
                                                            "native fields r^a z^c e_i with 3 and with fewer components"]}}
    run.assumptions += [
        "polynomial fields only (basis monomials and their sums; the functions are linear in the field)",
        "flux_across_curve / flux_across_surface_boundary are exercised on planar problems only (two-component fields "
        "in the plane z = 0, given two-component curves / surfaces; components depending on z are taken at z = 0)",
        "orientation reversal is not demanded of flux_across_surface_boundary and flux_across_volume_boundary "
        "(the statement speaks of the outward flux there)",
    ]
    return run.finish(exhaustive=True)


def replay_file(path: str) -> int:
    data = json.loads(open(path).read())
    case = data["case"]
    _init()
    res = replay_trig(case) if case.get("type") == "trig" else replay_any(case)
    bad = [v for v in res["verdicts"] if v[0] == "violation"]
    with Scratch() as sc:
        run = Run(PID, "replay")
        validate_trace(run, sc, res["records"], "replay")
        bad += [("violation", v["key"], v["what"]) for v in run.violations]
    want = data.get("key")
    mine = [b for b in bad if b[1] == want] or bad
    for b in mine:
        print(f"VIOLATION property={PID} replay={path}\n  {b[1]}: {b[2]}"[:700])
    print("replayed:", want, "->", "violation" if mine else "ok")
    return 1 if mine else 0


if __name__ == "__main__":
    main_wrapper(main)
