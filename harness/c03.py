"""C03: laws load and mean the same for every import order and creation history.

model        : spec/Histories.tla (counters of Symbols.tla + imported / block / meaning; Create, Import, Observe)
               is model-checked by TLC: MeaningIsHistoryIndependent holds for modules that use their symbols by
               identity and FAILS (expected counterexample) for a module that picks by name order, exactly when
               a digit-count boundary falls inside its block; spec/NameOrderLemmas.tla: the order of generated
               names of a block depends only on where the boundary falls (finite set of canonical histories).
spec -> code : histories are replayed in FRESH interpreters (harness/c03_lib.py, one subprocess per history,
               PYTHONHASHSEED set per history): real object creations / next_id calls move the counters, real
               importlib imports in the given order, then every observed module is fingerprinted BY VALUE
               (public equations over stable labels; results of the calls its own test functions make).
               quick   : every catalogue module alone in a fresh process (the reference history), alone with all
                         counters shifted past their next boundary, alone with a digit boundary at every position
                         inside the FUN / QTY / SYS names its import hands out, three histories in which a worker
                         THREAD creates objects and imports a module, + 4 whole-catalogue orders with
                         boundary-targeting counter offsets;
               thorough: + the canonical histories TLC emits (boundary before / inside at first, middle, last
                         position / after the module's block, per prefix; dependencies imported long before;
                         another module in between), realised for every module, + 12 more catalogue orders.
code -> spec : every replayed history (next_id runs, imports, observations) is validated by
               spec/HistoriesTrace.tla: fresh ids, legal imports that succeed, observations that agree with
               the reference meaning.  Verdicts come from TLC (ILLEGAL events), the details from the replay.
"""
from __future__ import annotations

import ast
import json
import os
import random
import subprocess
import sys
import time
from concurrent.futures import ThreadPoolExecutor, as_completed
from pathlib import Path

from . import c03_value, catalogue, idtrace
from .common import PY, REPO, Run, main_wrapper, repo_env
from .tlc import Scratch, parse_tla_tuple, run_tlc, write_cfg

PID = "C03"
WORKERS = 16
NULL = idtrace.NULL_CONSTANTS


# ---------------------------------------------------------------------------------------------------
# catalogue and test index


def test_index(modules: list) -> dict:
    """module -> path of the test file that exercises it (by name; else the first test file importing it)."""
    mset = set(modules)
    out = {}
    troot = REPO / "test"
    for m in modules:
        parts = m.split(".")[1:]
        rel = parts[1:] if parts[0] == "laws" else parts
        p = troot.joinpath(*rel[:-1]) / f"{rel[-1]}_test.py"
        if p.exists():
            out[m] = str(p)
    missing = mset - set(out)
    if missing:
        for f in sorted(troot.rglob("*.py")):
            try:
                tree = ast.parse(f.read_text())
            except (SyntaxError, UnicodeDecodeError):
                continue
            for node in tree.body:
                names = []
                if isinstance(node, ast.ImportFrom) and node.module and node.module.startswith("symplyphysics"):
                    names = [f"{node.module}.{a.name}" for a in node.names]
                elif isinstance(node, ast.Import):
                    names = [a.name for a in node.names]
                for n in names:
                    if n in missing and n not in out:
                        out[n] = str(f)
    return out


# ---------------------------------------------------------------------------------------------------
# running one history


def run_history(sc: Path, spec: dict, hashseed: int, timeout: int) -> dict:
    import uuid
    tag = "h" + uuid.uuid4().hex[:16]
    sp_, out = sc / f"{tag}.spec.json", sc / f"{tag}.out.json"
    sp_.write_text(json.dumps(spec))
    t0 = time.time()
    try:
        p = subprocess.run([PY, "-m", "harness.c03_lib", str(sp_), str(out)], env=repo_env(hashseed=hashseed),
                           capture_output=True, text=True, timeout=timeout, cwd=str(sc), check=False)
    except subprocess.TimeoutExpired:
        return {"hid": spec["hid"], "timeout": True, "wall": time.time() - t0}
    finally:
        sp_.unlink(missing_ok=True)
    if p.returncode != 0 or not out.exists():
        return {"hid": spec["hid"], "crash": (p.stderr or p.stdout)[-1500:], "rc": p.returncode}
    res = json.loads(out.read_text())
    out.unlink(missing_ok=True)
    res["wall"] = time.time() - t0
    res["spec"] = {k: v for k, v in spec.items() if k not in ("tests",)}
    res["hashseed_used"] = hashseed
    return res


def iso_spec(m: str, tests: dict, zero: bool = False) -> dict:
    return {"hid": f"iso:{m}", "steps": [["import", m]], "observe": [m], "tests": {m: tests[m]} if m in tests else {},
            "zero_probe": zero}


SHIFT = {"SYM": 760, "FUN": 10, "QTY": 75, "SYS": 8}


def shifted_spec(m: str, tests: dict) -> dict:
    """The module alone, but after other code has moved every counter past its next digit-count boundary: the
    module's names get one digit more than in the reference history, which flips their order relative to most
    of the names the library itself created (SYM1004 sorts before SYM162, SYM250 after it)."""
    s = iso_spec(m, tests)
    s.update(hid=f"iso-shifted:{m}", steps=offsets_steps(SHIFT) + [["import", m]], offsets=SHIFT)
    return s


THREAD_MODULES = ["symplyphysics.laws.kinematics.speed_via_angular_speed_and_radius",
                  "symplyphysics.definitions.momentum_is_mass_times_speed",
                  "symplyphysics.laws.dynamics.acceleration_is_force_over_mass"]


def threaded_specs(modules: list, tests: dict) -> list:
    """Part of the history happens in ANOTHER THREAD of the process (objects created and a module imported by a
    worker thread), the rest in the main thread: the counters are process-wide, so this is one more history."""
    ms = [m for m in THREAD_MODULES if m in modules]
    if len(ms) < 2:
        return []
    out = []
    for i, m in enumerate(ms):
        other = ms[(i + 1) % len(ms)]
        out.append({"hid": f"threaded:{m}",
                    "steps": [["thread", [["create", "SYM", 5], ["create", "FUN", 2], ["create", "QTY", 2], ["import", other]]],
                              ["create", "SYM", 3], ["import", m]],
                    "observe": [m, other], "tests": {x: tests[x] for x in (m, other) if x in tests}})
    return out


WRAPPERS = ("Average(", "FiniteDifference(", "ExactDifferential(", "InexactDifferential(")


def wrapped_specs(modules: list, tests: dict) -> list:
    """For the modules that use the Symbolic wrappers: other code has wrapped symbols of its own, which print like
    the catalogue's symbols but have other dimensions, into the same wrappers before the import."""
    out = []
    for m in modules:
        src = (REPO / (m.replace(".", "/") + ".py"))
        try:
            text = src.read_text()
        except OSError:
            continue
        if any(w in text for w in WRAPPERS):
            s = iso_spec(m, tests)
            s.update(hid=f"iso-wrapped:{m}", steps=[["symbolic"], ["import", m]])
            out.append(s)
    return out


def coreapi_specs(modules: list, tests: dict) -> list:
    """For the modules that build a CoordinateSystem of their own at import: other code has used the public core API
    before (coordinate systems of every kind, volume element, flux / circulation helpers)."""
    out = []
    for m in modules:
        try:
            text = (REPO / (m.replace(".", "/") + ".py")).read_text()
        except OSError:
            continue
        if "CoordinateSystem(" in text:
            s = iso_spec(m, tests)
            s.update(hid=f"iso-coreapi:{m}", steps=[["coreapi"], ["import", m]])
            out.append(s)
    return out


def boundary_specs(m: str, ref: dict, tests: dict, prefixes, sample=None) -> list:
    """One history per position at which a digit-count boundary (9/10, 99/100, ...) can fall INSIDE the sequence
    of names of one prefix that importing m alone hands out (its dependencies' names included): other code has
    created just enough objects of that prefix before.  By NameOrder!BlockLemma these are all the orders the
    names of the import can have among themselves."""
    specs = []
    if not ref.get("imports") or not ref["imports"][0]["ok"]:
        return specs
    seq = {}
    for b, i, _o in ref["events"][ref["marks"][0]:]:
        seq.setdefault(b, []).append(i)
    for p in prefixes:
        ids = seq.get(p, [])
        positions = list(range(1, len(ids)))
        if sample is not None and p == "SYM" and positions:
            # quick: a seeded third of the SYM positions of this import (thorough replays all of them)
            rnd = random.Random(f"{sample}|{m}")
            positions = sorted(rnd.sample(positions, (len(positions) + 2) // 3))
        for j in positions:
            bound = 10
            while bound < ids[j]:
                bound *= 10
            if bound == ids[j]:
                continue
            s = iso_spec(m, tests)
            s.update(hid=f"boundary:{p}@{j}/{len(ids)}:{m}", steps=offsets_steps({p: bound - ids[j]}) + [["import", m]])
            specs.append(s)
    return specs


def offsets_steps(offs: dict) -> list:
    """Counter offsets as real creations (small numbers) or real next_id calls (bulk)."""
    steps = []
    for p, k in offs.items():
        if k <= 0:
            continue
        real = min(k, 40 if p in ("QTY", "SYS", "C", "VEC", "FUN") else 2000)
        steps.append(["create", p, real])
        if k > real:
            steps.append(["nextid", p, k - real])
    return steps


def catalogue_orders(modules: list, tier: str, seed: int) -> list:
    """Whole-catalogue histories: (hid, order, offsets, hashseed).  After `import symplyphysics` the counters are
    about SYM 243, QTY 27, SYS 2, FUN 0 and the catalogue allocates about 950 SYM, 110 FUN, 40 QTY, 5 SYS:
    the offsets put the 9/10, 99/100, 999/1000, 9999/10000 boundaries at different places of the sequence."""
    alpha = sorted(modules)
    rnd = random.Random(seed * 7919 + 17)
    s1, s2 = alpha[:], alpha[:]
    rnd.shuffle(s1)
    rnd.shuffle(s2)
    orders = [
        ("cat:alphabetical", alpha, {}, 0),
        ("cat:reversed", alpha[::-1], {"SYM": 720, "QTY": 65, "FUN": 5}, 1),
        ("cat:shuffle-a", s1, {"SYM": 9700, "FUN": 85, "SYS": 6}, 2),
        ("cat:shuffle-b", s2, {"SYM": 400, "QTY": 950, "FUN": 8, "C": 9}, 3),
    ]
    if tier == "thorough":
        for i in range(12):
            o = alpha[:]
            rnd.shuffle(o)
            offs = {"SYM": rnd.choice([0, 300, 600, 750, 8800, 9500, 99000]) + rnd.randrange(0, 200),
                    "FUN": rnd.choice([0, 3, 7, 60, 90, 900]) + rnd.randrange(0, 10),
                    "QTY": rnd.choice([0, 40, 70, 900, 9900]) + rnd.randrange(0, 30),
                    "SYS": rnd.choice([0, 5, 7, 95])}
            orders.append((f"cat:shuffle-{i + 1}", o, offs, 4 + i))
    return orders


def cat_spec(hid, order, offs, tests) -> dict:
    return {"hid": hid, "steps": offsets_steps(offs) + [["import", m] for m in order], "observe": "imported",
            "tests": tests, "fp_workers": 4, "offsets": offs}


# ---------------------------------------------------------------------------------------------------
# model checking


def model_check(run: Run, sc: Path, tier: str) -> list:
    """TLC on Histories.tla and NameOrderLemmas.tla.  Returns the emitted abstract histories observing T."""
    kmax, nmax = (12000, 6) if tier == "quick" else (120000, 8)
    cfg = write_cfg(sc / "lemmas.cfg", init="LemmaInit", next_="LemmaNext",
                    constants=dict(KMax=kmax, NMax=nmax, JSpan=40),
                    invariants=["SameLength", "BlockLemma", "BlockOrdersAreFew", "CrossLemma"])
    res = run_tlc("NameOrderLemmas", cfg, sc, workers=8, allow_violation=False, timeout=1500)
    run.add_tlc(res, f"lemmas on the order of generated names: SameLength, BlockLemma, BlockOrdersAreFew, CrossLemma "
                     f"for all k <= {kmax}, blocks of n <= {nmax} consecutive ids, later ids within 40")
    cfg = write_cfg(sc / "lemmas_far.cfg", init="LemmaInit", next_="LemmaNext",
                    constants=dict(KMax=300, NMax=2, JSpan=3000 if tier == "quick" else 30000),
                    invariants=["CrossLemma"])
    res = run_tlc("NameOrderLemmas", cfg, sc, workers=8, allow_violation=False, timeout=1500)
    run.add_tlc(res, "CrossLemma for old ids k <= 300 against all later ids within 3000 (quick) / 30000 (thorough)")

    bounds = dict(Bumps={1, 2, 3}, MaxHist=4 if tier == "quick" else 5)
    inv = ["HTypeOK", "DepsFirst", "BlocksDisjoint", "DeviationIffBoundaryInside"]
    props = ["MeaningStable", "HCountersNeverDecrease"]
    good = dict(NULL, World="<- WorldGood", **bounds)
    cfg = write_cfg(sc / "hist_good.cfg", init="HInit", next_="HNext", constants=good,
                    invariants=inv + ["MeaningIsHistoryIndependent"], properties=props)
    res = run_tlc("Histories", cfg, sc, workers=8, coverage=True, allow_violation=False, timeout=1500)
    run.add_tlc(res, f"Histories.tla, modules that use their symbols by identity: MeaningIsHistoryIndependent + {inv} + "
                     f"{props} over all histories of <= {bounds['MaxHist']} Create/Import steps, Create of 1..3 objects")
    bad = dict(NULL, World="<- WorldBad", **bounds)
    cfg = write_cfg(sc / "hist_bad_explained.cfg", init="HInit", next_="HNext", constants=bad, invariants=inv, properties=props)
    res = run_tlc("Histories", cfg, sc, workers=8, allow_violation=False, timeout=1500)
    run.add_tlc(res, "Histories.tla with a module that picks by name order: it deviates from the reference meaning iff "
                     "the digit boundary falls inside its block (DeviationIffBoundaryInside holds)")
    cfg = write_cfg(sc / "hist_bad.cfg", init="HInit", next_="HNext", constants=bad, invariants=["MeaningIsHistoryIndependent"])
    res = run_tlc("Histories", cfg, sc, workers=1, allow_violation=True, timeout=1500)
    if "MeaningIsHistoryIndependent" not in res.violated:
        raise RuntimeError("non-vacuity lost: TLC finds no counterexample to MeaningIsHistoryIndependent for the "
                           "name-order module of WorldBad")
    run.coverage["model_counterexample_for_name_order_module"] = "found (expected): the property is not vacuous"
    cfg = write_cfg(sc / "hist_emit.cfg", init="HInit", next_="HNext", constants=good, invariants=["HEmit"])
    res = run_tlc("Histories", cfg, sc, workers=1, allow_violation=False, timeout=1500)
    return res.printed


def canonical_classes(emitted: list) -> list:
    """Group the abstract histories observing T by (shape of the history, where the boundary falls)."""
    classes = {}
    for e in emitted:
        shape = tuple(f"create:{s['p']}" if s["op"] == "create" else f"import:{s['m']}" for s in e["h"])
        where = tuple(sorted((p, "inside-first" if w == 1 and e["size"][p] > 1 else
                              "inside-last" if w == e["size"][p] - 1 and w > 1 else
                              "inside-mid" if 1 < w < e["size"][p] - 1 else "not-inside")
                             for p, w in e["where"].items()))
        classes.setdefault((shape, where), e)
    return [{"shape": list(k[0]), "where": dict(k[1]), "abstract": v} for k, v in sorted(classes.items())]


def select_classes(classes: list) -> list:
    """The canonical histories replayed per real module, one factor at a time, each factor taken from the
    classes TLC emitted: a boundary inside one prefix's block (first / middle / last position);
    dependencies imported separately long before (other code creating objects in between); another module
    imported in between; and dependencies-long-before combined with a boundary at the first position."""
    feats = {}
    for c in classes:
        imports = [s for s in c["shape"] if s.startswith("import:")]
        for p, w in c["where"].items():
            if w != "not-inside":
                feats.setdefault(f"{p}-{w}", {"where": {p: w}, "deps_early": False, "other": False})
                if imports[0] == "import:D" and w == "inside-first" and p == "SYM":
                    feats.setdefault("deps-long-before+SYM-inside-first", {"where": {p: w}, "deps_early": True, "other": False})
        if imports[0] == "import:D" and any(s.startswith("create:") for s in c["shape"][c["shape"].index("import:D"):]):
            feats.setdefault("deps-long-before", {"where": {}, "deps_early": True, "other": False})
        if "import:X" in imports and imports.index("import:X") < imports.index("import:T"):
            feats.setdefault("other-module-before", {"where": {}, "deps_early": False, "other": True})
    return [dict(v, name=k) for k, v in sorted(feats.items())]


OTHER_MODULE = "symplyphysics.laws.kinematics.position_via_constant_speed_and_time"


def realise(cls: dict, m: str, ref: dict, tests: dict, refs: dict) -> list:
    """A canonical class -> real histories for module m ([] when m cannot show it, e.g. fewer than two names of
    that prefix).  ref = the reference (isolated) run of m.  The abstract class "inside-mid" stands for every
    position strictly between the first and the last one: all of them are realised."""
    own = {}
    oi = ref["owners"].index(m) if m in ref["owners"] else None
    for b, i, o in ref["events"]:
        if o == oi:
            own.setdefault(b, []).append(i)
    deps = [x for x in ref["imports"][0]["loaded"] if x != m]
    other = OTHER_MODULE if (OTHER_MODULE != m and OTHER_MODULE not in deps) else None
    variants = [({}, "")]
    for p, w in cls["where"].items():
        if w == "not-inside":
            continue
        ids = sorted(own.get(p, []))
        n = len(ids)
        js = {"inside-first": [1], "inside-last": [n - 1] if n > 2 else [], "inside-mid": list(range(2, n - 1))}[w]
        if n < 2 or not js:
            return []
        out = []
        for j in js:
            bound = 10
            while bound < ids[j]:
                bound *= 10
            out += [(dict(o, **{p: bound - ids[j]}), f"{t}@{j}/{n}") for o, t in variants]
        variants = out
    x_alloc = {}
    if cls["other"]:
        if other is None or other not in refs:
            return []
        for b, _i, _o in refs[other]["events"][refs[other]["marks"][0]:]:
            x_alloc[b] = x_alloc.get(b, 0) + 1
    if cls["deps_early"] and not deps:
        return []
    specs = []
    for offs, tag in variants:
        steps = []
        if cls["deps_early"]:
            steps += [["import", d] for d in deps]
        if cls["other"]:
            steps.append(["import", other])
        if cls["deps_early"] and not offs:
            offs = {"SYM": 37, "FUN": 3, "QTY": 11}          # other code ran in between: no boundary targeted
        real_offs = {p: k - x_alloc.get(p, 0) for p, k in offs.items()}
        if any(k < 0 for k in real_offs.values()):
            continue
        steps += offsets_steps(real_offs) + [["import", m]]
        specs.append({"hid": f"canon:{cls['name']}{tag}:{m}", "steps": steps, "observe": [m],
                      "tests": {m: tests[m]} if m in tests else {}, "class": cls["name"], "target": m,
                      "intended": cls["where"]})
    return specs


# ---------------------------------------------------------------------------------------------------
# comparison


def compare(ref_fp: dict, fp: dict) -> list:
    """[(verdict, key, text)] for every part of a module's fingerprint; verdict in same / differs / undecided."""
    out = []
    ra, rb = ref_fp.get("eqs", {}), fp.get("eqs", {})
    for k in sorted(set(ra) | set(rb)):
        a, b = ra.get(k), rb.get(k)
        if a is None or b is None:
            out.append(("differs", f"eq:{k}", f"public equation `{k}` exists in one history only"))
            continue
        if a.get("struct") is None or b.get("struct") is None:
            out.append(("undecided", f"eq:{k}", f"equation `{k}`: {a.get('why') or b.get('why')}"))
            continue
        if a["struct"] == b["struct"]:
            out.append(("same", f"eq:{k}", ""))
            continue
        if not a.get("plain") or not b.get("plain"):
            out.append(("undecided", f"eq:{k}", f"equation `{k}` differs structurally and cannot be evaluated"))
            continue
        v, why = c03_value.equations(a["plain"], b["plain"])
        out.append((v, f"eq:{k}", f"equation `{k}`: {why}; reference {a['struct']} ; here {b['struct']}"))
    if "undecided" in ref_fp or "undecided" in fp:
        out.append(("undecided", "calls", str(ref_fp.get("undecided") or fp.get("undecided"))))
    ca = {(c[0], c[1], c[2]): c[3] for c in ref_fp.get("calls", [])}
    cb = {(c[0], c[1], c[2]): c[3] for c in fp.get("calls", [])}
    for k in sorted(set(ca) | set(cb)):
        name = f"call:{k[2]}@{k[0]}#{k[1]}"
        if k[0] == "zeroB":
            # the same call with a zero-valued argument, other code having created quantities between two of the
            # arguments (a QTY digit boundary between them): value and DIMENSION must be those of the plain call
            plain = ca.get(("zero", 0, k[2]))
            if k in cb and plain is not None:
                v = c03_value.values(plain, cb[k])
                out.append((v, name, f"{k[2].split(':')[0]}(...) with a zero-valued `{k[2].split(':')[1]}`: "
                                     f"{plain} when the arguments are created one after the other ; {cb[k]} when a "
                                     f"digit boundary of the QTY counter falls between two of them" if v != "same" else ""))
            continue
        if k not in ca or k not in cb:
            out.append(("undecided", name, "call recorded in one history only"))
            continue
        v = c03_value.values(ca[k], cb[k])
        out.append((v, name, f"{k[2]}(...) in {k[0]}: reference {ca[k]} ; here {cb[k]}" if v != "same" else ""))
    return out


# ---------------------------------------------------------------------------------------------------


def collect(run: Run, sc: Path, specs: list, label: str, per_timeout: int, results: dict, workers: int = WORKERS) -> None:
    """Run histories in parallel subprocesses."""
    t0 = time.time()
    with ThreadPoolExecutor(max_workers=workers) as ex:
        futs = {ex.submit(run_history, sc, s, hs, per_timeout): s for s, hs in specs}
        for f in as_completed(futs):
            r = f.result()
            if r.get("crash"):
                raise RuntimeError(f"history {r['hid']} crashed the replay process (rc={r.get('rc')}):\n{r['crash']}")
            results[r["hid"]] = r
    run.coverage.setdefault("phases", {})[label] = {"histories": len(specs), "wall_s": round(time.time() - t0, 1)}


def judge(run: Run, sc: Path, modules: list, results: dict, refs: dict) -> None:
    """Build the traces of all histories, let TLC decide, and turn ILLEGAL events into violations."""
    midx = {m: i + 1 for i, m in enumerate(modules)}
    traces, details = [], {}
    for hid, r in sorted(results.items()):
        if r.get("timeout"):
            run.outside(f"history did not finish in time: {hid.split(':')[0]}")
            continue
        ev = []
        det = {}
        runs = idtrace.to_runs([(b, i) for b, i, _o in r["events"]])
        for x in runs:
            ev.append({"ev": "ids", "b": x["b"], "lo": x["lo"], "hi": x["hi"], "m": 0, "ok": True, "loaded": [], "fp": 0})
        for imp in r["imports"]:
            if imp.get("timeout"):
                run.outside(f"import timed out: {imp['m']}")
                continue
            if imp["m"] not in midx:
                continue
            det[len(ev) + 1] = ("import", imp)
            ev.append({"ev": "import", "b": "", "lo": 0, "hi": 0, "m": midx[imp["m"]], "ok": bool(imp["ok"]),
                       "loaded": [midx[x] for x in imp["loaded"] if x in midx], "fp": 0})
        for m, fp in sorted(r.get("fps", {}).items()):
            if m not in midx or fp.get("missing"):
                continue
            ref = refs.get(m)
            if ref is None or m not in ref.get("fps", {}):
                run.outside("no reference fingerprint (module does not import alone)")
                continue
            parts = compare(ref["fps"][m], fp)
            for v, key, text in parts:
                if v == "undecided":
                    run.outside(f"fingerprint part undecided: {text[:80]}")
            diffs = [(key, text) for v, key, text in parts if v == "differs"]
            decided = [p for p in parts if p[0] != "undecided"]
            if not decided:
                continue
            det[len(ev) + 1] = ("observe", {"m": m, "diffs": diffs, "parts": len(decided)})
            ev.append({"ev": "observe", "b": "", "lo": 0, "hi": 0, "m": midx[m], "ok": True, "loaded": [],
                       "fp": 1 if diffs else 0})
            run.count(f"{m}@{hid.split(':')[0]}")
        traces.append({"tid": len(traces), "hid": hid, "ev": ev,
                       "named": idtrace.clash_candidates([(b, i) for b, i, _o in r["events"]])})       # short tids: TLC wraps long printed tuples
        details[hid] = det
    f = sc / "histories_trace.json"
    f.write_text(json.dumps({"traces": traces, "nmods": len(modules)}))
    cfg = write_cfg(sc / "histories_trace.cfg", init="TraceInit", next_="TraceNext",
                    constants=dict(NULL, World="<- TraceWorld", Bumps=set(), MaxHist=0),
                    invariants=["Done", "Illegal", "NameClash"])
    res = run_tlc("HistoriesTrace", cfg, sc, workers=1, env={"TRACE_FILE": str(f)}, allow_violation=False, timeout=3000)
    run.add_tlc(res, f"trace validation (HistoriesTrace): {len(traces)} replayed histories, "
                     f"{sum(len(t['ev']) for t in traces)} events")
    done, illegal = set(), []
    for line in res.raw_prints:
        v = parse_tla_tuple(line)
        if v[0] == "DONE":
            done.add(v[1])
        elif v[0] == "ILLEGAL":
            illegal.append(v[1:])
        elif v[0] == "CLASH":
            t = traces[v[1]]
            a, b = t["named"][v[2] - 1], t["named"][v[3] - 1]
            r = results[t["hid"]]
            run.violation(f"alias:{a['b']}{a['id']}",
                          f"history {t['hid']}: the generated name {a['b']}{a['id']} is built twice - from prefix {a['b']!r} "
                          f"id {a['id']} and from prefix {b['b']!r} id {b['id']}: two objects created by different code "
                          f"share their internal name in this history (NoAlias of Symbols.tla)",
                          {"history": r["spec"], "hashseed": r["hashseed_used"], "events": [a, b]})
    rank = {"iso": 0, "iso-shifted": 1, "iso-wrapped": 1, "iso-coreapi": 1, "boundary": 2, "iso-hashseed7": 3, "threaded": 4, "canon": 5, "cat": 6}
    # report each defect with the simplest history that shows it
    illegal = sorted(((traces[x[0]]["hid"], x[1], x[2]) for x in illegal),
                     key=lambda x: (rank.get(x[0].split(":")[0], 9), x[0], x[1]))
    missing = [t["hid"] for t in traces if t["tid"] not in done]
    if missing:
        raise RuntimeError(f"trace validation did not finish for {missing[:5]}")
    run.traces += len(traces)
    nev = sum(x["hi"] - x["lo"] + 1 for t in traces for x in t["ev"] if x["ev"] == "ids")
    run.coverage["next_id_events_validated"] = nev
    for hid, idx, kind in illegal:
        r = results[hid]
        replay = {"history": r["spec"], "hashseed": r["hashseed_used"], "event_index": idx, "event_kind": kind}
        if kind == "ids":
            e = next(t for t in traces if t["hid"] == hid)["ev"][idx - 1]
            run.violation(f"next_id:{hid}:{e['b']}{e['lo']}",
                          f"history {hid}: id {e['b']}{e['lo']}..{e['hi']} handed out twice (not a behaviour of Symbols.tla)", replay)
            continue
        what, d = details[hid][idx]
        if what == "import":
            short = d["m"].split("symplyphysics.")[-1]
            if d["ok"]:
                run.violation(f"{short}:import-order", f"history {hid}: import of {d['m']} is not a legal Import step "
                                                       f"(loaded {d['loaded'][:4]})", dict(replay, module=d["m"]))
            else:
                run.violation(short, f"import of {d['m']} FAILS in history {hid} (PYTHONHASHSEED={r['hashseed_used']}, "
                                     f"counters before: {d.get('ids_before')}): {d['err']}: {d['msg']} at "
                                     f"{' <- '.join(d.get('where', []))}", dict(replay, module=d["m"]))
        else:
            short = d["m"].split("symplyphysics.")[-1]
            for key, text in d["diffs"]:
                run.violation(f"{short}:{key}", f"meaning of {d['m']} differs between the reference history and {hid}: "
                                                f"{text}", dict(replay, module=d["m"], part=key))


def selftest(run: Run, sc: Path) -> None:
    """Binding of the trace specification: a synthetic trace with four planted defects (an id handed out twice,
    a failing import, an import that loads a module twice, an observation that deviates from the reference)
    must get exactly these four ILLEGAL verdicts."""
    z = {"b": "", "lo": 0, "hi": 0, "m": 0, "ok": True, "loaded": [], "fp": 0}
    ev = [dict(z, ev="ids", b="SYM", lo=1, hi=10), dict(z, ev="ids", b="FUN", lo=1, hi=3),
          dict(z, ev="ids", b="SYM", lo=10, hi=12),                       # 2: SYM10 again
          dict(z, ev="import", m=1, loaded=[2, 1]), dict(z, ev="import", m=3, ok=False, loaded=[]),   # 4: fails
          dict(z, ev="import", m=4, loaded=[2, 4]),                       # 5: module 2 loaded twice
          dict(z, ev="observe", m=1, fp=0), dict(z, ev="observe", m=2, fp=1)]       # 7: deviates
    f = sc / "selftest_trace.json"
    f.write_text(json.dumps({"traces": [{"tid": 0, "ev": ev, "named": [{"b": "m", "id": 11}, {"b": "m1", "id": 1}]}], "nmods": 4}))
    cfg = write_cfg(sc / "selftest_trace.cfg", init="TraceInit", next_="TraceNext",
                    constants=dict(NULL, World="<- TraceWorld", Bumps=set(), MaxHist=0),
                    invariants=["Done", "Illegal", "NameClash"])
    res = run_tlc("HistoriesTrace", cfg, sc, workers=1, env={"TRACE_FILE": str(f)}, allow_violation=False)
    got = sorted(parse_tla_tuple(x)[2] for x in res.raw_prints if x.startswith('<<"ILLEGAL"'))
    if not any(x.startswith('<<"CLASH"') for x in res.raw_prints):
        raise RuntimeError("self-test of HistoriesTrace.tla failed: the planted name clash m11 = m1 + 1 was not reported")
    if got != [3, 5, 6, 8]:
        raise RuntimeError(f"self-test of HistoriesTrace.tla failed: planted defects at events [3, 5, 6, 8], TLC reported {got}")
    run.coverage["selftest_trace_spec"] = "5 planted defects (repeated id, name clash, failing import, double load, deviating observation) all rejected"


def main() -> int:
    tier = sys.argv[1] if len(sys.argv) > 1 else "quick"
    if tier == "--replay":
        return replay_file(sys.argv[2])
    run = Run(PID, tier)
    modules = catalogue.list_modules()
    only = [x for x in os.environ.get("VERIF_ONLY", "").split(",") if x]      # development aid: module substrings
    tests = test_index(modules)
    run.coverage["catalogue"] = {"modules": len(modules), "with_test_file": len(tests)}
    with Scratch() as sc:
        emitted = model_check(run, sc, tier)
        selftest(run, sc)
        classes = canonical_classes(emitted)
        chosen = select_classes(classes)
        run.coverage["canonical_history_classes"] = {"emitted_histories": len(emitted), "classes": len(classes),
                                                     "replayed_per_module": [c["name"] for c in chosen]}
        results: dict = {}
        # --- the reference history of every module, and the whole-catalogue orders (started first: long)
        iso = [m for m in modules if not only or any(o in m for o in only)]
        cats = [] if only and "cat" not in only else catalogue_orders(modules, tier, run.seed)
        specs = [(cat_spec(h, o, offs, tests), hs) for h, o, offs, hs in cats] + [(iso_spec(m, tests, True), 0) for m in iso] + \
            [(shifted_spec(m, tests), 5) for m in iso] + [(x, 0) for x in wrapped_specs(iso, tests) + coreapi_specs(iso, tests)] + \
            ([] if only and "threaded" not in only else [(x, 0) for x in threaded_specs(modules, tests)])
        collect(run, sc, specs, "isolated + isolated with shifted counters + threaded + catalogue orders", 3000, results)
        refs = {m: results[f"iso:{m}"] for m in iso if f"iso:{m}" in results and not results[f"iso:{m}"].get("timeout")}
        # every position of a digit boundary inside the names one import hands out (FUN / QTY / SYS blocks are
        # small: all positions in quick; SYM as well in thorough)
        prefixes = ("FUN", "QTY", "SYS", "SYM")
        specs = [(x, 0) for m in iso if m in refs
                 for x in boundary_specs(m, refs[m], tests, prefixes, sample=None if tier == "thorough" else run.seed)]
        run.coverage["boundary_histories"] = {"total": len(specs), "SYM": sum(1 for x, _ in specs if x["hid"].startswith("boundary:SYM")),
                                              "SYM_positions": "all" if tier == "thorough" else "a seeded third per module (VERIF_SEED)"}
        collect(run, sc, specs, "boundary inside the names of one import, every position", 900, results)
        # a second hash seed for the reference history (thorough)
        if tier == "thorough":
            specs = []
            for m in iso:
                s = iso_spec(m, tests)
                s["hid"] = f"iso-hashseed7:{m}"
                specs.append((s, 7))
            collect(run, sc, specs, "isolated, PYTHONHASHSEED=7", 900, results)
            specs, skipped = [], 0
            for m in iso:
                if m not in refs or not refs[m]["imports"][0]["ok"]:
                    continue
                for c in chosen:
                    ss = realise(c, m, refs[m], tests, refs)
                    if not ss:
                        skipped += 1
                    specs += [(x, 0) for x in ss]
            collect(run, sc, specs, "canonical histories", 900, results)
            hit = targeted = 0
            for sp_, _hs in specs:
                r = results.get(sp_["hid"], {})
                if all(w == "not-inside" for w in sp_["intended"].values()):
                    continue
                targeted += 1
                if "events" not in r or sp_["target"] not in r["owners"]:
                    continue
                oi = r["owners"].index(sp_["target"])
                own = {}
                for b, i, o in r["events"]:
                    if o == oi:
                        own.setdefault(b, []).append(i)
                inside = [p for p, w in sp_["intended"].items() if w != "not-inside"]
                if all(any(str(i) in ("10", "100", "1000", "10000", "100000") for i in sorted(own.get(p, []))[1:])
                       for p in inside):
                    hit += 1
            run.coverage["canonical_histories"] = {"realised": len(specs), "class_not_realisable_for_module": skipped,
                                                   "histories_targeting_a_boundary_inside_a_block": targeted,
                                                   "boundary_fell_where_intended": hit}
        for r in list(results.values())[:3]:
            run.sample({"history": r["hid"], "steps": r.get("spec", {}).get("steps", [])[:6],
                        "ids_after_base": r.get("ids_after_base"), "ids_end": r.get("ids_end")})
        judge(run, sc, modules, results, refs)
        run.coverage["replay_cpu_note"] = "every history ran in its own fresh interpreter"
    run.assumptions += [
        "the reference meaning of a module is its fingerprint when imported alone into a fresh interpreter",
        "fingerprints are compared by value: equal label-level structure, else numeric evaluation of lhs - rhs under a "
        "fixed label -> number environment with a witness point required for a difference; undecided otherwise",
        "calculate_* arguments are the ones the module's own test functions pass (first two non-'bad' tests), "
        "synthesised from the decorator declarations for modules without a test file",
        "results are equal up to a relative 1e-9",
    ]
    return run.finish(exhaustive=False)


def replay_file(path: str) -> int:
    data = json.loads(Path(path).read_text())
    c = data["case"]
    if "history" not in c or "module" not in c:
        print("nothing to replay in this file")
        return 0
    modules = catalogue.list_modules()
    tests = test_index(modules)
    m = c["module"]
    with Scratch() as sc:
        spec = dict(c["history"], tests=tests)
        if spec.get("observe") == "imported":
            spec["observe"] = [m]
            spec["fp_workers"] = 1
        r = run_history(sc, spec, c.get("hashseed", 0), 3000)
        ref = run_history(sc, iso_spec(m, tests, True), 0, 900)
    bad = []
    for imp in r.get("imports", []):
        if imp["m"] == m and not imp["ok"]:
            bad.append(f"import of {m} fails: {imp['err']}: {imp['msg']}")
    if not bad and m in r.get("fps", {}) and m in ref.get("fps", {}):
        bad += [t for v, _k, t in compare(ref["fps"][m], r["fps"][m]) if v == "differs"]
    for b in bad:
        print(f"VIOLATION property={PID} replay={path}\n  {b}")
    print("replayed history", c["history"].get("hid"), "->", "violation" if bad else "ok")
    return 1 if bad else 0


if __name__ == "__main__":
    main_wrapper(main)
