"""C15: experimental coordinate conversions are consistent and geometry-preserving.

model        : spec/CoordConv.tla - state = Cartesian position + Cartesian components of an attached vector + the
               systems the library holds them in; ConvertPoint / ConvertVector over all ordered pairs; TLC checks
               that position and components are invariant along every path.
spec -> code : TLC emits every conversion path (depth 4 quick / 5-6 thorough) from every system at Pythagorean points
               of every octant; each is replayed with the real convert_point / convert_vector (which use
               express_base_scalars / express_base_vectors); after every step the real point and vector are
               projected to Cartesian by the textbook formulas of harness/geom.py and compared exactly with the
               model; whenever the point is back in its start system its coordinates must be the original ones.
code -> spec : the real base-vector conversion matrices T[A][B] (all nine pairs), the Jacobians of the real scalar
               tables and the Lame coefficients are evaluated at the points (rationals), recorded, and
               spec/CoordConvTrace.tla lets TLC decide T T^t = I, det T = 1, T[A][B] T[B][A] = I,
               T[A][C] = T[B][C] T[A][B], J e_i = h_i column_i(T[A][cart]), h_i^2 = sum_j J_ji^2.
"""
from __future__ import annotations

import json
import sys
import time
from fractions import Fraction

from .common import HardTimeout, Run, main_wrapper, make_pool, pmap, time_limit
from . import geom
from .geom import compare_exact, in_threads, rat, to_fraction
from .tlc import Scratch, run_tlc, write_cfg

PID = "C15"

# indices into CoordConv!PythagoreanPoints (= geom.BASE_POINTS), 1-based; CoordConv!TestVectors
TIERS = {
    "quick": dict(
        paths=[dict(MaxDepth=4, PointIdx={1, 5}, Octants={1, 4, 6, 7}, VecIdx={1}, Forms={"plain"}),
               dict(MaxDepth=3, PointIdx={2, 3, 6}, Octants={2, 3, 5, 8}, VecIdx={5}, Forms={"plain"}),
               # base vectors nested inside cross / dot products
               dict(MaxDepth=3, PointIdx={1, 2}, Octants={4, 6}, VecIdx={1, 5}, Forms={"cross", "dot"})],
        matrix_points=geom.octant_points(geom.SMALL_POINTS)),
    "thorough": dict(
        paths=[dict(MaxDepth=5, PointIdx={5}, Octants={1, 4, 6, 7}, VecIdx={1}, Forms={"plain"}),
               dict(MaxDepth=4, PointIdx={1, 2, 3, 4, 6, 7, 8, 9, 10, 11, 12}, Octants={2, 7}, VecIdx={5}, Forms={"plain"}),
               dict(MaxDepth=3, PointIdx={1, 2, 3}, Octants={1, 2, 3, 4, 5, 6, 7, 8}, VecIdx={2, 3, 4}, Forms={"plain"}),
               dict(MaxDepth=4, PointIdx={1, 5}, Octants={1, 4, 6, 7}, VecIdx={1, 5}, Forms={"cross", "dot"})],
        matrix_points=geom.octant_points(geom.SMALL_POINTS)),
}
INVARIANTS = ["TypeOK", "GeometryInvariant", "OffAxis", "AllPairsOffered"]
PROPERTIES = ["RoundTrip"]
SYSTEMS = ("cart", "cyl", "sph")
STEP_SECONDS = 30
GROUP_SECONDS = 900

_SYS = None
_SYS2 = None
_SYS3 = None


def _init():
    """Three instances of every kind of system: two default ones and one with the user's own base scalars."""
    global _SYS, _SYS2, _SYS3  # pylint: disable=global-statement
    if _SYS is None:
        from symplyphysics.core.experimental import coordinate_systems as cs   # before ..points (import cycle)
        from symplyphysics import Symbol, angle_type, units
        _SYS = {"cart": cs.CartesianCoordinateSystem(), "cyl": cs.CylindricalCoordinateSystem(),
                "sph": cs.SphericalCoordinateSystem()}
        _SYS2 = {"cart": cs.CartesianCoordinateSystem(), "cyl": cs.CylindricalCoordinateSystem(),
                 "sph": cs.SphericalCoordinateSystem()}
        length, angle = units.length, angle_type
        _SYS3 = {
            "cart": cs.CartesianCoordinateSystem(base_scalars=[Symbol("u1", length, real=True), Symbol("u2", length, real=True),
                                                               Symbol("u3", length, real=True)]),
            "cyl": cs.CylindricalCoordinateSystem(base_scalars=[Symbol("v1", length, nonnegative=True), Symbol("v2", angle, real=True),
                                                                Symbol("v3", length, real=True)]),
            "sph": cs.SphericalCoordinateSystem(base_scalars=[Symbol("w1", length, nonnegative=True),
                                                              Symbol("w2", angle, nonnegative=True), Symbol("w3", angle, real=True)]),
        }
    return _SYS


def _sets():
    _init()
    return (_SYS, _SYS2, _SYS3)


def _kind(system):
    for k, s in _init().items():
        if s is system:
            return k
    for other in (_SYS2, _SYS3):
        for k, s in other.items():
            if s is system:
                return k
    return type(system).__name__


# ---------------------------------------------------------------------------------------------------------
# the harness' own textbook formulas.  Experimental convention: cylindrical (rho, phi = azimuth, z),
# spherical (r, theta = polar angle from +z, phi = azimuth).

def coords_of(pos, kind):
    if kind == "cart":
        import sympy as sp
        return [sp.Integer(c) for c in pos]
    if kind == "cyl":
        return list(geom.cart_to_cyl(*pos))
    return list(geom.cart_to_sph(*pos))


def project_point(kind, coords):
    if kind == "cart":
        return list(coords)
    if kind == "cyl":
        return list(geom.cyl_to_cart(*coords))
    return list(geom.sph_to_cart(*coords))


def frame(kind, coords):
    """Cartesian components of the three unit base vectors of the system at the point."""
    if kind == "cart":
        return ((1, 0, 0), (0, 1, 0), (0, 0, 1))
    if kind == "cyl":
        return geom.cyl_frame(coords[1])
    return geom.sph_frame(coords[1], coords[2])


def make_point(pos, kind, systems=None):
    from symplyphysics.core.experimental.points import AppliedPoint
    return AppliedPoint(coords_of(pos, kind), (systems or _init())[kind])


def make_vector(vec, kind, point):
    """The vector with the given Cartesian components, written in the base vectors of the system at the point."""
    import sympy as sp
    fr = frame(kind, list(point.coordinates.values()))
    out = sp.S.Zero
    for e, base in zip(fr, point.system.base_vectors(point)):
        c = to_fraction(sum(sp.Integer(v) * sp.sympify(x) for v, x in zip(vec, e)))
        out = out + base * sp.Rational(c.numerator, c.denominator)
    return out


class Unevaluable(Exception):
    """The expression contains a vector that is not a base vector of the system at the point."""


def eval_vector(expr, frame):
    """Cartesian components of a vector expression over the base vectors in `frame` (base vector -> Cartesian
    triple): sums, scalar multiples, cross products; scalar factors may contain dot products and norms."""
    import sympy as sp
    from symplyphysics.core.experimental.vectors import VectorCross, is_vector_expr
    expr = sp.sympify(expr)
    if expr == 0:
        return [sp.S.Zero] * 3
    if expr in frame:
        return [sp.sympify(c) for c in frame[expr]]
    if isinstance(expr, sp.Add):
        parts = [eval_vector(a, frame) for a in expr.args]
        return [sum(p[i] for p in parts) for i in range(3)]
    if isinstance(expr, sp.Mul):
        vectors = [a for a in expr.args if not a.is_number and is_vector_expr(a)]
        if len(vectors) != 1:
            raise Unevaluable(expr)
        factor = sp.Mul(*[eval_scalar(a, frame) for a in expr.args if a is not vectors[0]])
        return [factor * c for c in eval_vector(vectors[0], frame)]
    if isinstance(expr, VectorCross):
        p, q = (eval_vector(a, frame) for a in expr.args)
        return [p[1] * q[2] - p[2] * q[1], p[2] * q[0] - p[0] * q[2], p[0] * q[1] - p[1] * q[0]]
    raise Unevaluable(expr)


def eval_scalar(expr, frame):
    import sympy as sp
    from symplyphysics.core.experimental.vectors import VectorDot, VectorNorm, is_vector_expr
    if isinstance(expr, VectorDot):
        p, q = (eval_vector(a, frame) for a in expr.args)
        return sum(x * y for x, y in zip(p, q))
    if isinstance(expr, VectorNorm):
        p = eval_vector(expr.args[0], frame)
        return sp.sqrt(sum(x * x for x in p))
    if not expr.args:
        if not expr.is_number and is_vector_expr(expr):
            raise Unevaluable(expr)
        return expr
    return expr.func(*[eval_scalar(a, frame) for a in expr.args])


def project_vector(vector, kind, point):
    """Cartesian components of the (possibly nested) vector expression, or None when it contains vectors that are
    not base vectors of the point's system at the point."""
    fr = frame(kind, list(point.coordinates.values()))
    try:
        return eval_vector(vector, dict(zip(point.system.base_vectors(point), fr)))
    except Unevaluable:
        return None


def make_form(start, point):
    """The attached vector of the start state as the expression the model names (plain / cross / dot)."""
    from symplyphysics.core.experimental.vectors import VectorCross, VectorDot
    a = make_vector(start["opa"], start["vsys"], point)
    if start["form"] == "plain":
        return a
    b = make_vector(start["opb"], start["vsys"], point)
    if start["form"] == "cross":
        return VectorCross(a, b)
    return b * VectorDot(a, b)


# ---------------------------------------------------------------------------------------------------------
# spec -> code

class _Ctx:
    def __init__(self):
        self.problems, self.outside, self.steps = [], {}, 0

    def note(self, reason):
        self.outside[reason] = self.outside.get(reason, 0) + 1

    def cmp(self, where, clause, expr, want, label):
        v = compare_exact(expr, Fraction(want))
        if v == "different":
            self.problems.append((where, clause, f"{label() if callable(label) else label}: real value {expr}, model {want}"))
        elif v == "numeric-equal":
            self.note("value not reduced to a rational by SymPy (agrees numerically to 40 digits)")


def observe(ctx, where, state, snap, start_coords):
    import sympy as sp
    P, V, Q = state
    for name, pt, want_sys in (("point", P, snap["psys"]), ("attachment point", Q, snap["vsys"])):
        if pt.system is not _init()[want_sys]:
            ctx.problems.append((where, f"{name} system", f"{name} is in {_kind(pt.system)}, model {want_sys}"))
            return
        cart = project_point(want_sys, list(pt.coordinates.values()))
        for i, (c, w) in enumerate(zip(cart, snap["pos"])):
            ctx.cmp(where, f"{name} position[{i}]", c, w,
                    lambda: f"{want_sys} coordinates {list(pt.coordinates.values())} project to")
    cartv = project_vector(V, snap["vsys"], Q)
    if cartv is None:
        ctx.problems.append((where, "vector basis", f"the converted vector contains vectors that are not {snap['vsys']} base vectors at its point: {V}"))
    else:
        for i, (c, w) in enumerate(zip(cartv, snap["vec"])):
            ctx.cmp(where, f"vector component[{i}]", c, w, lambda: f"{snap['vsys']} vector {sp.expand(V)} projects to")
    # base scalars A -> ... -> A: the identity on the system's domain
    if snap["psys"] == start_coords[0]:
        for i, (got, want) in enumerate(zip(P.coordinates.values(), start_coords[1])):
            d = sp.N(sp.sympify(got) - want, 40)
            same = bool(d.is_number and abs(d) < sp.Float(10) ** -30)
            if not same:
                ctx.problems.append((where, f"round trip coordinate[{i}]",
                                     f"back in {snap['psys']}: coordinate {got}, originally {want}"))


def symbolic_pass(ctx, start, trie, max_depth=2):
    """The same conversions with SYMBOLIC coordinates: convert first, plug the numbers of the point in afterwards;
    the result must describe the same Cartesian position / components."""
    import sympy as sp
    from symplyphysics.core.experimental.points import AppliedPoint
    from symplyphysics.core.experimental.coordinate_systems import convert_point, convert_vector
    syms = sp.symbols("s1:4", real=True)
    values = dict(zip(syms, coords_of(start["pos"], start["psys"])))
    sysm = _init()
    P = AppliedPoint(list(syms), sysm[start["psys"]])
    fr = frame(start["vsys"], list(syms))
    V = sum((base * sum(sp.Integer(v) * sp.sympify(x) for v, x in zip(start["vec"], e))
             for e, base in zip(fr, P.system.base_vectors(P))), sp.S.Zero)

    def numeric(point):
        return [sp.sympify(c).subs(values) for c in point.coordinates.values()]

    def walk(state, trie, depth):
        P, V, Q = state
        for (act, to), node in trie.items():
            where = (node["idx"], node["depth"] + 1)
            snap = node["step"]
            try:
                if act == "point":
                    new = (convert_point(P, sysm[to]), V, Q)
                else:
                    new = (P, convert_vector(V, Q, sysm[to]), convert_point(Q, sysm[to]))
            except HardTimeout:
                raise
            except Exception as e:  # pylint: disable=broad-except
                ctx.problems.append((where, f"symbolic convert {act} to {to}", f"conversion of a symbolic point raised {type(e).__name__}: {str(e)[:100]}"))
                continue
            before = len(ctx.problems)
            for name, pt, kind in (("point", new[0], snap["psys"]), ("attachment point", new[2], snap["vsys"])):
                for i, (c, w) in enumerate(zip(project_point(kind, numeric(pt)), snap["pos"])):
                    ctx.cmp(where, f"symbolic {name} position[{i}]", c, w,
                            lambda: f"{kind} point converted with symbolic coordinates {list(pt.coordinates.values())}, numbers {list(values.values())} plugged in afterwards, projects to")
            Qn = new[2]
            frame_n = frame(snap["vsys"], numeric(Qn))
            try:
                cartv = eval_vector(sp.sympify(new[1]).subs(values), dict(zip(Qn.system.base_vectors(Qn), frame_n)))
                for i, (c, w) in enumerate(zip(cartv, snap["vec"])):
                    ctx.cmp(where, f"symbolic vector component[{i}]", c, w, lambda: f"vector converted at a symbolic point {new[1]} projects to")
            except Unevaluable:
                ctx.problems.append((where, "symbolic vector basis", f"the vector converted at a symbolic point contains foreign vectors: {new[1]}"))
            if len(ctx.problems) == before and depth + 1 < max_depth:
                walk(new, node["next"], depth + 1)

    walk((P, V, P), trie, 0)


def replay_group(group):
    """group = dict(start, paths=[(idx, path)], gid)"""
    _init()
    from symplyphysics.core.experimental.coordinate_systems import convert_point, convert_vector
    ctx = _Ctx()
    start = group["start"]
    t0 = time.time()
    try:
        with time_limit(STEP_SECONDS):
            P = make_point(start["pos"], start["psys"])
            Q = make_point(start["pos"], start["vsys"])
            V = make_form(start, Q)
            start_coords = (start["psys"], coords_of(start["pos"], start["psys"]))
            observe(ctx, (-1, 0), (P, V, Q), start, start_coords)
    except HardTimeout:
        ctx.note("start state timed out (SymPy)")
        return group["gid"], ctx.problems, ctx.outside, ctx.steps
    trie = {}
    for idx, path in group["paths"]:
        node = trie
        for depth, step in enumerate(path):
            key = (step["act"], step["to"])
            node = node.setdefault(key, {"step": step, "idx": idx, "depth": depth, "next": {}})["next"]

    def walk(state, trie):
        P, V, Q = state
        for (act, to), node in trie.items():
            where = (node["idx"], node["depth"] + 1)
            ctx.steps += 1
            before = len(ctx.problems)
            target = _init()[to]
            try:
                with time_limit(STEP_SECONDS):
                    try:
                        if act == "point":
                            new = (convert_point(P, target), V, Q)
                        else:
                            new = (P, convert_vector(V, Q, target), convert_point(Q, target))
                    except Exception as e:  # pylint: disable=broad-except
                        ctx.problems.append((where, f"convert {act} to {to}", f"conversion raised {type(e).__name__}: {str(e)[:100]}"))
                        continue
                    observe(ctx, where, new, node["step"], start_coords)
            except HardTimeout:
                ctx.note("step timed out (SymPy); the paths below it were not replayed")
                continue
            if len(ctx.problems) > before:
                continue           # a failing step is reported once; the paths below it start from a wrong state
            if time.time() - t0 > GROUP_SECONDS:
                ctx.note("group budget exhausted (SymPy slow); deeper paths not replayed")
                continue
            walk(new, node["next"])

    if not ctx.problems:
        walk((P, V, Q), trie)
    if not ctx.problems:
        try:
            with time_limit(120):
                symbolic_pass(ctx, start, trie)
        except HardTimeout:
            ctx.note("symbolic point pass timed out (SymPy)")
    return group["gid"], ctx.problems, ctx.outside, ctx.steps


# ---------------------------------------------------------------------------------------------------------
# code -> spec: conversion matrices, Jacobians, Lame coefficients at a point

def _exact(expr, ctx_notes):
    """Exact rational value of a real table entry at a Pythagorean point."""
    import sympy as sp
    f = to_fraction(expr)
    if f is not None:
        return f
    # not reduced by SymPy: identify the value numerically (60 digits) as a small rational and say so
    val = sp.N(expr, 60)
    if val.is_number and val.is_real:
        guess = Fraction(str(sp.N(val, 30))).limit_denominator(100000)
        if abs(sp.N(val - sp.Rational(guess.numerator, guess.denominator), 60)) < sp.Float(10) ** -40:
            ctx_notes.append("matrix entry identified numerically (40 digits) because SymPy did not reduce it")
            return guess
    return None


def record_point(args):
    """All three instances of the systems at one point, in this order and in one process (a per-kind cache inside
    the library would serve the first instance's data to the later ones)."""
    rid, pos = args
    return [_record_instance(rid * 3 + inst, pos, inst) for inst in range(3)]


def _record_instance(rid, pos, inst):
    import sympy as sp
    sets = _sets()
    sy, other = sets[inst], sets[(inst + 1) % 3]
    from symplyphysics.core.experimental.coordinate_systems import express_base_scalars, express_base_vectors
    notes, problems = [], []
    rec = {"id": rid, "p": list(pos), "inst": inst, "T": {}, "J": {}, "h": {}}

    def entry(name, expr):
        val = _exact(expr, notes)
        if val is None:
            problems.append((name, f"{name} at {list(pos)} (instance {inst + 1} of the system) is not a rational number: {expr}"))
        return val

    try:
        with time_limit(300):
            pts = {k: make_point(pos, k, sy) for k in SYSTEMS}
            pts2 = {k: make_point(pos, k, other) for k in SYSTEMS}
            for a in SYSTEMS:
                rec["T"][a] = {}
                for b in SYSTEMS:
                    new_sys, new_pt = (sy[b], pts[b]) if a != b else (other[b], pts2[b])
                    mapping = express_base_vectors(sy[a], new_sys, old_args=(pts[a],), new_args=(new_pt,))
                    old_bases, new_bases = sy[a].base_vectors(pts[a]), new_sys.base_vectors(new_pt)
                    mat = [[None] * 3 for _ in range(3)]
                    for i, ob in enumerate(old_bases):
                        if ob not in mapping:
                            problems.append((f"T[{a}][{b}]", f"express_base_vectors gives no image for base vector {i + 1}"))
                            continue
                        e = sp.expand(sp.sympify(mapping[ob]).subs(new_pt.coordinates))
                        rest = e
                        for j, nb in enumerate(new_bases):
                            c = e.coeff(nb)
                            rest = rest - c * nb
                            mat[j][i] = entry(f"T[{a}][{b}][{j + 1}][{i + 1}]", c)
                        if sp.expand(rest) != 0:
                            problems.append((f"T[{a}][{b}]", f"image of base vector {i + 1} is not a combination of the new base vectors: {e}"))
                    rec["T"][a][b] = mat
                # express_base_scalars(A, B) is a substitution FOR A's base scalars: its keys are exactly A's base
                # scalars (in order), and substituting A -> B -> A is the identity on each of them at the point
                for b in SYSTEMS:
                    if a == b:
                        continue
                    fwd = express_base_scalars(sy[a], sy[b])
                    if list(fwd.keys()) != list(sy[a].base_scalars):
                        problems.append((f"express_base_scalars({a}, {b}) keys",
                                         f"keys {list(fwd.keys())} are not the base scalars {list(sy[a].base_scalars)} of the {a} system"))
                        continue
                    back = express_base_scalars(sy[b], sy[a])
                    for q in sy[a].base_scalars:
                        trip = sp.sympify(q).subs(fwd).subs(back).subs(pts[a].coordinates)
                        diff = sp.N(trip - pts[a].coordinates[q], 40)
                        if not (diff.is_number and abs(diff) < sp.Float(10) ** -30):
                            problems.append((f"express_base_scalars {a}->{b}->{a}",
                                             f"substituting the mappings by key takes {q} to {trip} at {list(pos)}, not back to {pts[a].coordinates[q]}"))
                # position as a function of this system's scalars, from the real scalar tables
                old_cart = sy["cart"]
                new_sys, new_pt = (sy[a], pts[a]) if a != "cart" else (other["cart"], pts2["cart"])
                scal = express_base_scalars(old_cart, new_sys)
                xs = [scal[s] for s in old_cart.base_scalars]
                qs = list(new_sys.base_scalars)
                rec["J"][a] = [[entry(f"J[{a}][{j + 1}][{i + 1}]", sp.diff(xs[j], qs[i]).subs(new_pt.coordinates)) for i in range(3)]
                               for j in range(3)]
                rec["h"][a] = [entry(f"lame_coefficients[{a}][{i + 1}]", sp.sympify(h).subs(new_pt.coordinates))
                               for i, h in enumerate(new_sys.lame_coefficients)]
    except HardTimeout:
        return rid, None, [], ["matrix record timed out (SymPy)"]
    if problems:
        return rid, None, problems, notes
    for a in SYSTEMS:
        for b in SYSTEMS:
            rec["T"][a][b] = [[rat(x) for x in row] for row in rec["T"][a][b]]
        rec["J"][a] = [[rat(x) for x in row] for row in rec["J"][a]]
        rec["h"][a] = [rat(x) for x in rec["h"][a]]
    return rid, rec, problems, notes


def numeric_chain(args):
    """Chained convert_vector / convert_point at a NON-Pythagorean point (coordinates that simplify() rewrites):
    after every link the vector must consist of base vectors of the current system at the current point only, and
    position and components must be unchanged (compared numerically to 30 digits: outside TLC's exact fragment)."""
    import sympy as sp
    from symplyphysics.core.experimental.points import AppliedPoint
    from symplyphysics.core.experimental.coordinate_systems import convert_point, convert_vector
    name, kind, coords, coeffs, chain = args
    sysm = _init()
    problems = []
    try:
        with time_limit(120):
            coords = [sp.sympify(c) for c in coords]
            Q = AppliedPoint(coords, sysm[kind])
            V = sum((b * sp.sympify(c) for b, c in zip(Q.system.base_vectors(Q), coeffs)), sp.S.Zero)
            want_pos = [sp.N(c, 50) for c in project_point(kind, coords)]
            want_vec = [sp.N(c, 50) for c in eval_vector(V, dict(zip(Q.system.base_vectors(Q), frame(kind, coords))))]
            tol = sp.Float(10) ** -30
            done = []
            for to in chain:
                V, Q = convert_vector(V, Q, sysm[to]), convert_point(Q, sysm[to])
                done.append(to)
                cur = list(Q.coordinates.values())
                got_pos = [sp.N(c, 50) for c in project_point(to, cur)]
                if not all(g.is_number and abs(g - w) < tol for g, w in zip(got_pos, want_pos)):
                    problems.append((f"position after {done}", f"Cartesian position {got_pos[:3]}, originally {want_pos}"))
                    break
                try:
                    got = [sp.N(c, 50) for c in eval_vector(V, dict(zip(Q.system.base_vectors(Q), frame(to, cur))))]
                except Unevaluable:
                    problems.append((f"vector basis after {done}", f"the vector contains vectors that are not {to} base vectors at its point: {V}"))
                    break
                if not all(g.is_number and abs(g - w) < tol for g, w in zip(got, want_vec)):
                    problems.append((f"vector after {done}", f"Cartesian components {got}, originally {want_vec}"))
                    break
    except HardTimeout:
        return name, chain, [], True
    except Exception as e:  # pylint: disable=broad-except
        problems.append((f"chain {chain}", f"raised {type(e).__name__}: {str(e)[:120]}"))
    return name, chain, problems, False


def domain_checks(_=None):
    """Sample every system's DECLARED domain (from the assumptions of its base scalars: a length scalar that is not
    declared non-negative is also sampled at negative values; angles are sampled inside their principal range) and
    require there: base scalars A -> B -> A is the identity, and every Lame coefficient equals the length of the
    position derivative.  Numeric (30 digits), hence outside TLC's exact arithmetic."""
    import sympy as sp
    from itertools import product
    from symplyphysics.core.experimental.points import AppliedPoint
    from symplyphysics.core.experimental.coordinate_systems import convert_point, express_base_scalars
    problems, count = [], 0
    angle_slots = {"cart": (), "cyl": (1,), "sph": (1, 2)}
    tol = sp.Float(10) ** -30
    for inst, sy in enumerate(_sets()):
        for a in SYSTEMS:
            options = []
            for i, q in enumerate(sy[a].base_scalars):
                nonneg = bool(q.is_nonnegative or q.is_positive)
                if i in angle_slots[a]:
                    options.append([sp.Rational(3, 4), sp.Integer(2)] if nonneg else
                                   [sp.Integer(-2), sp.Rational(-3, 4), sp.Rational(3, 4), sp.Integer(2)])
                else:
                    options.append([sp.Rational(3, 2)] if nonneg else [sp.Rational(3, 2), sp.Rational(-5, 2)])
            cart2 = _sets()[(inst + 1) % 3]["cart"]
            scal = express_base_scalars(cart2, sy[a]) if a != "cart" else None
            # the boundary of the declared domain that lies on the z axis: cylindrical rho = 0 (z > 0 and z < 0),
            # spherical theta = 0 and pi.  There the azimuth is not determined by the position, so conversions FROM
            # Cartesian are not judged (atan2(0, 0)), and the origin (polar angle undefined as well) is left out;
            # conversions from the curvilinear description are well defined and must keep the position, and
            # cylindrical <-> spherical must round-trip.
            boundary = []
            if a == "cyl":
                boundary = [(sp.Integer(0), az, z) for az in (sp.Rational(3, 4), sp.Integer(-2)) for z in (sp.Integer(2), sp.Integer(-2))]
            elif a == "sph":
                boundary = [(sp.Rational(3, 2), pol, az) for pol in (sp.Integer(0), sp.pi) for az in (sp.Rational(3, 4), sp.Integer(-2))]
            for sample in boundary:
                count += 1
                point = AppliedPoint(list(sample), sy[a])
                want_pos = [sp.N(c, 50) for c in project_point(a, list(sample))]
                for b in SYSTEMS:
                    if b == a:
                        continue
                    try:
                        there = convert_point(point, sy[b])
                        got_pos = [sp.N(c, 50) for c in project_point(b, list(there.coordinates.values()))]
                        if not all(g.is_number and abs(g - w) < tol for g, w in zip(got_pos, want_pos)):
                            problems.append((f"axis point {a} {list(sample)} -> {b} (instance {inst + 1})",
                                             f"converted to {list(there.coordinates.values())}: Cartesian position {got_pos}, originally {want_pos}"))
                            continue
                        if b != "cart":
                            back = convert_point(there, sy[a])
                            got = [sp.N(c, 50) for c in back.coordinates.values()]
                            if not all(g.is_number and abs(g - w) < tol for g, w in zip(got, sample)):
                                problems.append((f"axis point {a} {list(sample)} -> {b} -> {a} (instance {inst + 1})",
                                                 f"comes back as {list(back.coordinates.values())}"))
                    except Exception as e:  # pylint: disable=broad-except
                        problems.append((f"axis point {a} {list(sample)} -> {b} (instance {inst + 1})", f"raised {type(e).__name__}: {str(e)[:100]}"))
            for sample in product(*options):
                count += 1
                point = AppliedPoint(list(sample), sy[a])
                for b in SYSTEMS:
                    if b == a:
                        continue
                    try:
                        back = convert_point(convert_point(point, sy[b]), sy[a])
                        got = [sp.N(c, 50) for c in back.coordinates.values()]
                    except Exception as e:  # pylint: disable=broad-except
                        problems.append((f"{a} -> {b} -> {a} at {list(sample)} (instance {inst + 1})", f"raised {type(e).__name__}: {str(e)[:100]}"))
                        continue
                    if not all(g.is_number and abs(g - w) < tol for g, w in zip(got, sample)):
                        problems.append((f"base scalars {a} -> {b} -> {a} at {list(sample)} (instance {inst + 1})",
                                         f"the point {list(sample)} of the declared domain of the {a} system comes back as {list(back.coordinates.values())}"))
                if scal is not None:
                    xs = [scal[s] for s in cart2.base_scalars]
                    for i, (q, h) in enumerate(zip(sy[a].base_scalars, sy[a].lame_coefficients)):
                        length = sp.N(sp.sqrt(sum(sp.diff(x, q)**2 for x in xs)).subs(point.coordinates), 50)
                        hv = sp.N(sp.sympify(h).subs(point.coordinates), 50)
                        if not (hv.is_number and abs(hv - length) < tol):
                            problems.append((f"lame_coefficients[{a}][{i + 1}] at {list(sample)} (instance {inst + 1})",
                                             f"scale factor {h} = {hv} but |d position / d {q}| = {length} at a point of the declared domain"))
    return problems, count


def numeric_chain_cases():
    import sympy as sp
    from itertools import product
    starts = [("sph(2, pi/5, pi/7)", "sph", [2, sp.pi / 5, sp.pi / 7]),
              ("cart(2cos1, 2sin1, 1)", "cart", [2 * sp.cos(1), 2 * sp.sin(1), 1]),
              ("cyl(3, 5pi/7, -1)", "cyl", [3, 5 * sp.pi / 7, -1]),
              ("cart(-1, 2, 3)", "cart", [-1, 2, 3])]
    return [(name, kind, coords, (1, 2, -3), list(chain)) for name, kind, coords in starts
            for n in (2, 3) for chain in product(SYSTEMS, repeat=n)]


def validate_matrices(run, sc, recs, label="real"):
    path = sc / f"cc_trace_{label}.json"
    path.write_text(json.dumps(recs))
    cfg = write_cfg(sc / f"cct_{label}.cfg", init="TInit", next_="TNext",
                    constants={"MaxDepth": 1, "PointIdx": {1}, "Octants": {1}, "VecIdx": {1}, "Forms": {"plain"}},
                    invariants=["Checked"], postcondition="AllConsumed")
    res = run_tlc("CoordConvTrace", cfg, sc, workers=1, env={"TRACE_FILE": str(path)}, allow_violation=False)
    path.unlink()
    run.add_tlc(res, f"trace validation {label}: conversion matrices, Jacobians and Lame coefficients of {len(recs)} points")
    if res.distinct != len(recs) + 1:
        raise RuntimeError(f"trace spec consumed {res.distinct - 1} of {len(recs)} records")
    failing = {}
    for p in res.printed:
        if isinstance(p, dict) and "uncheckable" in p:
            raise RuntimeError(f"record {p['uncheckable']} has entries too large for TLC's integers")
        if isinstance(p, dict) and "fail" in p:
            failing[p["fail"]] = {k: v for k, v in p["bad"].items() if v}
    return failing


# ---------------------------------------------------------------------------------------------------------

def _acts(path):
    return " ".join(f"{s['act']}:{s['to']}" for s in path)


def _groups(cases):
    groups = {}
    for idx, case in enumerate(cases):
        st = case["start"]
        if not geom.is_pythagorean(st["pos"]):
            raise RuntimeError(f"the model emitted a non-Pythagorean point {st['pos']}")
        key = (tuple(st["pos"]), tuple(st["vec"]), st["psys"], st["vsys"], st["form"], tuple(st["opa"]))
        groups.setdefault(key, dict(start=st, paths=[]))["paths"].append((idx, case["path"]))
    out = list(groups.values())
    for gid, g in enumerate(out):
        g["gid"] = gid
    return out


MAX_LISTED = 300


def report(run, key, what, replay):
    """run.violation, but after MAX_LISTED distinct violations the rest is only counted (a badly broken
    implementation fails hundreds of thousands of cases; listing them all is useless and quadratic)."""
    if len(run.violations) >= MAX_LISTED and key not in run.known:
        run.coverage["violations_beyond_the_listed_ones"] = run.coverage.get("violations_beyond_the_listed_ones", 0) + 1
        return
    run.violation(key, what, replay)


def main() -> int:
    tier = sys.argv[1] if len(sys.argv) > 1 else "quick"
    if tier == "--replay":
        return replay_file(sys.argv[2])
    run = Run(PID, tier)
    _init()
    t = TIERS[tier]
    with Scratch() as sc:
        jobs = []
        for n, c in enumerate(t["paths"]):
            consts = {k: (set(v) if isinstance(v, set) else v) for k, v in c.items()}
            cfg = write_cfg(sc / f"cc_{n}.cfg", constants=consts, invariants=INVARIANTS, properties=PROPERTIES)
            cfg2 = write_cfg(sc / f"cc_{n}_emit.cfg", constants=consts, invariants=["Emit"])
            jobs.append((lambda cfg=cfg: run_tlc("CoordConv", cfg, sc, workers=4, coverage=True, allow_violation=False), ()))
            jobs.append((lambda cfg2=cfg2: run_tlc("CoordConv", cfg2, sc, workers=1, allow_violation=False, heap_gb=12), ()))
        results = in_threads(jobs, max_threads=6)
        with make_pool() as pool:
            for n, c in enumerate(t["paths"]):
                res, res2 = results[2 * n], results[2 * n + 1]
                bounds = json.dumps({k: sorted(v) if isinstance(v, set) else v for k, v in c.items()})
                run.add_tlc(res, f"model check paths{n}: {INVARIANTS + PROPERTIES}, bounds {bounds}")
                cases = res2.printed
                run.coverage.setdefault("paths_emitted", {})[f"paths{n}"] = len(cases)
                groups = _groups(cases)
                by_gid = {g["gid"]: g for g in groups}
                steps = 0
                for gid, problems, outside, nsteps in pmap(pool, replay_group, groups, chunk=1):
                    g = by_gid[gid]
                    steps += nsteps
                    run.traces += len(g["paths"])
                    paths = dict(g["paths"])
                    for idx, path in g["paths"][:1]:
                        run.sample({"start": g["start"], "path": _acts(path)})
                    for idx, _ in g["paths"]:
                        run.count(f"paths{n}/{gid}/{idx}")
                    for reason, k in outside.items():
                        run.outside(reason, k)
                    st = g["start"]
                    for (idx, stepno), clause, what in sorted(problems, key=lambda pr: (pr[0][1], pr[0][0])):
                        path = paths.get(idx, [])
                        key = f"pos={st['pos']} vec={st['form']}{st['opa']} start={st['psys']} path=[{_acts(path[:stepno])}]: {clause}"
                        report(run, key, what, {"kind": "path", "start": st, "path": path[:max(stepno, 0)]})
                run.coverage.setdefault("real_steps_executed", {})[f"paths{n}"] = steps
            # chained conversions at non-Pythagorean points (numeric)
            chains = 0
            for name, chain, problems, timed_out in pmap(pool, numeric_chain, numeric_chain_cases(), chunk=4):
                chains += 1
                run.count(f"chain {name} {chain}")
                if timed_out:
                    run.outside("numeric chain timed out (SymPy)")
                for clause, what in problems:
                    report(run, f"chain from {name}: {clause}", what, {"kind": "chain", "name": name, "chain": chain})
            run.traces += chains
            run.outside("chained conversions at non-Pythagorean points compared numerically (30 digits), not by TLC", chains)
            # the declared domains of the systems
            (dom_problems, dom_count), = list(pmap(pool, domain_checks, [None], chunk=1))
            for clause, what in dom_problems:
                report(run, f"domain: {clause}", what, {"kind": "domain"})
            run.count("declared domains sampled", dom_count)
            run.outside("round trips / scale factors at sampled points of the declared domains compared numerically (30 digits), not by TLC", dom_count)
            # code -> spec
            recs, by_id = [], {}
            for triple in pmap(pool, record_point, list(enumerate(t["matrix_points"])), chunk=2):
                for rid, rec, problems, notes in triple:
                    pos = t["matrix_points"][rid // 3]
                    for note in notes:
                        run.outside(note)
                    for clause, what in problems:
                        report(run, f"tables at {list(pos)} instance {rid % 3 + 1}: {clause}", what, {"kind": "matrix", "pos": list(pos)})
                    if rec is not None:
                        recs.append(rec)
                        by_id[rid] = rec
        recs.sort(key=lambda r: r["id"])
        failing = validate_matrices(run, sc, recs)
        run.traces += len(recs)
        run.coverage["matrix_records_validated"] = len(recs)
        run.coverage["matrix_records_rejected_by_trace_spec"] = len(failing)
        for rid, bad in sorted(failing.items()):
            rec = by_id[rid]
            for clause, where in bad.items():
                for w in where:
                    report(run, f"tables at {rec['p']} instance {rec['inst'] + 1}: {clause} {w}",
                                  f"TLC rejects {clause} for {w} on the recorded real tables at {rec['p']} (instance {rec['inst'] + 1})",
                                  {"kind": "matrix", "pos": rec["p"], "clause": clause, "where": w})
        selftest(run, sc, [r for r in recs if r["id"] not in failing])
    run.assumptions += [
        "points are Pythagorean (all sines and cosines rational), off every axis and coordinate plane",
        "projection to Cartesian by the textbook formulas of harness/geom.py with the experimental convention "
        "(rho, azimuth, z) and (r, polar, azimuth)",
        "paths sharing a prefix share the execution of that prefix (the library calls are pure)",
        "the A -> ... -> A identity of base scalars compares the returned coordinates (closed-form numbers such as "
        "atan(13/84) vs acos(84/85)) with the original ones to 30 digits",
        "matrix invariants are decided at the points (a finite set), not symbolically",
    ]
    return run.finish(exhaustive=True)


def selftest(run, sc, recs):
    """A recorded table with one corrupted entry must be rejected by the trace spec."""
    import copy
    if not recs:
        run.coverage["trace_selftest"] = "skipped: no intact record"
        return
    good = copy.deepcopy(recs[0])
    bad1 = copy.deepcopy(good)
    bad1["T"]["cyl"]["sph"][0][0] = rat(Fraction(*bad1["T"]["cyl"]["sph"][0][0]) + Fraction(1, 5))
    bad2 = copy.deepcopy(good)
    bad2["h"]["sph"][2] = rat(Fraction(*bad2["h"]["sph"][2]) * 2)
    for i, r in enumerate((good, bad1, bad2)):
        r["id"] = i
    failing = validate_matrices(Run(PID, "selftest"), sc, [good, bad1, bad2], "selftest")
    ok = 0 not in failing and "rotation" in failing.get(1, {}) and "via_third" in failing.get(1, {}) \
        and set(failing.get(2, {})) == {"jacobian", "lame"}
    run.coverage["trace_selftest"] = "corrupted matrix entry / Lame coefficient rejected, intact record accepted" if ok else f"FAILED {failing}"
    if not ok:
        raise RuntimeError(f"trace self-test failed: {failing}")


def replay_file(path: str) -> int:
    data = json.loads(open(path).read())
    c = data["case"]
    _init()
    bad = []
    if c["kind"] == "domain":
        bad = [f"{clause}: {what}" for clause, what in domain_checks()[0] if f"domain: {clause}" == data["key"]]
    elif c["kind"] == "chain":
        case = next(x for x in numeric_chain_cases() if x[0] == c["name"] and x[4] == c["chain"])
        bad = [f"{clause}: {what}" for clause, what in numeric_chain(case)[2]]
    elif c["kind"] == "path":
        _, problems, _, _ = replay_group(dict(start=c["start"], paths=[(0, c["path"])], gid=0))
        bad = [f"{clause}: {what}" for _, clause, what in problems]
    else:
        triple = record_point((0, tuple(c["pos"])))
        bad = [f"{clause}: {what}" for _, _, problems, _ in triple for clause, what in problems]
        recs = [rec for _, rec, _, _ in triple if rec is not None]
        if recs:
            with Scratch() as sc:
                failing = validate_matrices(Run(PID, "replay"), sc, recs, "replay")
            bad += [f"{cl} {w}" for f in failing.values() for cl, ws in f.items() for w in ws]
    for b in bad:
        print(f"VIOLATION property={PID} replay={path}\n  {b}")
    print("replayed:", data["key"], "->", "violation" if bad else "ok")
    return 1 if bad else 0


if __name__ == "__main__":
    main_wrapper(main)
