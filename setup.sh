#!/bin/bash
# Offline setup: nothing to build (TLA+ specs are interpreted by TLC, the harness is plain Python).
# Verifies that the tools the checks need are present.
set -e
cd "$(dirname "$0")"
test -f /opt/veriftools/tla/tla2tools.jar
java -version >/dev/null 2>&1
/venv/bin/python -c "import sympy"
mkdir -p evidence replays
for f in spec/*.tla; do :; done
echo "setup ok"
