#!/bin/bash
# tools/mutants_c14_c16.sh <name>|all   - binding demonstration for C14 / C16: apply one realistic mutation to a scratch
# copy of /repo (with the two C14 repairs of /verif/patches applied if they are not in the tree yet), run the quick
# check against it and report the number of VIOLATION lines.  Nothing is written to /repo or /verif/evidence.
# names: c14_mixed_sign c14_baccab c14_dot_aa c14_norm_abs c14_diff_cross c14_cross_aa(equivalent mutant: value kept)
#        c16_wrong_coef c16_no_negate c16_accept_missing c16_apply_one_side
set -u
ALL="c14_mixed_sign c14_baccab c14_dot_aa c14_norm_abs c14_diff_cross c14_cross_aa c16_wrong_coef c16_no_negate c16_accept_missing c16_apply_one_side"
if [ "${1:-}" = "all" ]; then for n in $ALL; do "$0" "$n"; done; exit 0; fi
name="${1:?mutation name or all}"
work=$(mktemp -d /tmp/mut_XXXX)
dst=$work/repo
cp -r /repo "$dst"
( cd "$dst" && git checkout -q -- . 2>/dev/null
  for p in /verif/patches/fix-c14-binet-cauchy.diff /verif/patches/fix-c14-derivative-recursion.diff; do
    git apply "$p" 2>/dev/null || true      # already repaired in the tree: nothing to do
  done )
cd "$dst"
py() { /venv/bin/python - "$@"; }
case "$name" in
  c14_mixed_sign)   # sign slip in the mixed-product canonicalisation
    py <<'P'
p='symplyphysics/core/experimental/vectors/__init__.py'; s=open(p).read()
old="                    mixed = VectorDot(u, VectorCross(v, w))\n\n                result += mixed * factor * sign\n"
assert s.count(old)==1; s=s.replace(old, old.replace("mixed * factor * sign","mixed * factor")); open(p,'w').write(s)
P
    only="wide,products" ;;
  c14_cross_aa)     # repeated operands no longer give sign 0: cross(a,a) is not zero
    py <<'P'
p='symplyphysics/core/experimental/miscellaneous.py'; s=open(p).read()
old="    if len(set(indices)) != len(indices):\n        sign = 0\n"
assert s.count(old)==1; s=s.replace(old, old.replace("sign = 0","sign = 1")); open(p,'w').write(s)
P
    only="wide,products" ;;
  c14_baccab)       # BAC-CAB expansion loses a term
    py <<'P'
p='symplyphysics/core/experimental/vectors/__init__.py'; s=open(p).read()
old="            return c * VectorDot(lhs, d) - d * VectorDot(lhs, c)\n"
assert s.count(old)==1; s=s.replace(old, "            return c * VectorDot(lhs, d)\n"); open(p,'w').write(s)
P
    only="wide,products" ;;
  c14_diff_cross)   # product rule of the cross product drops a term
    py <<'P'
p='symplyphysics/core/experimental/vectors/__init__.py'; s=open(p).read()
old="        derived_lhs = VectorCross(lhs.diff(symbol), rhs)\n        derived_rhs = VectorCross(lhs, rhs.diff(symbol))\n\n        return derived_lhs + derived_rhs  # type: ignore[no-any-return]\n"
assert s.count(old)==1; s=s.replace(old, old.replace("return derived_lhs + derived_rhs","return derived_lhs")); open(p,'w').write(s)
P
    only="diff" ;;
  c14_dot_aa)       # dot(v, v) reduced to norm(v) instead of norm(v)**2
    py <<'P'
p='symplyphysics/core/experimental/vectors/__init__.py'; s=open(p).read()
old="                    dot = VectorNorm(v)**2\n"
assert s.count(old)==1; s=s.replace(old, "                    dot = VectorNorm(v)\n"); open(p,'w').write(s)
P
    only="wide,products" ;;
  c14_norm_abs)     # norm(k v) = k norm(v) without the absolute value
    py <<'P'
p='symplyphysics/core/experimental/vectors/__init__.py'; s=open(p).read()
old="        return cls(vector, evaluate=False) * abs(factor)\n"
assert s.count(old)==1; s=s.replace(old, "        return cls(vector, evaluate=False) * factor\n"); open(p,'w').write(s)
P
    only="wide" ;;
  c16_wrong_coef)   # divides by the coefficient of the first term instead of the unknown's
    py <<'P'
p='symplyphysics/core/experimental/solvers/__init__.py'; s=open(p).read()
old="    scale = combination[i][1]\n"
assert s.count(old)==1; s=s.replace(old, "    scale = combination[0][1]\n"); open(p,'w').write(s)
P
    only="" ;;
  c16_no_negate)    # moved terms are not negated
    py <<'P'
p='symplyphysics/core/experimental/solvers/__init__.py'; s=open(p).read()
old="        rhs = Add(*(v * (-1 * s / scale) for v, s in combination_rhs))\n"
assert s.count(old)==1; s=s.replace(old, "        rhs = Add(*(v * (s / scale) for v, s in combination_rhs))\n"); open(p,'w').write(s)
P
    only="" ;;
  c16_accept_missing)  # a vector that is not a term is accepted
    py <<'P'
p='symplyphysics/core/experimental/solvers/__init__.py'; s=open(p).read()
old="    if i is None:\n        raise ValueError(f\"The expression {expr} does not contain the symbol {atomic}.\")\n"
assert s.count(old)==1; s=s.replace(old, "    if i is None:\n        i = 0\n"); open(p,'w').write(s)
P
    only="" ;;
  c16_apply_one_side)  # apply maps only the left-hand side
    py <<'P'
p='symplyphysics/core/experimental/solvers/__init__.py'; s=open(p).read()
old="    return Eq(f(lhs), f(rhs), evaluate=False)\n"
assert s.count(old)==1; s=s.replace(old, "    return Eq(f(lhs), rhs, evaluate=False)\n"); open(p,'w').write(s)
P
    only="" ;;
  *) echo unknown mutation; rm -rf "$work"; exit 3 ;;
esac
cd /verif
pid=$(echo "$name" | cut -c1-3 | tr a-z A-Z)
VERIF_ONLY="$only" VERIF_REPO="$dst" VERIF_EVIDENCE_DIR="$work/evidence" ./check "$pid" quick > "$work/log" 2>&1
rc=$?
echo "$name exit=$rc VIOLATION-lines=$(grep -c '^VIOLATION' "$work/log") | $(tail -1 "$work/log")"
grep -A1 '^VIOLATION' "$work/log" | sed -n 2p | cut -c1-400
rm -rf "$work"
