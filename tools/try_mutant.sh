#!/bin/bash
# tools/try_mutant.sh <patch.diff> <Cxx> [tier]   - run a check against a scratch worktree of /repo with the patch applied
set -u
diff=$(readlink -f "$1"); id="$2"; tier="${3:-quick}"
wt=$(mktemp -d /tmp/mrepo_XXXX)
git -C /repo worktree add -q --detach "$wt" HEAD || exit 2
if ! git -C "$wt" apply "$diff"; then echo "PATCH DOES NOT APPLY"; git -C /repo worktree remove --force "$wt"; exit 2; fi
cd /verif
VERIF_REPO="$wt" VERIF_EVIDENCE_DIR="$wt/.evidence" ./check "$id" "$tier" > "$wt/.out" 2>&1
rc=$?
grep -c "^VIOLATION" "$wt/.out" | sed 's/^/violations: /'
grep -A1 "^VIOLATION" "$wt/.out" | head -12
tail -2 "$wt/.out"
echo "exit=$rc"
git -C /repo worktree remove --force "$wt"
exit $rc
