"""Debug helper: categorize mismatches of an expression-machine check (c05/c06) for one cfg."""
import collections, re, sys, importlib
from harness.tlc import Scratch, run_tlc, write_cfg
from harness.common import make_pool, pmap
mod = importlib.import_module("harness." + sys.argv[1])
spec = {"c05": "QuantityCollect", "c06": "ExprInfer"}[sys.argv[1]]
tier = sys.argv[2] if len(sys.argv) > 2 else "quick"
which = sys.argv[3] if len(sys.argv) > 3 else "wide"
cfgd = mod.CFG[tier] if which == "wide" else mod.DEEP[tier][int(which)]
with Scratch() as sc:
    cfg2 = write_cfg(sc / "b.cfg", constants=cfgd, invariants=["Emit"])
    cases = run_tlc(spec, cfg2, sc, workers=1, allow_violation=False).printed
print(len(cases), "cases")
mod._init()
cnt = collections.Counter(); ex = {}
with make_pool() as pool:
    for c, out in pmap(pool, mod.replay_one, cases):
        for o in out:
            k = o[0] + ':' + o[1] + ':' + re.sub(r"[-0-9/.]+|'[^']*'", "#", o[2])[:110]
            cnt[k] += 1
            ex.setdefault(k, []).append(' '.join(c['p']))
for k, v in cnt.most_common():
    print(v, k, sorted(ex[k], key=len)[:3])
