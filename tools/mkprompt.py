#!/usr/bin/env python3
"""tools/mkprompt.py <Cxx> <round> <worktree>  -> prompt text for a fresh defect-seeding agent (stdout).

Only the property text and short summaries of changes already produced go into the prompt: nothing about /verif."""
import glob
import json
import sys

pid, rnd, wt = sys.argv[1:4]
props = {}
for line in open("/verif/properties.jsonl"):
    p = json.loads(line)
    props[p["id"]] = p
p = props[pid]
tmpl = open("/verif/tools/mutant_prompt.txt").read()
title = p.get("title") or p.get("name") or ""
stmt = p.get("statement") or p.get("description") or ""
text = tmpl.format(WT=wt, ID=pid, TITLE=title, STATEMENT=stmt)
seen = []
for m in sorted(glob.glob(f"/verif/seeded/{pid}-*/meta.json")):
    s = json.load(open(m)).get("summary", "")
    seen.append("  - " + " ".join(s.split())[:260])
if seen:
    marker = "\nProduce THREE"
    extra = ("\nOther engineers have ALREADY produced the following changes for this property; yours must be different in kind "
             "(different function or mechanism, different clause of the property, different triggering input) - do not repeat or vary these:\n"
             + "\n".join(seen) + "\n")
    text = text.replace(marker, extra + marker, 1)
text = text.replace("`git stash`/`git checkout -- .`", "`git diff > file` then `git checkout -- .`")
text += ("\nDo not use `git stash` (stashes are shared between worktrees). The test suite takes about one minute with -n 8; "
         "you have about 40 minutes in total, so deliver each change as soon as it is confirmed.\n")
print(text)
