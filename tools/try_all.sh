#!/bin/bash
# tools/try_all.sh <ID prefix>...   - run each matching seeded change against its check; writes seeded/<dir>/detect.txt
cd /verif
for pat in "$@"; do
  for d in seeded/${pat}*; do
    id=$(basename $d | cut -d- -f1)
    tools/try_mutant.sh $d/patch.diff $id quick > $d/detect.txt 2>&1
    echo "$(basename $d): $(grep -m1 '^violations:' $d/detect.txt) $(grep -m1 '^exit=' $d/detect.txt)"
  done
done
