#!/bin/bash
# tools/try_cross.sh <seeded dir> <Cxx>   - run ANOTHER property's check against a seeded change -> detect-<Cxx>.txt
cd /verif
tools/try_mutant.sh "$1/patch.diff" "$2" quick > "$1/detect-$2.txt" 2>&1
echo "$(basename $1) vs $2: $(grep -m1 '^violations:' $1/detect-$2.txt) $(grep -m1 '^exit=' $1/detect-$2.txt)"
