#!/usr/bin/env python3
"""Regenerate the module table at the end of spec/README.md (header text above the table is kept)."""
import glob
import json
import os
import re

os.chdir("/verif")
serves = {}
for f in sorted(glob.glob("manifest/C*.json")):
    pid = os.path.basename(f)[:-5]
    m = json.load(open(f))
    text = json.dumps(m)
    for mod in set(re.findall(r"\b([A-Z][A-Za-z0-9]+)\.tla\b", text)):
        serves.setdefault(mod, set()).add(pid)
# EXTENDS / INSTANCE closure: a shared module serves whoever extends it
ext = {}
for f in glob.glob("spec/*.tla"):
    mod = os.path.basename(f)[:-4]
    src = open(f).read()
    deps = set()
    for line in re.findall(r"^\s*EXTENDS\s+(.*)$", src, re.M):
        deps |= {d.strip() for d in line.split(",")}
    deps |= set(re.findall(r"INSTANCE\s+(\w+)", src))
    ext[mod] = deps
changed = True
while changed:
    changed = False
    for mod, deps in ext.items():
        for d in deps:
            if d in ext and not serves.get(mod, set()) <= serves.get(d, set()):
                serves.setdefault(d, set()).update(serves.get(mod, set()))
                changed = True
rows = []
total = 0
for f in sorted(glob.glob("spec/*.tla")):
    mod = os.path.basename(f)
    lines = open(f).read().split("\n")
    total += len(lines)
    first = ""
    for ln in lines[1:12]:
        t = ln.strip().strip("(*").strip("*)").strip().lstrip("\\*").strip()
        if t and not t.startswith("---") and not t.startswith("EXTENDS"):
            first = t
            break
    rows.append(f"| {mod} | {','.join(sorted(serves.get(mod[:-4], [])))} | {len(lines)} | {first[:110]} |")
head = open("spec/README.md").read().split("| module |")[0]
open("spec/README.md", "w").write(head + "| module | serves | lines | what it is |\n|---|---|---|---|\n" + "\n".join(rows)
                                  + f"\n\n{len(rows)} modules, {total} lines.\n")
print(len(rows), total)
