#!/usr/bin/env python3
"""Regenerate seeded/README.md from seeded/*/{meta,confirm}.json and detect.txt."""
import json
import re
from pathlib import Path

S = Path(__file__).resolve().parent.parent / "seeded"
notes = json.loads((S / "notes.json").read_text()) if (S / "notes.json").exists() else {}
rows = []
for d in sorted(S.iterdir()):
    if not d.is_dir():
        continue
    meta = json.loads((d / "meta.json").read_text()) if (d / "meta.json").exists() else {}
    conf = json.loads((d / "confirm.json").read_text()) if (d / "confirm.json").exists() else None
    det = (d / "detect.txt").read_text() if (d / "detect.txt").exists() else ""
    m = re.search(r"^violations: (\d+)", det, re.M)
    ex = re.search(r"^exit=(\d+)", det, re.M)
    first = ""
    mm = re.search(r"^VIOLATION.*\n\s+(.*)", det, re.M)
    if mm:
        first = mm.group(1)[:160].replace("|", "/")
    caught = "not run" if not ex else ("CAUGHT" if ex.group(1) == "1" else ("exit 2 (machinery)" if ex.group(1) == "2" else "missed"))
    confirmed = "pending" if conf is None else (
        "yes" if conf["patch_applies"] and conf["demo_exit_without_change"] == 0 and conf["demo_exit_with_change"] != 0
        and "passed" in conf["test_suite_with_change"] and "failed" not in conf["test_suite_with_change"] else f"NO {conf}")
    others = []
    for f in sorted(d.glob("detect-*.txt")):
        t = f.read_text()
        e2 = re.search(r"^exit=(\d+)", t, re.M)
        if e2 and e2.group(1) == "1":
            others.append(f.stem.split("-")[1])
    if others and caught != "CAUGHT":
        caught = "caught by " + "/".join(others)
    note = notes.get(d.name, "")
    rows.append((d.name, meta.get("property", ""), (meta.get("summary") or "")[:200].replace("|", "/").replace("\n", " "),
                 confirmed, caught, m.group(1) if m else "", (first + (" -- " if first and note else "") + note).replace("|", "/")))
out = ["# Seeded changes", "",
       "Written by independent sub-agents that saw only the text of one property and a scratch worktree.",
       "`confirmed` = demo passes without / fails with the change and the complete repository test-suite passes with it",
       "(tools/confirm_mutant.sh). `check` = result of `./check <id> quick` against a scratch worktree with the change",
       "applied (tools/try_mutant.sh); the first VIOLATION line is quoted.", "",
       "| change | property | what it does | confirmed | check | violations | first violation |", "|---|---|---|---|---|---|---|"]
for r in rows:
    out.append("| " + " | ".join(r) + " |")
per = {}
for r in rows:
    p = per.setdefault(r[1], [0, 0, []])
    p[0] += 1
    if r[4].startswith("CAUGHT") or r[4].startswith("caught by"):
        p[1] += 1
    else:
        p[2].append(r[0])
out += ["", "## Per property", "", "| property | seeded | caught | not caught |", "|---|---|---|---|"]
for k in sorted(per):
    out.append(f"| {k} | {per[k][0]} | {per[k][1]} | {', '.join(per[k][2])} |")
(S / "README.md").write_text("\n".join(out) + "\n")
print(f"{len(rows)} seeded changes; caught: {sum(1 for r in rows if r[4] == 'CAUGHT')}, missed: {sum(1 for r in rows if r[4] == 'missed')}")
