#!/usr/bin/env python3
"""Assemble MANIFEST.json from manifest/*.json (one entry per claimed property) and manifest/_base.json.
Every property of properties.jsonl that has no entry is listed under not_applicable with the reason
from manifest/_not_applicable.json (or 'check not built yet')."""
import json
from pathlib import Path

V = Path(__file__).resolve().parent.parent
base = json.loads((V / "manifest/_base.json").read_text())
na_reasons = json.loads((V / "manifest/_not_applicable.json").read_text()) if (V / "manifest/_not_applicable.json").exists() else {}
props = [json.loads(l)["id"] for l in (V / "properties.jsonl").read_text().splitlines() if l.strip()]
enabled = set(json.loads((V / "manifest/_enabled.json").read_text()))   # reviewed and working checks only
checks, engines = [], {}
for pid in props:
    f = V / f"manifest/{pid}.json"
    if not f.exists() or pid not in enabled:
        continue
    e = json.loads(f.read_text())
    e.setdefault("property_id", pid)
    e.setdefault("quick_cmd", f"./check {pid} quick")
    e.setdefault("thorough_cmd", f"./check {pid} thorough")
    e.setdefault("evidence_file", f"/verif/evidence/{pid}.json")
    e.setdefault("replay_cmd_template", f"./check {pid} --replay {{path}}")
    for spec in e.pop("specs", []):
        engines.setdefault(spec, set()).add(pid)
    checks.append(e)
claimed = {c["property_id"] for c in checks}
base["checks"] = checks
base["engines"] = [{"name": s, "path": f"/verif/spec/{s}", "serves_properties": sorted(p),
                    "kind_free_text": "TLA+ specification checked with TLC"} for s, p in sorted(engines.items())]
base["not_applicable"] = [{"property_id": p, "reason": na_reasons.get(p, "check not built yet (work in progress)")}
                          for p in props if p not in claimed]
(V / "MANIFEST.json").write_text(json.dumps(base, indent=1) + "\n")
print("claimed:", sorted(claimed), "not applicable:", [x["property_id"] for x in base["not_applicable"]])
