#!/bin/bash
# tools/confirm_mutant.sh <seeded dir>...  - confirm each seeded change: demo passes without it, fails with it,
# and the repository's complete test-suite still passes with it.  Writes <dir>/confirm.json.
for d in "$@"; do
  d=$(readlink -f "$d")
  [ -f "$d/confirm.json" ] && continue
  wt=$(mktemp -d /tmp/cm_XXXX)
  git -C /repo worktree add -q --detach "$wt" HEAD || continue
  ( cd "$wt"; PYTHONPATH="$wt" /venv/bin/python "$d/demo.py" >/dev/null 2>&1 ); clean=$?
  if git -C "$wt" apply "$d/patch.diff"; then applies=true; else applies=false; fi
  ( cd "$wt"; PYTHONPATH="$wt" /venv/bin/python "$d/demo.py" >/dev/null 2>&1 ); mutated=$?
  tests=$(cd "$wt" && env -u SYMPLYPHYSICS_VERIF /venv/bin/python -m pytest -q -p no:cacheprovider -n 12 2>&1 | tail -1)
  head=$(git -C /repo rev-parse --short HEAD)
  printf '{"repo_head": "%s", "patch_applies": %s, "demo_exit_without_change": %s, "demo_exit_with_change": %s, "test_suite_with_change": "%s"}\n' \
     "$head" "$applies" "$clean" "$mutated" "$tests" > "$d/confirm.json"
  git -C /repo worktree remove --force "$wt"
  cat "$d/confirm.json"
done
