#!/usr/bin/env python3
"""tools/store_mutants.py <worktree> <PID> <tag>   copy <worktree>/mutants/m<i>.* to seeded/<PID>-<tag>m<i>/"""
import json, os, shutil, sys
wt, pid, tag = sys.argv[1], sys.argv[2], sys.argv[3]
for i in (1, 2, 3, 4):
    src = f"{wt}/mutants"
    if not os.path.exists(f"{src}/m{i}.json"):
        continue
    d = f"/verif/seeded/{pid}-{tag}m{i}"
    os.makedirs(d, exist_ok=True)
    shutil.copy(f"{src}/m{i}.diff", f"{d}/patch.diff")
    shutil.copy(f"{src}/m{i}_demo.py", f"{d}/demo.py")
    m = json.load(open(f"{src}/m{i}.json"))
    json.dump({"property": pid, "round": tag, "summary": m.get("summary"), "needs": m.get("needs"),
               "author_tests_run": m.get("tests_run")}, open(f"{d}/meta.json", "w"), indent=1)
    print("stored", d)
