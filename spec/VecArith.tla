------------------------------ MODULE VecArith ------------------------------
(* C10: arithmetic of Cartesian vectors with up to three components.        *)
(*                                                                          *)
(* A vector is [sys |-> id of the coordinate-system OBJECT it lives in,      *)
(*              c   |-> sequence of 0..3 integer components].                *)
(* "Missing components count as zero": every operation is defined on the     *)
(* zero-extended operands and results are compared modulo trailing zeros     *)
(* (Pad3).  The operators below are written from the textbook definitions,   *)
(* not from arithmetics.py.  A behaviour chooses NOps operands one after the *)
(* other; the states with NOps operands are the cases the property           *)
(* quantifies over (all operand pairs / triples on the grid), the invariants *)
(* are the identities of the statement, and Emit hands every case with the   *)
(* model's results to the replay harness (harness/c10.py).                   *)
EXTENDS Rat, Sequences, TLC, Json, FiniteSets

CONSTANTS Grid,       \* set of integer component values
          Systems,    \* subset of 1..6: coordinate-system objects in play
          NOps,       \* operands per behaviour: 2 (pairs) or 3 (triples)
          Scalars,    \* integer scale factors used by the scaling clauses
          Lens        \* subset of 0..3: numbers of components in play

VARIABLES ops         \* the operands chosen so far

\* values for the constants (cfg files cannot spell negative numbers): CONSTANT Grid <- Grid5 ...
Grid5 == -2..2
Grid4 == {-2, 0, 1, 2}
Grid3 == {-1, 0, 2}
Grid1 == {1}
Scalars3 == {-1, 0, 2}

\* six coordinate-system objects: two distinct Cartesian ones, a cylindrical and a spherical one with their own
\* underlying frames, and a cylindrical (5) and a spherical (6) one that WRAP THE SAME underlying frame (CoordSys3D)
\* as the Cartesian system 1 - they share the frame but differ in kind, so they are different coordinate systems
SysType  == <<"cart", "cart", "cyl", "sph", "cyl", "sph">>
SysFrame == <<1, 2, 3, 4, 1, 1>>

Comps   == UNION {[1..n -> Grid] : n \in Lens}
Vectors == [sys : Systems, c : Comps]

-----------------------------------------------------------------------------
(* component arithmetic (operands zero-extended)                             *)
Pad(x, n)  == [i \in 1..n |-> IF i <= Len(x) THEN x[i] ELSE 0]
Pad3(x)    == Pad(x, 3)
CEq(x, y)  == Pad3(x) = Pad3(y)                   \* equality of the geometric vectors
CAdd(x, y) == LET n == MaxI(Len(x), Len(y)) IN [i \in 1..n |-> Pad(x, n)[i] + Pad(y, n)[i]]
CScale(k, x) == [i \in 1..Len(x) |-> k * x[i]]
CNeg(x)    == CScale(-1, x)
CSub(x, y) == CAdd(x, CNeg(y))
CDot(x, y) == LET p == Pad3(x)  q == Pad3(y) IN p[1] * q[1] + p[2] * q[2] + p[3] * q[3]
CCross(x, y) == LET p == Pad3(x)  q == Pad3(y)
                IN <<p[2] * q[3] - p[3] * q[2], p[3] * q[1] - p[1] * q[3], p[1] * q[2] - p[2] * q[1]>>
RECURSIVE SumSq(_)
SumSq(x)   == IF x = <<>> THEN 0 ELSE Head(x) * Head(x) + SumSq(Tail(x))
CMagSq(x)  == SumSq(x)                            \* |x|^2, defined without the dot product
IsZero(x)  == CMagSq(x) = 0

\* projection of x onto y and rejection of x from y, as integer numerators over the common
\* denominator |y|^2 (defined iff y # 0):  proj = (x.y / y.y) y ,  rej = x - proj
ProjDen(y)    == CMagSq(y)
ProjNum(x, y) == CScale(CDot(x, y), y)
RejNum(x, y)  == CSub(CScale(CMagSq(y), x), CScale(CDot(x, y), y))

\* unit vector of x (x # 0): component i is sign(x[i]) * sqrt(x[i]^2 / |x|^2); the model carries the
\* exact squares and the signs
UnitSq(x)   == [i \in 1..Len(x) |-> Norm(x[i] * x[i], CMagSq(x))]
UnitSign(x) == [i \in 1..Len(x) |-> IF x[i] > 0 THEN 1 ELSE IF x[i] < 0 THEN -1 ELSE 0]
RECURSIVE RSum(_)
RSum(rs) == IF rs = <<>> THEN RZero ELSE RAdd(Head(rs), RSum(Tail(rs)))

-----------------------------------------------------------------------------
(* refusal rules of the statement                                            *)
BinaryOps == {"add", "sub", "dot", "cross", "proj", "rej", "eq"}
CartOnly  == {"add", "sub", "cross", "rej"}       \* sums (a rejection is original minus projection) and cross products

IsCart(v)      == SysType[v.sys] = "cart"
BothCart(a, b) == a.sys = b.sys /\ IsCart(a)

\* "refuse": mixing coordinate systems; sums / cross products of non-Cartesian vectors.
\* "accept": two Cartesian vectors of one system - the operation must return the model's value.
\* "open":   same non-Cartesian system, operation not named by the statement (C11 speaks about those).
Verdict(op, a, b) ==
  IF a.sys # b.sys THEN "refuse"
  ELSE IF IsCart(a) THEN "accept"
  ELSE IF op \in CartOnly THEN "refuse"
  ELSE "open"

\* n-ary add_cartesian_vectors(v1, .., vn) / subtract_cartesian_vectors(v1, .., vn) (n >= 2): refused as soon as
\* ANY operand lives in another system than the first one or is not Cartesian - whatever its position
NaryVerdict(vs) == IF \A i \in DOMAIN vs : vs[i].sys = vs[1].sys /\ IsCart(vs[i]) THEN "accept" ELSE "refuse"
RECURSIVE SumFrom(_, _)
SumFrom(vs, i) == IF i > Len(vs) THEN <<>> ELSE CAdd(vs[i].c, SumFrom(vs, i + 1))
NarySum(vs)  == SumFrom(vs, 1)                                   \* v1 + v2 + .. + vn
NaryDiff(vs) == CSub(vs[1].c, SumFrom(vs, 2))                    \* v1 - (v2 + .. + vn)

-----------------------------------------------------------------------------
Init == ops = <<>>
Choose(v) == Len(ops) < NOps /\ ops' = Append(ops, v)
Next == \E v \in Vectors : Choose(v)
Spec == Init /\ [][Next]_ops

-----------------------------------------------------------------------------
(* The identities of the statement, on the model (sanity of the oracle).     *)
TypeOK == Len(ops) <= NOps /\ \A i \in DOMAIN ops : ops[i] \in Vectors

PairLaws(x, y) ==
  /\ CEq(CAdd(x, y), CAdd(y, x))                                        \* commutative
  /\ CEq(CSub(CAdd(x, y), y), x) /\ CEq(CAdd(CSub(x, y), y), x)        \* subtraction is the inverse
  /\ IsZero(CSub(x, x))
  /\ \A k \in Scalars :
       /\ CEq(CScale(k, CAdd(x, y)), CAdd(CScale(k, x), CScale(k, y)))  \* scaling distributes over +
       /\ CDot(CScale(k, x), y) = k * CDot(x, y)                        \* dot homogeneous
       \* common factor: (k x).(k y) = k^2 (x.y), |k x|^2 = k^2 |x|^2 - the law the harness also instantiates with
       \* FLOAT factors k = 1e-9, 1e-20, 1e15 (components of any size; compared with relative tolerance)
       /\ CDot(CScale(k, x), CScale(k, y)) = k * k * CDot(x, y)
       /\ CMagSq(CScale(k, x)) = k * k * CMagSq(x)
       /\ CEq(CCross(CScale(k, x), y), CScale(k, CCross(x, y)))         \* cross homogeneous
       /\ \A m \in Scalars : CEq(CScale(k + m, x), CAdd(CScale(k, x), CScale(m, x)))
  /\ CDot(x, y) = CDot(y, x)                                            \* symmetric
  /\ CMagSq(x) = CDot(x, x)                                             \* |x|^2 = x.x
  /\ CEq(CCross(x, y), CNeg(CCross(y, x)))                              \* antisymmetric
  /\ CDot(CCross(x, y), x) = 0 /\ CDot(CCross(x, y), y) = 0             \* orthogonal to both factors
  /\ CMagSq(CCross(x, y)) = CMagSq(x) * CMagSq(y) - CDot(x, y) * CDot(x, y)   \* Lagrange
  /\ ~IsZero(y) =>
       /\ CEq(CAdd(ProjNum(x, y), RejNum(x, y)), CScale(ProjDen(y), x))  \* proj + rej = x
       /\ CDot(RejNum(x, y), y) = 0                                      \* rejection orthogonal to the target
       /\ IsZero(CCross(ProjNum(x, y), y))                               \* projection parallel to the target
  /\ ~IsZero(x) => RSum(UnitSq(x)) = ROne                               \* unit vectors have magnitude one

TripleLaws(x, y, z) ==
  /\ CEq(CAdd(CAdd(x, y), z), CAdd(x, CAdd(y, z)))                      \* associative
  /\ CDot(CAdd(x, y), z) = CDot(x, z) + CDot(y, z)                      \* dot bilinear
  /\ CDot(z, CAdd(x, y)) = CDot(z, x) + CDot(z, y)
  /\ CEq(CCross(CAdd(x, y), z), CAdd(CCross(x, z), CCross(y, z)))       \* cross bilinear
  /\ CEq(CCross(z, CAdd(x, y)), CAdd(CCross(z, x), CCross(z, y)))

Laws2 == Len(ops) >= 2 => PairLaws(ops[1].c, ops[2].c)
Laws3 == Len(ops) >= 3 => TripleLaws(ops[1].c, ops[2].c, ops[3].c)

\* refusal depends only on the systems, symmetrically; Cartesian pairs of one system are never refused
RefusalRules ==
  Len(ops) >= 2 =>
    \A op \in BinaryOps :
      /\ Verdict(op, ops[1], ops[2]) = Verdict(op, ops[2], ops[1])
      /\ (Verdict(op, ops[1], ops[2]) = "accept") = BothCart(ops[1], ops[2])
      /\ (ops[1].sys # ops[2].sys => Verdict(op, ops[1], ops[2]) = "refuse")
      \* sharing the underlying frame does not make two systems of different kind the same system,
      \* and two systems of one kind over different frames are different systems
      /\ (SysFrame[ops[1].sys] = SysFrame[ops[2].sys] /\ SysType[ops[1].sys] # SysType[ops[2].sys]
            => Verdict(op, ops[1], ops[2]) = "refuse")
      /\ (SysType[ops[1].sys] = SysType[ops[2].sys] /\ SysFrame[ops[1].sys] # SysFrame[ops[2].sys]
            => Verdict(op, ops[1], ops[2]) = "refuse")
\* an n-ary sum is accepted iff every pair of its operands may be added; the verdict ignores the order
NaryRefusalRules ==
  Len(ops) >= 2 =>
    /\ (NaryVerdict(ops) = "accept") = (\A i, j \in DOMAIN ops : Verdict("add", ops[i], ops[j]) = "accept")
    /\ NaryVerdict(ops) = NaryVerdict([i \in DOMAIN ops |-> ops[Len(ops) + 1 - i]])
    /\ (Len(ops) = 2 => NaryVerdict(ops) = Verdict("add", ops[1], ops[2]))

-----------------------------------------------------------------------------
(* Emission of every case with the model's results (spec -> code).           *)
Verdicts(a, b) == [add |-> Verdict("add", a, b), sub |-> Verdict("sub", a, b), dot |-> Verdict("dot", a, b),
                   cross |-> Verdict("cross", a, b), proj |-> Verdict("proj", a, b),
                   rej |-> Verdict("rej", a, b), eq |-> Verdict("eq", a, b),
                   \* scale / magnitude / unit of ONE vector: the statement speaks about Cartesian vectors only.  The
                   \* operators above are FUNCTIONS of their operands: the value may not depend on what was
                   \* computed before (the harness evaluates these clauses before and after the same component
                   \* tuples were used in a cylindrical, a spherical and another Cartesian system)
                   un |-> IF IsCart(a) THEN "accept" ELSE "open"]

ScalarSeq == LET RECURSIVE ToSeq(_)
                 ToSeq(S) == IF S = {} THEN <<>>
                             ELSE LET m == CHOOSE x \in S : \A y \in S : x <= y IN <<m>> \o ToSeq(S \ {m})
             IN ToSeq(Scalars)

PairCase(a, b) ==
  [n |-> 2, sa |-> a.sys, sb |-> b.sys, a |-> a.c, b |-> b.c, verdict |-> Verdicts(a, b),
   add |-> Pad3(CAdd(a.c, b.c)), sub |-> Pad3(CSub(a.c, b.c)), dot |-> CDot(a.c, b.c),
   cross |-> CCross(a.c, b.c), msq |-> CMagSq(a.c), msqb |-> CMagSq(b.c), eq |-> CEq(a.c, b.c),
   ks |-> ScalarSeq, scale |-> [i \in DOMAIN ScalarSeq |-> Pad3(CScale(ScalarSeq[i], a.c))],
   pden |-> ProjDen(b.c), pnum |-> Pad3(ProjNum(a.c, b.c)), rnum |-> Pad3(RejNum(a.c, b.c)),
   usq |-> IF IsZero(a.c) THEN <<>> ELSE [i \in 1..3 |-> IF i <= Len(a.c) THEN UnitSq(a.c)[i] ELSE RZero], usign |-> Pad3(UnitSign(a.c))]

TripleCase(a, b, c) ==
  [n |-> 3, a |-> a.c, b |-> b.c, c |-> c.c,
   add3 |-> Pad3(CAdd(CAdd(a.c, b.c), c.c)),
   dotl |-> CDot(CAdd(a.c, b.c), c.c), crossl |-> CCross(CAdd(a.c, b.c), c.c),
   crossr |-> CCross(c.c, CAdd(a.c, b.c))]

\* n-ary sums over mixed systems: refusal (and the value when accepted)
EmitNary == Len(ops) = NOps =>
              PrintT(ToJson([n |-> NOps, nary |-> TRUE, sys |-> [i \in DOMAIN ops |-> ops[i].sys],
                             vs |-> [i \in DOMAIN ops |-> ops[i].c], verdict |-> NaryVerdict(ops),
                             sum |-> Pad3(NarySum(ops)), diff |-> Pad3(NaryDiff(ops))]))

Emit == Len(ops) = NOps =>
          PrintT(ToJson(IF NOps = 2 THEN PairCase(ops[1], ops[2]) ELSE TripleCase(ops[1], ops[2], ops[3])))
=============================================================================
