----------------------------- MODULE ApproxTrace -----------------------------
(* C08, code -> spec: verdicts taken by the real assert_equal /              *)
(* assert_equal_vectors / approx_equal_quantities / approx_equal_numbers     *)
(* (seeded random operands; in the thorough tier also every call the         *)
(* repository's own tests make) are checked against Allowed of Approx.tla.   *)
(* A record is                                                               *)
(*   [id, l |-> <<operand>>, r |-> <<operand>>, rel |-> <<rn, rd>>,          *)
(*    an |-> ticks or -1, dimarg |-> <<>> or a dimension vector,             *)
(*    out |-> "pass" | "notpass"]                                            *)
(* operand = [k, re, im, d |-> dimension vector]; values in ticks of the     *)
(* record's own scale (the harness scales each recorded comparison so that   *)
(* its numbers are integers; comparisons too close to a boundary for that    *)
(* are not sent).                                                            *)
EXTENDS Approx, DimJson, IOUtils

Recs == JsonDeserialize(IOEnv.TRACE_FILE)

AbsOp(o) == [k |-> o.k, re |-> o.re, im |-> o.im, d |-> DimFromSeq(o.d), u |-> "base"]
AbsCase(r) == [fam |-> "recorded", l |-> [j \in DOMAIN r.l |-> AbsOp(r.l[j])], r |-> [j \in DOMAIN r.r |-> AbsOp(r.r[j])],
               rel |-> RatFromSeq(r.rel), an |-> r.an,
               dimarg |-> IF Len(r.dimarg) = 0 THEN NoDim ELSE Given(DimFromSeq(r.dimarg))]

TInit == case = [fam |-> "trace"] /\ i = 1 /\ verdict = "trace"
TNext == UNCHANGED vars

Validate == \A n \in 1..Len(Recs) :
              LET A == Allowed(AbsCase(Recs[n])) IN
                Recs[n].out \in A \/ PrintT(<<"BAD", Recs[n].id, "pass" \in A, "notpass" \in A>>)
Checked == PrintT(<<"CHECKED", Len(Recs)>>)
=============================================================================
