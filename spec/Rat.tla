------------------------------- MODULE Rat -------------------------------
(* Exact rational arithmetic for TLC.  A rational is a normalised pair      *)
(* <<n, d>> with d > 0 and gcd(|n|, d) = 1; zero is <<0, 1>>.               *)
(* TLC integers are 32 bit: every operator that multiplies is only sound     *)
(* while |n|, d stay below RatBound (2^15); Small(r) is the guard the        *)
(* machines use before they enable an arithmetic action, so an overflow is   *)
(* never silently wrapped (TLC itself aborts on overflow: exit 2).           *)
EXTENDS Integers

RatBound == 32768

AbsI(x) == IF x < 0 THEN -x ELSE x
MaxI(a, b) == IF a >= b THEN a ELSE b
MinI(a, b) == IF a <= b THEN a ELSE b

RECURSIVE GCD(_, _)
GCD(a, b) == IF b = 0 THEN a ELSE GCD(b, a % b)

Norm(n, d) ==
  IF n = 0 THEN <<0, 1>>
  ELSE LET s == IF d < 0 THEN -1 ELSE 1
           g == GCD(AbsI(n), AbsI(d))
       IN <<(s * n) \div g, (s * d) \div g>>

R(n)      == <<n, 1>>
RZero     == <<0, 1>>
ROne      == <<1, 1>>
IsRat(r)  == r[2] > 0 /\ GCD(AbsI(r[1]), r[2]) = 1
Small(r)  == AbsI(r[1]) < RatBound /\ r[2] < RatBound
Tiny(r)   == AbsI(r[1]) < 180 /\ r[2] < 180       \* products of two Tiny are Small

RAdd(a, b) == Norm(a[1] * b[2] + b[1] * a[2], a[2] * b[2])
RNeg(a)    == <<-a[1], a[2]>>
RSub(a, b) == RAdd(a, RNeg(b))
RMul(a, b) == Norm(a[1] * b[1], a[2] * b[2])
RInv(a)    == Norm(a[2], a[1])               \* a # 0
RDiv(a, b) == RMul(a, RInv(b))
RAbs(a)    == <<AbsI(a[1]), a[2]>>
RSign(a)   == IF a[1] > 0 THEN 1 ELSE IF a[1] < 0 THEN -1 ELSE 0
RLe(a, b)  == a[1] * b[2] <= b[1] * a[2]
RLt(a, b)  == a[1] * b[2] < b[1] * a[2]
RMin(a, b) == IF RLe(a, b) THEN a ELSE b
RMax(a, b) == IF RLe(a, b) THEN b ELSE a
RIsInt(a)  == a[2] = 1

RECURSIVE IPow(_, _)
IPow(x, k) == IF k = 0 THEN 1 ELSE x * IPow(x, k - 1)

\* a^k for an integer k (a # 0 when k < 0)
RPowInt(a, k) ==
  IF k >= 0 THEN <<IPow(a[1], k), IPow(a[2], k)>>
  ELSE Norm(IPow(a[2], -k), IPow(a[1], -k))

\* guard for RPowInt: result stays Small
PowSmall(a, k) ==
  LET m == MaxI(AbsI(a[1]), a[2])
      e == AbsI(k)
  IN  \/ e = 0 \/ m <= 1
      \/ e = 1 /\ m < RatBound
      \/ e = 2 /\ m < 181
      \/ e = 3 /\ m < 32
      \/ e = 4 /\ m < 13
      \/ e \in 5..6 /\ m < 6
      \/ e \in 7..14 /\ m < 3

\* integer square root by search (small numbers only)
ISqrt(n) == CHOOSE r \in 0..181 : r * r <= n /\ (r + 1) * (r + 1) > n
IsSquareI(n) == n >= 0 /\ n < 32761 /\ ISqrt(n) * ISqrt(n) = n
IsSquareR(a) == IsSquareI(a[1]) /\ IsSquareI(a[2])
RSqrt(a)     == <<ISqrt(a[1]), ISqrt(a[2])>>     \* only if IsSquareR(a)
=============================================================================
