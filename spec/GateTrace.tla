----------------------------- MODULE GateTrace -----------------------------
(* C04, code -> spec: recorded executions of the real decorators are         *)
(* behaviours of Gate.  One file holds all traces; every trace is            *)
(*   [tid |-> n, call |-> [n, args, decls, r], ev |-> <<event, ...>>]        *)
(* with the declared dimensions taken from the decorator declarations and    *)
(* the actual arguments abstracted by the harness to (kind, class,           *)
(* dimension vector).  Events (from hook H2 / the observed exception):       *)
(*   [ev |-> "bind"]                                                          *)
(*   [ev |-> "check", p |-> i, out |-> "pass" | exception type, np |-> j]    *)
(*        parameter i was checked with that outcome; the message names       *)
(*        guard j (0 = none)                                                  *)
(*   [ev |-> "run"]        the body was entered                              *)
(*   [ev |-> "ret", out |-> .., np |-> ..]   the result was checked           *)
(* Every event must be the Gate action of that kind with the recorded        *)
(* outcome - i.e. the outcome must be in the Verdict TLC computes from the   *)
(* specification - and a refusal must name the refused parameter.  A guard   *)
(* declaration naming a parameter that does not exist arrives as an          *)
(* argument of kind "absent": Bind is then not enabled.                      *)
EXTENDS Gate, DimJson, IOUtils

Traces == JsonDeserialize(IOEnv.TRACE_FILE)

VARIABLES t, l
tvars == <<vars, t, l>>

RECURSIVE AbsArg(_)
AbsArg(j) == CASE j.k = "seq" -> [k |-> "seq", items |-> [i \in DOMAIN j.items |-> AbsArg(j.items[i])]]
               [] j.k = "vec" -> [k |-> "vec", d |-> DimFromSeq(j.d), cs |-> j.cs, mix |-> 0]
               [] j.k \in {"absent", "none"} -> [k |-> j.k]
               [] OTHER -> [k |-> j.k, c |-> j.c, d |-> DimFromSeq(j.d)]
AbsDecl(j) == CASE j.k = "one" -> [k |-> "one", d |-> DimFromSeq(j.d)]
                [] j.k = "each" -> [k |-> "each", ds |-> [i \in DOMAIN j.ds |-> DimFromSeq(j.ds[i])]]
                [] OTHER -> [k |-> "none"]
AbsCall(c) == [n |-> c.n, style |-> "kw",
               args  |-> [i \in 1..c.n |-> AbsArg(c.args[i])],
               decls |-> [i \in 1..c.n |-> AbsDecl(c.decls[i])],
               r |-> [rk |-> c.r.rk, res |-> AbsArg(c.r.res), rd |-> AbsDecl(c.r.rd)]]

Ev == Traces[t].ev

TInit == /\ t \in 1..Len(Traces) /\ l = 1
         /\ call = AbsCall(Traces[t].call)
         /\ pc = "bound" /\ todo = {} /\ out = NoOut

Named(e) == e.out # "pass" => e.np = out'.p        \* the error names the parameter that was refused

TNext == /\ l <= Len(Ev) /\ l' = l + 1 /\ t' = t
         /\ LET e == Ev[l] IN
              CASE e.ev = "bind"  -> Bind
                [] e.ev = "check" -> CheckParam(e.p, e.out) /\ Named(e)
                [] e.ev = "run"   -> Run
                [] e.ev = "ret"   -> CheckResult(e.out) /\ Named(e)
                [] OTHER -> FALSE

\* total verdicts: every trace is either accepted (all events consumed) or stuck at one event; for a stuck
\* check the verdict of the specification is printed (pass / TypeError / UnitsError allowed?)
Accepted == (l = Len(Ev) + 1) => PrintT(<<"ACCEPT", Traces[t].tid>>)
Expected(e) == IF e.ev = "check" /\ pc = "checking" /\ e.p \in todo THEN Verdict(call.args[e.p], call.decls[e.p])
               ELSE IF e.ev = "ret" /\ pc = "ran" THEN ResultV(call) ELSE {}
Stuck == (l <= Len(Ev) /\ ~ENABLED TNext) =>
            LET e == Ev[l]  V == Expected(e) IN
            PrintT(<<"STUCK", Traces[t].tid, l, e.ev, pc, "pass" \in V, "TypeError" \in V, "UnitsError" \in V>>)
=============================================================================
