--------------------------- MODULE VecSolveTrace ---------------------------
(* code -> spec for C16.  Every call of the real solve_for_vector /          *)
(* solve_for_scalar / apply made by the harness is recorded:                 *)
(*   op      "solve" | "apply" | "scalar" | "radical" | "power" | "system" (ts = *)
(*           <<coefficients, requested unknowns>>, sols = the returned       *)
(*           equations as <<unknown index, value program>>)                  *)
(*   ts      the equation given to the library (term list of VecSolve, or    *)
(*           <<k2, k1, k0>> coefficient programs for a scalar equation)      *)
(*   nonvec  1 if the expression given was not a vector expression           *)
(*   reduce  1 | 0,   fn  the function applied by `apply`                    *)
(*   outcome "eq" (an equation was returned; a returned `True` is recorded   *)
(*           as the equation 0 = 0) | "false" (the unsatisfiable equation    *)
(*           was returned) | "raised"                                        *)
(*   lhs, rhs  the two sides of the returned equation as programs of VecVal  *)
(* TLC evaluates the returned sides and decides every record with the        *)
(* operators of the specification VecSolve (Expect, SolveVerdict,            *)
(* ApplyVerdict, ScalarVerdict) in exact arithmetic, per assignment:         *)
(*   "ok" | "bad" | "un" (undecided: statement open or value outside the     *)
(*   exact domain).  One line <<"V", id, verdicts>> per record.              *)
EXTENDS VecSolve, IOUtils

Data     == JsonDeserialize(IOEnv.TRACE_FILE)
Recs     == Data.recs
TAssigns == Data.assigns

VARIABLE t
TInit == t \in 1..Len(Recs) /\ Init
TNext == UNCHANGED <<t, vars>>

Verdict(A, rec) ==
  CASE rec.op = "solve" ->
         LET ex == IF rec.nonvec = 1 THEN "refuse" ELSE Expect(A, rec.ts) IN
         IF ex = "open" THEN "un"
         ELSE IF ex = "refuse" THEN (IF rec.outcome = "raised" THEN "ok" ELSE "bad")
         ELSE IF rec.outcome \in {"raised", "false"} THEN "bad"
         ELSE SolveVerdict(A, rec.ts, rec.reduce = 1, Eval(A, rec.lhs), Eval(A, rec.rhs))
    [] rec.op = "apply" ->
         IF rec.outcome = "raised" THEN "bad"
         ELSE IF rec.nonvec = 1 THEN ApplyScalarVerdict(A, rec.ts[1], rec.fn, Eval(A, rec.lhs), Eval(A, rec.rhs))
         ELSE ApplyVerdict(A, rec.ts, rec.fn, Eval(A, rec.lhs), Eval(A, rec.rhs))
    [] rec.op = "power" ->
         IF rec.outcome = "false" THEN "bad"
         ELSE IF rec.outcome = "raised" \/ rec.lhs # << X >> THEN "un"
         ELSE PowerVerdict(A, rec.ts[1], Eval(A, rec.rhs))
    [] rec.op = "system" ->
         IF rec.outcome = "raised" THEN "un" ELSE SystemVerdict(A, rec.ts[1], rec.sols)
    [] rec.op \in {"scalar", "radical"} ->
         IF rec.outcome = "false" THEN "bad"
         ELSE IF rec.outcome = "raised" \/ rec.lhs # << X >> THEN "un"
         ELSE IF rec.op = "scalar" THEN ScalarVerdict(A, rec.ts, Eval(A, rec.rhs))
         ELSE RadicalVerdict(A, rec.ts, Eval(A, rec.rhs))

Judge == PrintT(<<"V", Recs[t].id, [i \in 1..Len(TAssigns) |-> Verdict(TAssigns[i], Recs[t])]>>)
=============================================================================
