--------------------------- MODULE HistoriesTrace ---------------------------
(* code -> spec for C03: every real history replayed by harness/c03.py (one    *)
(* fresh interpreter each) is validated against Histories.tla / Symbols.tla.   *)
(*                                                                            *)
(* A recorded history is a sequence of events, modules named by their index    *)
(* in the JSON field `modules`:                                                *)
(*   [ev |-> "ids",     b, lo, hi]       a run of next_id events of prefix b    *)
(*                                        (per-prefix run-length encoding, see   *)
(*                                        SymbolsTrace.tla)                      *)
(*   [ev |-> "import",  m, ok, loaded]   importlib import of module m: did it    *)
(*                                        succeed, which catalogue modules were   *)
(*                                        loaded by it                            *)
(*   [ev |-> "observe", m, fp]           fingerprint class of module m: 0 = the   *)
(*                                        class of the reference history (alone,   *)
(*                                        fresh process); the harness decides      *)
(*                                        equality of fingerprints BY VALUE, TLC   *)
(*                                        decides what the specification makes     *)
(*                                        of it                                    *)
(* Every event must be a step the specification allows:                         *)
(*   ids      Symbols!FreshRun (an id is never handed out twice);                *)
(*   import   Histories!CanImport and ok = TRUE (the specification has no        *)
(*            failing import: importing a catalogue module succeeds in every      *)
(*            history); importing an already loaded module is a stutter;          *)
(*   observe  Histories!ObserveAgrees with the reference meaning.                 *)
(* An illegal event does not stop the validation of its trace: it is reported     *)
(* (ILLEGAL, trace id, event index, kind) and skipped, so that every event of      *)
(* every history gets a verdict.                                                   *)
EXTENDS Histories, IOUtils

Data == JsonDeserialize(IOEnv.TRACE_FILE)
Traces == Data.traces
NMods == Data.nmods

\* the catalogue of the trace: modules are 1..NMods; dependencies / sizes are whatever the real imports did
TraceWorld == [mods |-> 1..NMods, prefixes |-> {}, deps |-> <<>>, size |-> <<>>, shape |-> <<>>, start |-> <<>>]
\* the reference meaning: fingerprint class 0 for every module
Sem == [m \in 1..NMods |-> 0]

VARIABLES t, l, used, bad

tvars == <<t, l, used, bad, ids, imported, meaning>>

Ev == Traces[t].ev

MaxI(a, b) == IF a >= b THEN a ELSE b
UNOBSERVED == 99          \* fingerprint classes are 0 (reference) and 1 (differs)

TraceInit == /\ t \in DOMAIN Traces
             /\ l = 1 /\ used = {} /\ bad = <<>>
             /\ ids = [p \in Prefix |-> 0]
             /\ objs = <<>> /\ hist = <<>>
             /\ imported = <<>>
             /\ block = <<>>
             /\ meaning = [m \in 1..NMods |-> UNOBSERVED]

LegalIds(e) == /\ e.lo >= 1 /\ e.hi >= e.lo
               /\ FreshRun({<<u[2], u[3]>> : u \in {v \in used : v[1] = e.b}}, e.lo, e.hi)
LegalImport(e) == /\ e.ok
                  /\ IF e.m \in Range(imported) THEN e.loaded = <<>>
                     ELSE CanImport(imported, e.m, e.loaded)
LegalObserve(e) == /\ e.m \in Range(imported)
                   /\ meaning[e.m] \in {UNOBSERVED, e.fp}          \* never changes once observed
                   /\ ObserveAgrees(Sem, e.m, e.fp)

Legal(e) == CASE e.ev = "ids" -> LegalIds(e)
              [] e.ev = "import" -> LegalImport(e)
              [] e.ev = "observe" -> LegalObserve(e)
              [] OTHER -> FALSE

TraceStep ==
  /\ l <= Len(Ev)
  /\ LET e == Ev[l] IN
       IF Legal(e)
       THEN /\ bad' = <<>>
            /\ CASE e.ev = "ids" ->
                      /\ used' = used \cup {<<e.b, e.lo, e.hi>>}
                      /\ ids' = [p \in Prefix |-> IF p = e.b THEN MaxI(ids[p], e.hi) ELSE ids[p]]
                      /\ UNCHANGED <<imported, meaning>>
                 [] e.ev = "import" ->
                      /\ imported' = imported \o e.loaded
                      /\ UNCHANGED <<used, ids, meaning>>
                 [] e.ev = "observe" ->
                      /\ meaning' = [meaning EXCEPT ![e.m] = e.fp]
                      /\ UNCHANGED <<used, ids, imported>>
       ELSE /\ bad' = <<l, e.ev>>                      \* reported by the invariant Illegal, then skipped
            \* a failed import still loads the dependencies that were imported before the failure
            /\ imported' = IF e.ev = "import" /\ ~e.ok
                           THEN imported \o SelectSeq(e.loaded, LAMBDA x : x # e.m /\ x \notin Range(imported))
                           ELSE imported
            /\ UNCHANGED <<used, ids, meaning>>
  /\ l' = l + 1
  /\ UNCHANGED <<t, objs, hist, block>>

TraceNext == TraceStep

\* NoAlias on the generated names (see SymbolsTrace!NameClash)
Named == Traces[t].named
NameClash == l = 1 =>
  \A i, j \in DOMAIN Named :
     (i < j /\ GenName(Named[i].b, Named[i].id) = GenName(Named[j].b, Named[j].id)) =>
        PrintT(<<"CLASH", Traces[t].tid, i, j>>) /\ TRUE

Done    == (l = Len(Ev) + 1) => PrintT(<<"DONE", Traces[t].tid>>)
Illegal == (bad # <<>>) => PrintT(<<"ILLEGAL", Traces[t].tid, bad[1], bad[2]>>)
=============================================================================
