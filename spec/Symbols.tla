------------------------------ MODULE Symbols ------------------------------
(* C09 (and the counter part of C03): creation histories of symbol-like       *)
(* objects.                                                                   *)
(*                                                                            *)
(* Written from the statement of C09, not from the code:                      *)
(*   - every symbol, indexed symbol, function, quantity and coordinate system *)
(*     created through the library is a distinct object, whatever the display *)
(*     names are  (NoAlias: the generated internal names of all live objects  *)
(*     are pairwise distinct, across prefixes);                               *)
(*   - a clone keeps the source's dimension and display names - or the        *)
(*     explicitly requested ones -, keeps the source's assumptions when none  *)
(*     are passed, and a requested subscript is appended to BOTH the code     *)
(*     name and the LaTeX name (CloneKeeps);                                  *)
(*   - human-readable printing shows the display names, never a generated     *)
(*     internal name (PrintsDisplayNames);                                    *)
(*   - the per-prefix counters never decrease (CountersNeverDecrease).        *)
(*                                                                            *)
(* The behaviours of this specification ARE the creation histories the        *)
(* property quantifies over; `hist` is a history variable on purpose.  The    *)
(* harness (harness/c09.py) replays every complete behaviour in the real      *)
(* library and compares, after every action, the projection of the real       *)
(* object with the record appended to `objs`.                                 *)
(*                                                                            *)
(* What the statement leaves open is left open here:                          *)
(*   - the exact value of a fresh id (the model uses "last + 1", the trace    *)
(*     specification SymbolsTrace accepts any id that was not handed out);    *)
(*   - the assumptions of a clone when assumptions ARE passed, and the        *)
(*     assumptions of a function clone (a function has no assumptions0):      *)
(*     field assum = "open", never compared.                                  *)
EXTENDS Naturals, Sequences, FiniteSets, TLC, Json

CONSTANTS MaxSteps,     \* length of the histories
          Actions,      \* enabled action names (subset of AllActions)
          Names,        \* display names a caller may pass; "none" = not passed
          Latexes,      \* LaTeX names a caller may pass;   "none" = not passed
          DimNames,     \* dimensions (names shared with the harness)
          Assums,       \* assumption sets at creation; "none" = no assumptions
          CloneAssums,  \* assumptions passed to a clone; "inherit" = none passed
          Subs,         \* subscripts requested from a clone; "none" = not requested
          SysTypes,     \* coordinate system types
          XSysTypes,    \* kinds of EXPERIMENTAL coordinate systems (xcartesian / xcylindrical / xspherical)
          BatchSizes    \* NewBatch creates this many equally named objects in one step (counters reach two digits)

VARIABLES ids,          \* [Prefix -> Nat]: last id handed out per prefix
          objs,         \* live symbol-like objects, in creation order
          hist          \* the actions taken so far (history variable)

vars == <<ids, objs, hist>>

NONE == "none"
Prefix == {"SYM", "FUN", "QTY", "SYS", "C", "VEC", ""}

AllActions == {"NewSymbol", "NewIndexed", "NewFunction", "NewQuantity", "NewSystem", "Transform", "Rotate",
               "NewVectorSymbol", "NewVectorFunction", "NewQuantityVector", "NewBatch",
               "NewFunctional", "NewExpSystem",
               "CloneAsSymbol", "CloneAsFunction", "CloneAsIndexed"}

ASSUME Actions \subseteq AllActions

\* generated internal name
GenName(p, n) == p \o ToString(n)

\* a requested subscript goes to both names
Sub(name, s)   == IF s = NONE THEN name  ELSE name  \o "_" \o s
SubL(latex, s) == IF s = NONE THEN latex ELSE latex \o "_{" \o s \o "}"

Room == Len(hist) < MaxSteps
CloneOps == {"CloneAsSymbol", "CloneAsFunction", "CloneAsIndexed"}

\* the record of an action; every field is always present (uniform JSON)
Step(op, n, l, d, a, s, src, t) ==
  [op |-> op, n |-> n, l |-> l, d |-> d, a |-> a, s |-> s, src |-> src, t |-> t, obj |-> Len(objs) + 1, k |-> 1]

\* A new live object.  disp / latex = NONE means "not given": the display name
\* then IS the generated name (there is nothing else to show), the LaTeX name
\* defaults to the display name.
\* explicitD / explicitL = a display / LaTeX name was given by a caller (directly, through the default
\* "LaTeX name = display name", or to the source a clone inherits from); only then is there a name to show
\* that differs from the generated one.  For coordinate systems the field dim holds the system type.
Obj(kind, p, disp, latex, dim, assum, src, explicitD, explicitL, i) ==     \* the i-th id after the last one
  LET name == GenName(p, ids[p] + i)
      d    == IF disp = NONE THEN name ELSE disp
  IN [kind |-> kind, pfx |-> p, id |-> ids[p] + i, name |-> name,
      display |-> d, latex |-> IF latex = NONE THEN d ELSE latex,
      explicitD |-> explicitD, explicitL |-> explicitL, dim |-> dim, assum |-> assum, src |-> src]

\* create one live object taking a fresh id of prefix p (and of the prefixes in `also`)
New(step, kind, p, disp, latex, dim, assum, src, also) ==
  /\ Room
  /\ step.op \in Actions
  /\ ids' = [q \in Prefix |-> IF q = p \/ q \in also THEN ids[q] + 1 ELSE ids[q]]
  /\ LET clone == src # 0 /\ step.op \in CloneOps
         eD == IF clone THEN step.n # NONE \/ objs[src].explicitD ELSE disp # NONE
         eL == IF clone THEN step.l # NONE \/ objs[src].explicitL ELSE disp # NONE \/ latex # NONE
     IN objs' = Append(objs, Obj(kind, p, disp, latex, dim, assum, src, eD, eL, 1))
  /\ hist' = Append(hist, step)

-----------------------------------------------------------------------------
(* creations *)
NewSymbol(n, l, d, a) ==
  New(Step("NewSymbol", n, l, d, a, NONE, 0, NONE), "symbol", "SYM", n, l, d, a, 0, {})
NewIndexed(n, l, d, a) ==
  New(Step("NewIndexed", n, l, d, a, NONE, 0, NONE), "indexed", "SYM", n, l, d, a, 0, {})
NewFunction(n, l, d) ==
  New(Step("NewFunction", n, l, d, NONE, NONE, 0, NONE), "function", "FUN", n, l, d, NONE, 0, {})
NewQuantity(n, l, d) ==
  New(Step("NewQuantity", n, l, d, NONE, NONE, 0, NONE), "quantity", "QTY", n, l, d, NONE, 0, {})
NewSystem(t) ==
  New(Step("NewSystem", NONE, NONE, NONE, NONE, NONE, 0, t), "system", "SYS", NONE, NONE, t, NONE, 0, {})
\* a system of another type derived from system i (fresh SYS name)
Transform(i, t) ==
  /\ objs[i].kind = "system"
  /\ New(Step("Transform", NONE, NONE, NONE, NONE, NONE, i, t), "system", "SYS", NONE, NONE, t, NONE, i, {})
\* a rotated copy of the cartesian system i (fresh C name)
Rotate(i) ==
  /\ objs[i].kind = "system" /\ objs[i].dim = "cartesian"
  /\ New(Step("Rotate", NONE, NONE, NONE, NONE, NONE, i, "cartesian"), "system", "C", NONE, NONE, "cartesian",
         NONE, i, {})
\* other creations of the library that draw on the same counters
NewVectorSymbol(n, d) ==      \* a symbol (SYM name) that also takes a VEC id for its default display name
  New(Step("NewVectorSymbol", n, NONE, d, NONE, NONE, 0, NONE), "vecsym", "SYM", n, NONE, d, "open", 0, {"VEC"})
NewVectorFunction(n, d) ==
  New(Step("NewVectorFunction", n, NONE, d, NONE, NONE, 0, NONE), "vecfun", "FUN", n, NONE, d, "open", 0, {})
\* k equally named objects of one kind in one step: the histories in which a counter reaches two digits
\* (SYM9 -> SYM10, ...) and display names such as "zq" / "zq1" (one name = another one followed by digits)
\* meet; at most one batch per history
BatchKinds == [symbol |-> "SYM", indexed |-> "SYM", function |-> "FUN", quantity |-> "QTY"]
NewBatch(kind, n, d, a, k) ==
  /\ Room /\ "NewBatch" \in Actions
  /\ \A j \in DOMAIN hist : hist[j].op # "NewBatch"
  /\ n # NONE
  /\ LET p == BatchKinds[kind]
         as == IF kind \in {"symbol", "indexed"} THEN a ELSE NONE
     IN /\ ids' = [ids EXCEPT ![p] = @ + k]
        /\ objs' = objs \o [i \in 1..k |-> Obj(kind, p, n, NONE, d, as, 0, TRUE, TRUE, i)]
        /\ hist' = Append(hist, [Step("NewBatch", n, NONE, d, as, NONE, 0, kind) EXCEPT !.k = k])

\* a function whose DECLARED argument is another live object: a symbol, an unapplied function (a functional such
\* as an action S[L]) or an applied function; printing the bare function shows the display names of both
NewFunctional(i, n, d, v) ==
  /\ n # NONE
  /\ \/ v = "bare" /\ objs[i].kind \in {"symbol", "function"}
     \/ v = "applied" /\ objs[i].kind = "function"
  /\ New(Step("NewFunctional", n, NONE, d, NONE, NONE, i, v), "function", "FUN", n, NONE, d, NONE, i, {})

\* an EXPERIMENTAL coordinate system: three base scalars (symbols) and three base vectors (vector symbols /
\* vector functions) of its own, created in one step; several systems of one kind reuse the same display names
\* (rho, phi, z ...), which is exactly where aliasing would hurt
XPart(kind, p, n, d) == [kind |-> kind, p |-> p, n |-> n, d |-> d]
XSys == [xcartesian   |-> <<XPart("symbol", "SYM", "x", "length"), XPart("symbol", "SYM", "y", "length"),
                            XPart("symbol", "SYM", "z", "length"), XPart("vecsym", "SYM", "i", "one"),
                            XPart("vecsym", "SYM", "j", "one"), XPart("vecsym", "SYM", "k", "one")>>,
         xcylindrical |-> <<XPart("symbol", "SYM", "rho", "length"), XPart("symbol", "SYM", "phi", "angle"),
                            XPart("symbol", "SYM", "z", "length"), XPart("vecfun", "FUN", "e_rho", "one"),
                            XPart("vecfun", "FUN", "e_phi", "one"), XPart("vecsym", "SYM", "e_z", "one")>>,
         xspherical   |-> <<XPart("symbol", "SYM", "r", "length"), XPart("symbol", "SYM", "theta", "angle"),
                            XPart("symbol", "SYM", "phi", "angle"), XPart("vecfun", "FUN", "e_r", "one"),
                            XPart("vecfun", "FUN", "e_theta", "one"), XPart("vecfun", "FUN", "e_phi", "one")>>]
NewExpSystem(t) ==
  /\ Room /\ "NewExpSystem" \in Actions
  /\ LET parts == XSys[t]
         \* how many of the first i parts draw on prefix q
         Upto(i, q) == Cardinality({j \in 1..i : parts[j].p = q})
         NVec == Cardinality({j \in DOMAIN parts : parts[j].kind = "vecsym"})
     IN /\ ids' = [q \in Prefix |-> ids[q] + Upto(Len(parts), q) + (IF q = "VEC" THEN NVec ELSE 0)]
        /\ objs' = objs \o [i \in DOMAIN parts |->
                              Obj(parts[i].kind, parts[i].p, parts[i].n, NONE, parts[i].d, "open", 0, TRUE, FALSE,
                                  Upto(i, parts[i].p))]
        /\ hist' = Append(hist, [Step("NewExpSystem", NONE, NONE, NONE, NONE, NONE, 0, t) EXCEPT !.k = Len(parts)])

\* a quantity vector is a container: three component quantities and one anonymous id, no symbol-like object
NewQuantityVector ==
  /\ Room /\ "NewQuantityVector" \in Actions
  /\ ids' = [ids EXCEPT ![""] = @ + 1, !["QTY"] = @ + 3]
  /\ hist' = Append(hist, [Step("NewQuantityVector", NONE, NONE, NONE, NONE, NONE, 0, NONE) EXCEPT !.obj = 0, !.k = 0])
  /\ UNCHANGED objs

(* clones: source i must be a symbol or an indexed symbol *)
Clonable(i) == objs[i].kind \in {"symbol", "indexed"}
Pick(given, inherited) == IF given = NONE THEN inherited ELSE given

CloneAsSymbol(i, n, l, s, a) ==
  /\ Clonable(i)
  /\ New(Step("CloneAsSymbol", n, l, NONE, a, s, i, NONE), "symbol", "SYM",
         Sub(Pick(n, objs[i].display), s), SubL(Pick(l, objs[i].latex), s), objs[i].dim,
         IF a = "inherit" THEN objs[i].assum ELSE "open", i, {})
CloneAsFunction(i, n, l, s) ==
  /\ Clonable(i)
  /\ New(Step("CloneAsFunction", n, l, NONE, NONE, s, i, NONE), "function", "FUN",
         Sub(Pick(n, objs[i].display), s), SubL(Pick(l, objs[i].latex), s), objs[i].dim, "open", i, {})
CloneAsIndexed(i, n, l, a) ==     \* the library offers no subscript here
  /\ Clonable(i)
  /\ New(Step("CloneAsIndexed", n, l, NONE, a, NONE, i, NONE), "indexed", "SYM",
         Pick(n, objs[i].display), Pick(l, objs[i].latex), objs[i].dim,
         IF a = "inherit" THEN objs[i].assum ELSE "open", i, {})

Init == /\ ids = [p \in Prefix |-> 0]
        /\ objs = <<>>
        /\ hist = <<>>

Next ==
  \/ \E n \in Names, l \in Latexes, d \in DimNames, a \in Assums : NewSymbol(n, l, d, a) \/ NewIndexed(n, l, d, a)
  \/ \E n \in Names, l \in Latexes, d \in DimNames : NewFunction(n, l, d) \/ NewQuantity(n, l, d)
  \/ \E t \in SysTypes : NewSystem(t)
  \/ \E i \in DOMAIN objs, t \in SysTypes : Transform(i, t)
  \/ \E i \in DOMAIN objs : Rotate(i)
  \/ \E n \in Names, d \in DimNames : NewVectorSymbol(n, d) \/ NewVectorFunction(n, d)
  \/ NewQuantityVector
  \/ \E i \in DOMAIN objs, n \in Names, d \in DimNames, v \in {"bare", "applied"} : NewFunctional(i, n, d, v)
  \/ \E t \in XSysTypes : NewExpSystem(t)
  \/ \E kind \in DOMAIN BatchKinds, n \in Names, d \in DimNames, a \in Assums, k \in BatchSizes :
        NewBatch(kind, n, d, a, k)
  \/ \E i \in DOMAIN objs, n \in Names, l \in Latexes, s \in Subs, a \in CloneAssums : CloneAsSymbol(i, n, l, s, a)
  \/ \E i \in DOMAIN objs, n \in Names, l \in Latexes, s \in Subs : CloneAsFunction(i, n, l, s)
  \/ \E i \in DOMAIN objs, n \in Names, l \in Latexes, a \in CloneAssums : CloneAsIndexed(i, n, l, a)

Spec == Init /\ [][Next]_vars

-----------------------------------------------------------------------------
(* Properties (checked by TLC in every configuration).                        *)

TypeOK == /\ ids \in [Prefix -> Nat]
          /\ Len(hist) <= MaxSteps
          /\ \A i \in DOMAIN objs : objs[i].pfx \in Prefix /\ objs[i].src \in 0..(i - 1)

\* distinct objects never share their internal name - also across prefixes and kinds
NoAlias == \A i, j \in DOMAIN objs : i # j => objs[i].name # objs[j].name

\* the inductive strengthening: every live name was handed out by its counter
NamesFromCounters == \A i \in DOMAIN objs :
                       /\ objs[i].id \in 1..ids[objs[i].pfx]
                       /\ objs[i].name = GenName(objs[i].pfx, objs[i].id)

\* what a clone must keep, stated on the pair (source, clone) and the request recorded in hist
CloneKeeps ==
  \A k \in DOMAIN hist : hist[k].op \in CloneOps =>
    LET st == hist[k]  c == objs[st.obj]  s == objs[st.src] IN
      /\ c.dim = s.dim                                               \* dimension: always
      /\ (st.n = NONE /\ st.s = NONE => c.display = s.display)       \* display names unless overridden
      /\ (st.l = NONE /\ st.s = NONE => c.latex = s.latex)
      /\ (st.n # NONE /\ st.s = NONE => c.display = st.n)
      /\ (st.l # NONE /\ st.s = NONE => c.latex = st.l)
      /\ (st.s # NONE => /\ c.display = Pick(st.n, s.display) \o "_" \o st.s      \* subscript on BOTH names
                         /\ c.latex = Pick(st.l, s.latex) \o "_{" \o st.s \o "}")
      /\ (st.a = "inherit" => c.assum = s.assum)                     \* assumptions iff none passed
      /\ c.name # s.name                                             \* and the clone is a new object

\* what printing shows (the display / LaTeX name) is never a generated name of
\* another object, and is a generated name only when no display name was given
IsGenerated(str) == \E p \in Prefix \ {""} : \E n \in 1..ids[p] : str = GenName(p, n)
PrintsDisplayNames ==
  \A i \in DOMAIN objs :
     /\ objs[i].explicitD => ~IsGenerated(objs[i].display) /\ \A j \in DOMAIN objs : objs[i].display # objs[j].name
     /\ objs[i].explicitL => ~IsGenerated(objs[i].latex) /\ \A j \in DOMAIN objs : objs[i].latex # objs[j].name

\* Freshness of ids, shared with the trace specification (SymbolsTrace): a run lo..hi of ids is fresh
\* with respect to the runs already handed out iff it overlaps none of them.
FreshRun(usedRuns, lo, hi) == \A u \in usedRuns : hi < u[1] \/ lo > u[2]
\* the model's own policy (last + 1) always takes a fresh id
ModelIdsAreFresh == \A p \in Prefix : FreshRun(IF ids[p] = 0 THEN {} ELSE {<<1, ids[p]>>}, ids[p] + 1, ids[p] + 1)

CountersNeverDecrease == [][\A p \in Prefix : ids'[p] >= ids[p]]_vars
\* every action that creates a live object consumes a fresh id of the object's prefix
CreationTakesFreshId ==
  [][Len(objs') > Len(objs) => LET o == objs'[Len(objs')] IN o.id > ids[o.pfx] /\ o.id <= ids'[o.pfx]]_vars

-----------------------------------------------------------------------------
(* Emission of complete histories for the replay harness (spec -> code).      *)
Emit == Len(hist) = MaxSteps => PrintT(ToJson([h |-> hist, o |-> objs]))
=============================================================================
