----------------------------- MODULE VecAlgebra -----------------------------
(* C14: coordinate-free vector algebra in R^3.                                *)
(*                                                                            *)
(* A typed postfix stack machine whose behaviours ARE the expression trees    *)
(* the property quantifies over.  Every stack entry is the meaning of the     *)
(* sub-expression: its exact value (and t-derivative, dual numbers) in R^3    *)
(* or R under each of the assignments in Assigns (module VecVal).  The        *)
(* semantics is the textbook one, written from the statement; the harness     *)
(* builds every complete behaviour with the real VectorDot / VectorCross /    *)
(* VectorMixedProduct / VectorNorm and compares the value of what they return *)
(* (and of its derivative) with the value computed here.                      *)
EXTENDS VecVal, Json

CONSTANTS MaxLen,      \* maximal number of nodes of a generated expression
          MaxVec,      \* maximal number of vector leaves (repeated symbols count)
          VecLeaves,   \* vector leaf indices: 1..4 vector symbols a b c d, 5..7 vector functions f(t) g(t) h(t),
                       \* 8, 9 vector functions at a scaled parameter p(2t), q(-t) (derivative by the chain rule)
          ScalLeaves,  \* scalar leaf indices: 1 = x, 2 = y, 3 = the parameter t
          Ints,        \* integer literals
          Pows,        \* exponents of the power node
          Ops,         \* enabled operator nodes
          Macros,      \* composite leaves: token sequences pushed as one node (e.g. "a b cross"), so that narrow
                       \* configurations reach deep shapes (both operands of a dot built on the same cross product)
          Assigns      \* tuple of assignments <<vec, dvec, scal, dscal>>

VARIABLES stacks,      \* stacks[i]: the value stack under assignment i
          prog,        \* the program so far (history variable: the behaviours are the test inputs)
          cost         \* nodes counted against MaxLen (a composite leaf counts once)

vars == <<stacks, prog, cost>>
NA == Len(Assigns)

Init == stacks = [i \in 1..NA |-> <<>>] /\ prog = <<>> /\ cost = 0

Depth == Len(stacks[1])
NVec == Cardinality({i \in DOMAIN prog : prog[i][1] = "vec"})
Used(i) == \E j \in DOMAIN prog : prog[j] = <<"vec", i>>
\* canonical naming: a new symbol (function) is the smallest unused one of its group, so that programs
\* equal up to renaming are generated once; the harness applies every renaming through the creation order
Group(i) == IF i <= 4 THEN {j \in VecLeaves : j <= 4}
            ELSE IF i <= 7 THEN {j \in VecLeaves : j > 4 /\ j <= 7} ELSE {i}     \* 8, 9: p(2t), q(-t), not interchangeable
Fresh(i) == \A j \in Group(i) : j < i => Used(j)

\* least number of further nodes that reduce n stack entries to one
MinOps(n) == IF "mixed" \in Ops THEN n \div 2 ELSE n - 1

\* a node is applied iff it is well typed and its value is in the exact domain under every assignment
Apply(tok) ==
  /\ cost + 1 + MinOps(Depth + 1 - Arity(tok[1])) <= MaxLen
  /\ cost' = cost + 1
  /\ \A i \in 1..NA : Step(Assigns[i], stacks[i], tok) # Bad
  /\ stacks' = [i \in 1..NA |-> Step(Assigns[i], stacks[i], tok)]
  /\ prog' = Append(prog, tok)

\* a composite leaf: a closed sub-expression pushed at once
VecTokens(m) == Cardinality({i \in DOMAIN m : m[i][1] = "vec"})
PushMacro == \E m \in Macros :
  /\ NVec + VecTokens(m) <= MaxVec
  /\ cost + 1 + MinOps(Depth + 1) <= MaxLen
  /\ \A i \in 1..NA : RunOn(Assigns[i], stacks[i], m) # Bad
  /\ stacks' = [i \in 1..NA |-> RunOn(Assigns[i], stacks[i], m)]
  /\ prog' = prog \o m
  /\ cost' = cost + 1

PushVec  == \E i \in VecLeaves : NVec < MaxVec /\ (Used(i) \/ Fresh(i)) /\ Apply(<<"vec", i>>)
PushScal == \E j \in ScalLeaves : Apply(<<"scal", j>>)
PushInt  == \E c \in Ints : Apply(<<"int", c>>)
AddV     == "addv" \in Ops /\ Apply(<<"addv", 0>>)
ScaleV   == "scalev" \in Ops /\ Apply(<<"scalev", 0>>)
NegV     == "neg" \in Ops /\ Depth >= 1 /\ IsV(stacks[1][Depth]) /\ Apply(<<"neg", 0>>)
DotP     == "dot" \in Ops /\ Apply(<<"dot", 0>>)
CrossP   == "cross" \in Ops /\ Apply(<<"cross", 0>>)
MixedP   == "mixed" \in Ops /\ Apply(<<"mixed", 0>>)
NormS    == "norm" \in Ops /\ Apply(<<"norm", 0>>)
MulS     == "muls" \in Ops /\ Apply(<<"muls", 0>>)
AddS     == "adds" \in Ops /\ Apply(<<"adds", 0>>)
PowS     == "pow" \in Ops /\ \E e \in Pows : Apply(<<"pow", e>>)

Next == PushMacro \/ PushVec \/ PushScal \/ PushInt \/ AddV \/ ScaleV \/ NegV \/ DotP \/ CrossP \/ MixedP
        \/ NormS \/ MulS \/ AddS \/ PowS

Spec == Init /\ [][Next]_vars

-----------------------------------------------------------------------------
(* Properties of the model itself: the classical identities hold for the     *)
(* values on the stacks (sanity of the oracle), wherever the operands stay   *)
(* in the exact domain.                                                      *)

Def(v) == ~IsU(v)
EqIfDef(l, r) == (Def(l) /\ Def(r)) => l = r
Sq(s) == Mul(s, s)
Sub(u, v) == Add(u, Neg(v))

VecsOf(st) == {st[i] : i \in {j \in DOMAIN st : IsV(st[j])}}
\* the identities are checked on the vector values of one assignment at a time
Vecs(i) == VecsOf(stacks[i])

TypeOK == /\ \A i \in 1..NA : \A j \in DOMAIN stacks[i] :
                LET v == stacks[i][j] IN
                /\ v.k \in {"s", "v"} /\ v.d >= 1 /\ v.n >= 1 /\ Len(v.x) = (IF IsV(v) THEN 3 ELSE 1)
                /\ v = Mk(v.k, v.n, v.d, v.x, v.dx)                 \* normalised
                /\ v.k = stacks[1][j].k                             \* the type does not depend on the assignment
          /\ \A i \in 1..NA : Len(stacks[i]) = Depth

\* |u x v|^2 = |u|^2 |v|^2 - (u.v)^2 ; u x v = -(v x u) ; u x u = 0 ; u.(u x v) = 0
Lagrange == \A i \in 1..NA : \A u, v \in Vecs(i) :
  /\ EqIfDef(Dot(Cross(u, v), Cross(u, v)), Sub(Mul(Dot(u, u), Dot(v, v)), Sq(Dot(u, v))))
  /\ EqIfDef(Sq(NormV(Cross(u, v))), Dot(Cross(u, v), Cross(u, v)))
  /\ EqIfDef(Cross(u, v), Neg(Cross(v, u)))
  /\ EqIfDef(Dot(u, v), Dot(v, u))
  /\ (Def(Cross(u, u)) => IsZero(Cross(u, u)))
  /\ (Def(Mixed(u, u, v)) => IsZero(Mixed(u, u, v)))
  /\ EqIfDef(Sq(NormV(u)), Dot(u, u))

\* u x (v x w) + v x (w x u) + w x (u x v) = 0 ; u x (v x w) = v (u.w) - w (u.v) ; cyclic mixed product
Jacobi == \A i \in 1..NA : \A u, v, w \in Vecs(i) :
  /\ LET s == Add(Add(Cross(u, Cross(v, w)), Cross(v, Cross(w, u))), Cross(w, Cross(u, v)))
     IN  Def(s) => IsZero(s)
  /\ EqIfDef(Cross(u, Cross(v, w)), Sub(Mul(Dot(u, w), v), Mul(Dot(u, v), w)))
  /\ EqIfDef(Mixed(u, v, w), Mixed(v, w, u))
  /\ EqIfDef(Mixed(u, v, w), Mixed(w, u, v))
  /\ EqIfDef(Mixed(u, v, w), Neg(Mixed(v, u, w)))
  /\ EqIfDef(Mixed(u, v, w), Dot(Cross(u, v), w))

\* (a x b).(c x d) = (a.c)(b.d) - (a.d)(b.c) ; (a x b) x (c x d) = [a,b,d] c - [a,b,c] d
BinetCauchy == \A i \in 1..NA : \A a, b, c, d \in Vecs(i) :
  /\ EqIfDef(Dot(Cross(a, b), Cross(c, d)), Sub(Mul(Dot(a, c), Dot(b, d)), Mul(Dot(a, d), Dot(b, c))))
  /\ EqIfDef(Cross(Cross(a, b), Cross(c, d)), Sub(Mul(Mixed(a, b, d), c), Mul(Mixed(a, b, c), d)))

\* product rule: the dual part of a product is the sum of the products with one factor differentiated
Leibniz == \A i \in 1..NA : \A u, v \in Vecs(i) :
  /\ EqIfDef(DualOf(Dot(u, v)), Add(Dot(DualOf(u), ValOf(v)), Dot(ValOf(u), DualOf(v))))
  /\ EqIfDef(DualOf(Cross(u, v)), Add(Cross(DualOf(u), ValOf(v)), Cross(ValOf(u), DualOf(v))))
  /\ EqIfDef(Mul(ValOf(NormV(u)), DualOf(NormV(u))), Dot(ValOf(u), DualOf(u)))
  /\ \A j \in DOMAIN stacks[i] :
        LET s == stacks[i][j] IN
        IsS(s) => /\ EqIfDef(DualOf(Mul(s, u)), Add(Mul(DualOf(s), ValOf(u)), Mul(ValOf(s), DualOf(u))))
                  /\ EqIfDef(DualOf(Pow(s, 2)), Mul(IntS(2), Mul(ValOf(s), DualOf(s))))
                  /\ (Def(Inv(s)) => EqIfDef(Mul(s, Inv(s)), IntS(1)))

-----------------------------------------------------------------------------
(* Emission of complete behaviours for the replay harness (spec -> code).    *)
Done == Depth = 1 /\ Len(prog) >= 2
Emit == Done => PrintT(ToJson([p |-> prog, r |-> [i \in 1..NA |-> stacks[i][1]]]))
=============================================================================
