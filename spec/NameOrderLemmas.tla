-------------------------- MODULE NameOrderLemmas --------------------------
(* The lemmas about the order of generated names stated in NameOrder.tla,     *)
(* as invariants of a trivial state machine with one initial state per k.     *)
EXTENDS NameOrder

CONSTANTS KMax, NMax, JSpan

VARIABLE k
LemmaInit == k \in 1..KMax
LemmaNext == UNCHANGED k

SameLength == \A j \in k..(k + NMax) : NDigits(j) = NDigits(k) => (NameLess(k, j) <=> k < j) /\ (NameLess(j, k) <=> j < k)
BlockLemma == \A n \in 1..NMax : Perm(k, n) = CanonPerm(n, BoundaryPos(k, n))
BlockOrdersAreFew == \A n \in 1..NMax : BoundaryPos(k, n) \in 1..n
CrossLemma == \A j \in (k + 1)..(k + JSpan) :
                 NDigits(j) > NDigits(k) => (NameLess(j, k) <=> Leading(j, NDigits(k)) < k)
=============================================================================
