----------------------------- MODULE PrintEval -----------------------------
(* C17 / C18: a rendering of a formula must denote the same value as the     *)
(* formula "for all values of its symbols".                                  *)
(*                                                                          *)
(* The meaning of a formula is defined here, not in the printers: a formula  *)
(* is a postfix program over the token alphabet below and its value at a     *)
(* point (an assignment of field elements to its symbols) is computed in the *)
(* prime field GF(p):                                                        *)
(*   + - * inverse and powers with (small) integer exponents are interpreted *)
(*   exactly mod p;                                                          *)
(*   every other power x^e (rational or symbolic exponent), sqrt, exp and    *)
(*   every named function is UNINTERPRETED BUT CONGRUENT: a fixed mixing     *)
(*   function of (function id, argument values), so two occurrences agree    *)
(*   exactly when name and evaluated arguments agree, subject to the normal  *)
(*   forms   sqrt(x) = x^(1/2),   x^(-e) = 1/x^e,   exp(x) = E^x             *)
(*   which hold for ALL x, e in the model (PowV below).                      *)
(* Two formulas that are equal as rational functions over these function     *)
(* symbols have equal values wherever both are defined; two that differ      *)
(* (dropped bracket, lost sign, swapped numerator/denominator) differ at a   *)
(* random point except with probability ~ degree/p (Schwartz-Zippel).        *)
(*                                                                          *)
(* As in QuantityCollect the behaviours of this machine ARE the test inputs: *)
(* every state with a one-element stack is a complete formula; TLC emits all *)
(* of them (Emit) and the harness renders / re-parses each one.              *)
(* PrintEvalTrace.tla evaluates (original, re-parsed) program pairs with the *)
(* operators of this module.                                                 *)
EXTENDS Integers, Sequences, TLC, Json, FiniteSets

CONSTANTS MaxLen,       \* maximal number of tokens (= tree nodes) of a generated formula
          LeafNames,    \* subset of DOMAIN LeafTok used by this configuration
          OpNames,      \* subset of DOMAIN OpTok
          P,            \* the prime used for the sanity invariants of this run (P * P < 2^31)
          PointSeed     \* seed of the point (values of the symbols) used for the sanity invariants

VARIABLES stack, prog

vars == <<stack, prog>>

Primes == <<46337, 46327>>       \* both primes satisfy (p-1)^2 + 2p < 2^31: no 32-bit overflow in TLC
ASSUME P \in {Primes[1], Primes[2]}

Undef == -1                      \* division by zero, 0^negative: propagates through every operation
Def(x) == x # Undef
KMax == 64                       \* exponents whose value is an integer in -KMax..KMax are interpreted exactly

-----------------------------------------------------------------------------
(* Arithmetic of GF(p) (p is an explicit argument: the trace spec uses both primes) *)

FNorm(p, n) == ((n % p) + p) % p

FAdd(p, a, b) == IF a = Undef \/ b = Undef THEN Undef ELSE (a + b) % p
FMul(p, a, b) == IF a = Undef \/ b = Undef THEN Undef ELSE (a * b) % p
FNeg(p, a)    == IF a = Undef THEN Undef ELSE (p - a) % p

RECURSIVE PowNat(_, _, _)
PowNat(p, a, n) == IF n = 0 THEN 1
                   ELSE LET h  == PowNat(p, a, n \div 2)
                            hh == (h * h) % p
                        IN  IF n % 2 = 1 THEN (hh * a) % p ELSE hh

FInv(p, a) == IF a = Undef \/ a = 0 THEN Undef ELSE PowNat(p, a, p - 2)
FDiv(p, a, b) == FMul(p, a, FInv(p, b))

RatVal(p, n, d) == FDiv(p, FNorm(p, n), FNorm(p, d))

\* the representative of a field element in -(p-1)/2 .. (p-1)/2
Signed(p, e) == IF e > (p - 1) \div 2 THEN e - p ELSE e

-----------------------------------------------------------------------------
(* The mixing function: uninterpreted symbols.  Any fixed function would be  *)
(* sound (congruence is all that is used); it is non-linear so that it does  *)
(* not commute with the ring operations.                                     *)

Mix0(p, id) == ((((id % p) * 7919) % p) + 10007) % p
MixStep(p, h, a) == LET u == (((h * 31337) % p) + a + 1) % p
                    IN  ((((u * u) % p) * u) + ((h * 113) % p) + 12345) % p
RECURSIVE MixSeq(_, _, _, _)
MixSeq(p, h, args, i) == IF i > Len(args) THEN h ELSE MixSeq(p, MixStep(p, h, args[i]), args, i + 1)
\* value of the uninterpreted function `id` at the argument values `args`
Mix(p, id, args) == IF \E i \in DOMAIN args : args[i] = Undef THEN Undef
                    ELSE 1 + (MixSeq(p, Mix0(p, id + 16 * Len(args)), args, 1) % (p - 1))   \* never zero

PowId == 1                       \* function ids 1..15 are reserved; named functions start at 16
CstId == 2
ConstVal(p, id) == Mix(p, CstId, <<id>>)      \* named constants (pi, E, I, oo ..): non-zero
EId == 2                         \* the constant E: exp(x) = E^x
EVal(p) == ConstVal(p, EId)

\* the k-th pseudo-random point for a seed: non-zero values for the symbols 1..n
PtId == 3
PointOf(p, seed, k, n) == [i \in 1..n |-> Mix(p, PtId, <<seed % p, (seed \div 46337) % p, k, i>>)]

-----------------------------------------------------------------------------
(* Powers.  One semantic function for x^e over field values:                 *)
(*   e a small integer         -> repeated multiplication / inverse          *)
(*   otherwise                 -> uninterpreted in (x, e), with the sign      *)
(*                                normal form  x^(-e) = 1 / x^e               *)
PowInt(p, x, k) == IF x = Undef THEN Undef
                   ELSE IF k >= 0 THEN PowNat(p, x, k) ELSE FInv(p, PowNat(p, x, -k))

PowV(p, x, e) ==
  IF x = Undef \/ e = Undef THEN Undef
  ELSE LET s == Signed(p, e) IN
       IF s >= -KMax /\ s <= KMax THEN PowInt(p, x, s)
       ELSE IF s < 0 THEN FInv(p, Mix(p, PowId, <<x, p - e>>))
       ELSE Mix(p, PowId, <<x, e>>)

SqrtV(p, x) == PowV(p, x, RatVal(p, 1, 2))
ExpV(p, x)  == PowV(p, EVal(p), x)

-----------------------------------------------------------------------------
(* Tokens <<op, a, b>> and their semantics on a stack of field values.       *)
(* (Derivative, Integral, Sum, Product, factorial .. are named functions.)    *)
(*   <<"sym", i, 0>>   symbol i (value pt[i])     <<"int", n, 0>>  integer n  *)
(*   <<"rat", n, d>>   rational n/d               <<"cst", id, 0>> named constant *)
(*   <<"add", n, 0>>   n-ary sum                  <<"mul", n, 0>>  n-ary product *)
(*   <<"neg",0,0>>  <<"div",0,0>>  <<"pow",0,0>> (base, exponent)  <<"sqrt",0,0>> <<"exp",0,0>> *)
(*   <<"powi", k, 0>>  x^k, k an integer literal  <<"powr", n, d>> x^(n/d)    *)
(*   <<"fn", id, n>>   named function id (>= 16) of n arguments               *)

TArity(tok) == CASE tok[1] \in {"sym", "int", "rat", "cst"} -> 0
                 [] tok[1] \in {"add", "mul"} -> tok[2]
                 [] tok[1] \in {"div", "pow"} -> 2
                 [] tok[1] = "fn" -> tok[3]
                 [] OTHER -> 1

RECURSIVE SumRange(_, _, _, _), ProdRange(_, _, _, _)        \* by halves: logarithmic recursion depth
SumRange(p, xs, lo, hi)  == IF lo > hi THEN 0 ELSE IF lo = hi THEN xs[lo]
                            ELSE LET mid == (lo + hi) \div 2
                                 IN  FAdd(p, SumRange(p, xs, lo, mid), SumRange(p, xs, mid + 1, hi))
ProdRange(p, xs, lo, hi) == IF lo > hi THEN 1 ELSE IF lo = hi THEN xs[lo]
                            ELSE LET mid == (lo + hi) \div 2
                                 IN  FMul(p, ProdRange(p, xs, lo, mid), ProdRange(p, xs, mid + 1, hi))
SumSeq(p, xs, i)  == SumRange(p, xs, i, Len(xs))
ProdSeq(p, xs, i) == ProdRange(p, xs, i, Len(xs))

\* value of one node given the values of its operands (args, in order)
Sem(p, pt, tok, args) ==
  CASE tok[1] = "sym"  -> pt[tok[2]]
    [] tok[1] = "int"  -> FNorm(p, tok[2])
    [] tok[1] = "rat"  -> RatVal(p, tok[2], tok[3])
    [] tok[1] = "cst"  -> ConstVal(p, tok[2])
    [] tok[1] = "add"  -> SumSeq(p, args, 1)
    [] tok[1] = "mul"  -> ProdSeq(p, args, 1)
    [] tok[1] = "neg"  -> FNeg(p, args[1])
    [] tok[1] = "div"  -> FDiv(p, args[1], args[2])
    [] tok[1] = "powi" -> PowV(p, args[1], FNorm(p, tok[2]))
    [] tok[1] = "powr" -> PowV(p, args[1], RatVal(p, tok[2], tok[3]))
    [] tok[1] = "sqrt" -> SqrtV(p, args[1])
    [] tok[1] = "pow"  -> PowV(p, args[1], args[2])
    [] tok[1] = "exp"  -> ExpV(p, args[1])
    [] tok[1] = "fn"   -> Mix(p, tok[2], args)

\* one step of the stack machine
StepTok(p, pt, tok, st) ==
  LET n == TArity(tok) IN
  Append(SubSeq(st, 1, Len(st) - n), Sem(p, pt, tok, SubSeq(st, Len(st) - n + 1, Len(st))))

RECURSIVE RunRange(_, _, _, _, _, _)
\* Programs are run by halves so that TLC's recursion depth is logarithmic in the program length (a linear
\* recursion overflows the Java stack at ~150 tokens); the test on Len(s1) makes TLC compute the stack after the
\* first half before it starts the second (otherwise it passes an unevaluated, ever deeper nested argument).
RunRange(p, pt, toks, lo, hi, st) ==
  IF lo > hi THEN st
  ELSE IF lo = hi THEN StepTok(p, pt, toks[lo], st)
  ELSE LET mid == (lo + hi) \div 2
           s1  == RunRange(p, pt, toks, lo, mid, st)
       IN  IF Len(s1) > 0 THEN RunRange(p, pt, toks, mid + 1, hi, s1) ELSE s1
RunFrom(p, pt, toks, i, st) == RunRange(p, pt, toks, i, Len(toks), st)
\* the value of a complete program at the point pt
Value(p, pt, toks) == LET st == RunFrom(p, pt, toks, 1, <<>>) IN st[Len(st)]

-----------------------------------------------------------------------------
(* The generator's alphabet (names are only used inside this module: the     *)
(* emitted programs carry the tokens themselves).                             *)
LeafTok == [
  a    |-> <<"sym", 1, 0>>,  b   |-> <<"sym", 2, 0>>,  c   |-> <<"sym", 3, 0>>,  d |-> <<"sym", 4, 0>>,
  n2   |-> <<"int", 2, 0>>,  n3  |-> <<"int", 3, 0>>,  n10 |-> <<"int", 10, 0>>,
  nm1  |-> <<"int", -1, 0>>, nm2 |-> <<"int", -2, 0>>,
  h    |-> <<"rat", 1, 2>>,  mt  |-> <<"rat", -2, 3>>, q34 |-> <<"rat", 3, 4>>,
  pi   |-> <<"cst", 1, 0>>,
  xt   |-> <<"sym", 5, 0>>,      \* a function of the variable t, x(t): to the model one more independent value
  \* floating-point literals (1e-10, 2.5e20, 0.5, 8.85e-10): to the generator named constants; the harness builds
  \* Float leaves and the recorded programs carry their exact decimal values
  f10  |-> <<"cst", 10, 0>>, f20 |-> <<"cst", 11, 0>>, fh |-> <<"cst", 12, 0>>, fs |-> <<"cst", 13, 0>>
]
OpTok == [
  add2 |-> <<"add", 2, 0>>,  add3 |-> <<"add", 3, 0>>,
  mul2 |-> <<"mul", 2, 0>>,  mul3 |-> <<"mul", 3, 0>>,
  neg  |-> <<"neg", 0, 0>>,  div  |-> <<"div", 0, 0>>,
  sq   |-> <<"powi", 2, 0>>, cube |-> <<"powi", 3, 0>>, inv |-> <<"powi", -1, 0>>, isq |-> <<"powi", -2, 0>>,
  sqrt |-> <<"sqrt", 0, 0>>, cbrt |-> <<"powr", 1, 3>>, p32 |-> <<"powr", 3, 2>>, pm32 |-> <<"powr", -3, 2>>,
  pm12 |-> <<"powr", -1, 2>>,
  pow  |-> <<"pow", 0, 0>>,  exp  |-> <<"exp", 0, 0>>,
  sin  |-> <<"fn", 16, 1>>,  log  |-> <<"fn", 17, 1>>, f2  |-> <<"fn", 18, 2>>, g1 |-> <<"fn", 19, 1>>,
  \* operator nodes (uninterpreted, congruent): d/dt, integral dt, sum and product over k = 1..n, factorial,
  \* sum and product over the index i of indexed symbols
  ddt  |-> <<"fn", 20, 1>>,  int  |-> <<"fn", 21, 1>>, sumk |-> <<"fn", 22, 1>>, prodk |-> <<"fn", 23, 1>>,
  fact |-> <<"fn", 24, 1>>,  isum |-> <<"fn", 25, 1>>, iprod |-> <<"fn", 26, 1>>,
  \* dense matrices of shape 2x3, 3x2, 1x3, 3x1 (elements in reading order)
  mat23 |-> <<"fn", 27, 6>>, mat32 |-> <<"fn", 28, 6>>, mat13 |-> <<"fn", 29, 3>>, mat31 |-> <<"fn", 30, 3>>,
  \* declared (undefined) functions whose display names coincide with names of well-known functions:
  \* beta(x), gamma(x), gamma(x, y), Abs(x), log(x), log(x, y), zeta(x, y), Max(x, y)
  dbeta |-> <<"fn", 31, 1>>, dgam1 |-> <<"fn", 32, 1>>, dgam2 |-> <<"fn", 33, 2>>, dabs |-> <<"fn", 34, 1>>,
  dlog1 |-> <<"fn", 35, 1>>, dlog2 |-> <<"fn", 36, 2>>, dzeta |-> <<"fn", 37, 2>>, dmax |-> <<"fn", 38, 2>>
]
Tok(name) == IF name \in DOMAIN LeafTok THEN LeafTok[name] ELSE OpTok[name]
ASSUME LeafNames \subseteq DOMAIN LeafTok /\ OpNames \subseteq DOMAIN OpTok

Toks(names) == [i \in DOMAIN names |-> Tok(names[i])]

-----------------------------------------------------------------------------
(* The machine: stack holds the values at the sanity point.                  *)
Top(k) == stack[Len(stack) - k]
Point == PointOf(P, PointSeed, 1, 5)

Init == stack = <<>> /\ prog = <<>>

\* the largest arity available, and the least number of further nodes that reduce n stack entries to one
MaxAr == LET S == {TArity(OpTok[o]) : o \in OpNames} \cup {2} IN CHOOSE m \in S : \A x \in S : x <= m
NodesNeeded(n) == IF n <= 1 THEN 0 ELSE ((n - 1) + (MaxAr - 2)) \div (MaxAr - 1)

Push(l) == /\ Len(prog) + 1 + NodesNeeded(Len(stack) + 1) <= MaxLen        \* room to combine it afterwards
           /\ stack' = StepTok(P, Point, LeafTok[l], stack)
           /\ prog' = Append(prog, l)

Apply(o) == /\ Len(stack) >= TArity(OpTok[o])
            /\ Len(prog) + 1 + NodesNeeded(Len(stack) - TArity(OpTok[o]) + 1) <= MaxLen
            /\ stack' = StepTok(P, Point, OpTok[o], stack)
            /\ prog' = Append(prog, o)

\* one action per node kind (so that -coverage reports each of them)
Leaf == \E l \in LeafNames : Push(l)
AddN == \E o \in OpNames \cap {"add2", "add3"} : Apply(o)
MulN == \E o \in OpNames \cap {"mul2", "mul3"} : Apply(o)
Neg  == "neg" \in OpNames /\ Apply("neg")
Div  == "div" \in OpNames /\ Apply("div")
PowI == \E o \in OpNames \cap {"sq", "cube", "inv", "isq"} : Apply(o)
PowR == \E o \in OpNames \cap {"cbrt", "p32", "pm32", "pm12"} : Apply(o)
Sqrt == "sqrt" \in OpNames /\ Apply("sqrt")
PowG == "pow" \in OpNames /\ Apply("pow")
Func == \E o \in OpNames \cap {"exp", "sin", "log", "f2", "g1",
                              "dbeta", "dgam1", "dgam2", "dabs", "dlog1", "dlog2", "dzeta", "dmax"} : Apply(o)
Oper == \E o \in OpNames \cap {"ddt", "int", "sumk", "prodk", "fact", "isum", "iprod"} : Apply(o)
Matr == \E o \in OpNames \cap {"mat23", "mat32", "mat13", "mat31"} : Apply(o)

Next == Leaf \/ AddN \/ MulN \/ Neg \/ Div \/ PowI \/ PowR \/ Sqrt \/ PowG \/ Func \/ Oper \/ Matr

Spec == Init /\ [][Next]_vars

-----------------------------------------------------------------------------
(* Sanity of the model itself (checked by TLC in every configuration, on all *)
(* values that occur on the stack of any generated program).                 *)

IsVal(x) == x = Undef \/ (x \in Nat /\ x < P)
TypeOK == \A i \in DOMAIN stack : IsVal(stack[i])

\* the ring identities the comparison relies on hold in the model
RingLaws ==
  /\ Len(stack) >= 1 =>
       LET x == Top(0) IN
         /\ FAdd(P, x, FNeg(P, x)) \in {0, Undef}
         /\ FNeg(P, FNeg(P, x)) = x
         /\ FMul(P, x, 1) = x /\ FAdd(P, x, 0) = x
         /\ (Def(x) /\ x # 0 => FMul(P, x, FInv(P, x)) = 1 /\ FInv(P, FInv(P, x)) = x)
         /\ (x = 0 => FInv(P, x) = Undef)
         /\ FNeg(P, x) = FMul(P, FNorm(P, -1), x)
  /\ Len(stack) >= 2 =>
       LET x == Top(1)  y == Top(0) IN
         /\ FAdd(P, x, y) = FAdd(P, y, x) /\ FMul(P, x, y) = FMul(P, y, x)
         /\ FDiv(P, x, y) = FMul(P, x, PowV(P, y, FNorm(P, -1)))
         /\ (Def(y) /\ y # 0 => FMul(P, FDiv(P, x, y), y) = x)
         /\ FNeg(P, FMul(P, x, y)) = FMul(P, FNeg(P, x), y)
         /\ (Def(FDiv(P, x, y)) /\ x # 0 => FInv(P, FDiv(P, x, y)) = FDiv(P, y, x))
  /\ Len(stack) >= 3 =>
       LET x == Top(2)  y == Top(1)  z == Top(0) IN
         /\ FMul(P, x, FAdd(P, y, z)) = FAdd(P, FMul(P, x, y), FMul(P, x, z))
         /\ FAdd(P, FAdd(P, x, y), z) = FAdd(P, x, FAdd(P, y, z))
         /\ FMul(P, FMul(P, x, y), z) = FMul(P, x, FMul(P, y, z))
         /\ SumSeq(P, <<x, y, z>>, 1) = FAdd(P, FAdd(P, x, y), z)
         /\ ProdSeq(P, <<x, y, z>>, 1) = FMul(P, FMul(P, x, y), z)
         /\ (Def(FDiv(P, x, FMul(P, y, z))) => FDiv(P, x, FMul(P, y, z)) = FDiv(P, FDiv(P, x, y), z))

\* the power normal forms hold for all values, integer powers are repeated multiplication
PowLaws ==
  /\ Len(stack) >= 1 =>
       LET x == Top(0) IN
         /\ PowV(P, x, 2) = FMul(P, x, x) /\ PowV(P, x, 3) = FMul(P, x, FMul(P, x, x))
         /\ PowV(P, x, 1) = x /\ (Def(x) => PowV(P, x, 0) = 1)
         /\ PowV(P, x, FNorm(P, -1)) = FInv(P, x)
         /\ PowV(P, x, FNorm(P, -2)) = FInv(P, FMul(P, x, x))
         /\ SqrtV(P, x) = PowV(P, x, RatVal(P, 1, 2))
         /\ PowV(P, x, RatVal(P, -3, 2)) = FInv(P, PowV(P, x, RatVal(P, 3, 2)))
         /\ PowV(P, x, RatVal(P, -1, 2)) = FInv(P, SqrtV(P, x))
         /\ ExpV(P, FNeg(P, x)) = FInv(P, ExpV(P, x))
         /\ (Def(x) => Def(ExpV(P, x)) /\ ExpV(P, x) # 0)
  /\ Len(stack) >= 2 =>
       LET x == Top(1)  e == Top(0) IN
         /\ (x # 0 => PowV(P, x, FNeg(P, e)) = FInv(P, PowV(P, x, e)))  \* x^(-e) = 1/x^e for every e
         /\ (Def(x) /\ Def(e) /\ x # 0 => Def(PowV(P, x, e)) /\ PowV(P, x, e) # 0)

\* uninterpreted functions: a function of (id, arity, argument values) only, and sensitive to each of them
MixLaws ==
  Len(stack) >= 2 =>
    LET x == Top(1)  y == Top(0) IN
      /\ (Def(x) /\ Def(y) /\ x # y => Mix(P, 16, <<x>>) # Mix(P, 16, <<y>>) \/ Mix(P, 17, <<x>>) # Mix(P, 17, <<y>>))
      /\ (Def(x) /\ Def(y) /\ x # y => Mix(P, 18, <<x, y>>) # Mix(P, 18, <<y, x>>) \/ Mix(P, 19, <<x, y>>) # Mix(P, 19, <<y, x>>))
      /\ (Def(x) => IsVal(Mix(P, 16, <<x>>)) /\ Def(Mix(P, 16, <<x>>)))

Done == Len(stack) = 1 /\ Len(prog) >= 1
\* the compositional machine and the program evaluator used for trace validation agree
EvalAgrees == Done => Value(P, Point, Toks(prog)) = stack[1]

-----------------------------------------------------------------------------
(* Emission of complete behaviours for the harness (spec -> code).           *)
Emit == Done => PrintT(ToJson([t |-> Toks(prog), v |-> stack[1]]))
=============================================================================
