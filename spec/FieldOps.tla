----------------------------- MODULE FieldOps -----------------------------
(* C12: gradient, divergence and curl.                                      *)
(*                                                                          *)
(* Reference model of the three operators on fields with polynomial         *)
(* Cartesian components (coefficient maps of Poly).  The statement of C12   *)
(* says that the operators of the library, in whichever of the three        *)
(* coordinate systems the field is written, are THESE operators of the      *)
(* field (result expressed in the local orthonormal basis), that            *)
(* curl grad = 0 and div curl = 0, and that a vector field given with       *)
(* fewer than three components is the field padded with zeros.              *)
(*                                                                          *)
(* The state machine walks over the fields the harness binds to the code:   *)
(* the basis fields (a monomial, for vector fields in one component) and    *)
(* sums of up to MaxTerms of them.  TLC checks the identities on every      *)
(* state and emits, for the states selected by EmitDeg / EmitTerms, the     *)
(* values of grad / div / curl at the exact points Points.                  *)
EXTENDS Poly, TLC, Json

CONSTANTS MaxDeg,      \* total degree of the basis monomials
          MaxTerms,    \* a state is a sum of at most MaxTerms basis fields
          EmitDeg,     \* emission: basis monomials up to this degree ...
          EmitTerms    \* ... and sums of at most this many of them

VARIABLES kind,        \* "s" scalar field / "v" vector field
          fld,         \* "s": <<p>>;  "v": <<p1, p2, p3>>
          terms        \* the basis fields summed so far: sequence of [c |-> component (0 for scalar), e |-> exponent]

vars == <<kind, fld, terms>>

-----------------------------------------------------------------------------
(* The operators.                                                           *)
VZero      == <<PZero, PZero, PZero>>
VAdd(F, G) == <<PAdd(F[1], G[1]), PAdd(F[2], G[2]), PAdd(F[3], G[3])>>
VScale(c, F) == <<PScale(c, F[1]), PScale(c, F[2]), PScale(c, F[3])>>
VMulMono(F, m) == <<PMulMono(F[1], m), PMulMono(F[2], m), PMulMono(F[3], m)>>

\* a vector field given by 0..3 components is the field padded with zeros
Pad(cs) == [i \in 1..3 |-> IF i <= Len(cs) THEN cs[i] ELSE PZero]

Grad(f) == <<PDiff(f, 1), PDiff(f, 2), PDiff(f, 3)>>
Div(F)  == PAdd(PAdd(PDiff(F[1], 1), PDiff(F[2], 2)), PDiff(F[3], 3))
Curl(F) == <<PSub(PDiff(F[3], 2), PDiff(F[2], 3)),
             PSub(PDiff(F[1], 3), PDiff(F[3], 1)),
             PSub(PDiff(F[2], 1), PDiff(F[1], 2))>>

VEval(F, pt) == <<PEval(F[1], pt), PEval(F[2], pt), PEval(F[3], pt)>>
VSub(F, G)   == <<PSub(F[1], G[1]), PSub(F[2], G[2]), PSub(F[3], G[3])>>

\* A field together with the coordinate system it is written in.  f is the field itself (its Cartesian polynomial
\* components): the statement says that the operator of EVERY system gives the true operator of the field, written
\* in the local basis of THAT system - the result is again a field of the same system and can be fed to the
\* operators again (curl curl, grad div, div grad, div curl, curl grad).
Systems == {"cart", "cyl", "sph"}
Tag(sys, k, f) == [sys |-> sys, k |-> k, f |-> f]
TGrad(t) == Tag(t.sys, "v", Grad(t.f[1]))
TDiv(t)  == Tag(t.sys, "s", <<Div(t.f)>>)
TCurl(t) == Tag(t.sys, "v", Curl(t.f))
Lap(f)   == Div(Grad(f))                                    \* Laplacian of a scalar field
VLap(F)  == <<Lap(F[1]), Lap(F[2]), Lap(F[3])>>             \* of the Cartesian components

\* exact points where the sines and cosines of the cylindrical and of both spherical angles are rational:
\* x^2 + y^2 and x^2 + y^2 + z^2 are squares of rationals (rho = 5, 3, 10; r = 13, 5, 25/2)
Points == << <<R(3), R(4), R(12)>>,
             << <<-12, 5>>, <<9, 5>>, R(4) >>,
             << R(8), R(-6), <<-15, 2>> >> >>

\* one exact point in every octant (rho = 5, r = 13 everywhere)
SignPoints == [i \in 1..8 |-> <<R(IF (i - 1) % 2 = 0 THEN 3 ELSE -3), R(IF ((i - 1) \div 2) % 2 = 0 THEN 4 ELSE -4),
                                R(IF (i - 1) \div 4 = 0 THEN 12 ELSE -12)>>]

-----------------------------------------------------------------------------
(* Fields with an absolute value of a signed coordinate:  f = m * |x_v|^k  (k odd), written smoothly as     *)
(* m * (x_v^2)^(k/2).  On the half-space of a point pt (pt[v] # 0) the field IS the polynomial               *)
(* sign(pt[v]) * m * x_v^k, so its gradient there is the gradient of that polynomial.  For k >= 3 the field   *)
(* is twice differentiable everywhere (AbsSmooth: both half-space polynomials agree up to second order on     *)
(* x_v = 0).                                                                                                *)
KVec(v, k) == <<IF v = 1 THEN k ELSE 0, IF v = 2 THEN k ELSE 0, IF v = 3 THEN k ELSE 0>>
AbsHalf(p, v, k, sign) == PScale(R(sign), PMulMono(p, KVec(v, k)))
AbsLocal(p, v, k, pt)  == AbsHalf(p, v, k, RSign(pt[v]))
AbsFits(p, v, k)       == MulFits(p, KVec(v, k))
AbsFields == {a \in [e : {m \in Exps : TotDeg(m) <= 1}, v : Vars, k : {3}] : a.e[a.v] + a.k <= D}
ASSUME AbsSmooth ==
  \A a \in AbsFields : \A w, u \in Vars :
     LET plus == AbsHalf(PMono(a.e, ROne), a.v, a.k, 1)  minus == AbsHalf(PMono(a.e, ROne), a.v, a.k, -1)
         on0(q) == PRestrict(q, a.v, RZero) IN
     /\ on0(plus) = on0(minus)
     /\ on0(PDiff(plus, w)) = on0(PDiff(minus, w))
     /\ on0(PDiff(PDiff(plus, w), u)) = on0(PDiff(PDiff(minus, w), u))

-----------------------------------------------------------------------------
(* The fields.                                                              *)
Monos(d) == {e \in Exps : TotDeg(e) <= d}
Unit(v)  == [w \in 1..3 |-> IF w = v THEN 1 ELSE 0]
UnitE(v) == <<Unit(v)[1], Unit(v)[2], Unit(v)[3]>>

BasisS(d) == {[c |-> 0, e |-> e] : e \in Monos(d)}
BasisV(d) == {[c |-> c, e |-> e] : c \in 1..3, e \in Monos(d)}

FieldOf(b) == IF b.c = 0 THEN <<PMono(b.e, ROne)>>
              ELSE [i \in 1..3 |-> IF i = b.c THEN PMono(b.e, ROne) ELSE PZero]

FAdd(k, F, G) == IF k = "s" THEN <<PAdd(F[1], G[1])>> ELSE VAdd(F, G)

Init == \E k \in {"s", "v"} : \E b \in (IF k = "s" THEN BasisS(MaxDeg) ELSE BasisV(MaxDeg)) :
          /\ kind = k
          /\ fld = FieldOf(b)
          /\ terms = <<b>>

\* sums are built in non-decreasing order of the basis index (a sum does not depend on the order)
Idx(b) == b.c * 1000 + b.e[1] * 100 + b.e[2] * 10 + b.e[3]
AddBasis == /\ Len(terms) < MaxTerms
            /\ \E b \in (IF kind = "s" THEN BasisS(MaxDeg) ELSE BasisV(MaxDeg)) :
                 /\ Idx(b) >= Idx(terms[Len(terms)])
                 /\ fld' = FAdd(kind, fld, FieldOf(b))
                 /\ terms' = Append(terms, b)
            /\ UNCHANGED kind

Next == AddBasis

-----------------------------------------------------------------------------
(* Properties of the model (the oracle is the operator the statement means). *)

TypeOK == /\ kind \in {"s", "v"}
          /\ Len(fld) = (IF kind = "s" THEN 1 ELSE 3)
          /\ \A i \in DOMAIN fld : IsPoly(fld[i])

CurlGradZero == kind = "s" => Curl(Grad(fld[1])) = VZero
DivCurlZero  == kind = "v" => Div(Curl(fld)) = PZero

\* results stay in the system of the argument and do not depend on it; curl curl = grad div - Laplacian
Composition ==
  \A sys \in Systems :
    IF kind = "s"
    THEN LET t == Tag(sys, "s", fld) IN
         /\ TDiv(TGrad(t)) = Tag(sys, "s", <<Lap(fld[1])>>)
         /\ TCurl(TGrad(t)) = Tag(sys, "v", VZero)
    ELSE LET t == Tag(sys, "v", fld) IN
         /\ TCurl(TCurl(t)) = Tag(sys, "v", VSub(Grad(Div(fld)), VLap(fld)))
         /\ TDiv(TCurl(t)) = Tag(sys, "s", <<PZero>>)
         /\ TGrad(TDiv(t)).sys = sys

\* A field may carry free parameters: c * f stands for a whole family of fields, and the operators are homogeneous,
\* whatever the parameter is called.  The harness uses symbols with the names ParamNames as coefficient - names of
\* coordinates of the three systems and one that is no coordinate - and the values ParamValues for them afterwards.
ParamNames  == <<"x", "y", "z", "r", "theta", "phi", "a">>
ParamValues == <<R(2), <<-3, 2>> >>
Homogeneous ==
  \A i \in DOMAIN ParamValues : LET c == ParamValues[i] IN
    IF kind = "s" THEN Grad(PScale(c, fld[1])) = VScale(c, Grad(fld[1]))
    ELSE /\ Div(VScale(c, fld)) = PScale(c, Div(fld))
         /\ Curl(VScale(c, fld)) = VScale(c, Curl(fld))

\* mixed partial derivatives commute (what both identities rest on)
MixedPartials == \A i \in DOMAIN fld : \A v, w \in Vars :
                   PDiff(PDiff(fld[i], v), w) = PDiff(PDiff(fld[i], w), v)

\* the operators are linear ...
Linear == [][ LET b == terms'[Len(terms')] IN
              /\ kind = "s" => Grad(fld'[1]) = VAdd(Grad(fld[1]), Grad(FieldOf(b)[1]))
              /\ kind = "v" => /\ Div(fld') = PAdd(Div(fld), Div(FieldOf(b)))
                               /\ Curl(fld') = VAdd(Curl(fld), Curl(FieldOf(b))) ]_vars

\* ... vanish on constants and obey the product rule for the coordinate functions; together with linearity
\* this determines a first-order differential operator uniquely, so Grad, Div, Curl ARE the true operators:
\*   grad(x_v f) = f e_v + x_v grad f    div(x_v F) = F_v + x_v div F    curl(x_v F) = e_v x F + x_v curl F
Cross1(v, F) == \* e_v x F
  CASE v = 1 -> <<PZero, PNeg(F[3]), F[2]>>
    [] v = 2 -> <<F[3], PZero, PNeg(F[1])>>
    [] v = 3 -> <<PNeg(F[2]), F[1], PZero>>
Leibniz ==
  \A v \in Vars :
    (\A i \in DOMAIN fld : MulFits(fld[i], UnitE(v))) =>
      IF kind = "s"
      THEN Grad(PMulMono(fld[1], UnitE(v))) =
             VAdd([i \in 1..3 |-> IF i = v THEN fld[1] ELSE PZero], VMulMono(Grad(fld[1]), UnitE(v)))
      ELSE /\ Div(VMulMono(fld, UnitE(v))) = PAdd(fld[v], PMulMono(Div(fld), UnitE(v)))
           /\ Curl(VMulMono(fld, UnitE(v))) = VAdd(Cross1(v, fld), VMulMono(Curl(fld), UnitE(v)))
ASSUME OnConstants ==
         /\ Grad(PConst(R(7))) = VZero
         /\ Div(<<PConst(R(1)), PConst(R(2)), PConst(R(3))>>) = PZero
         /\ Curl(<<PConst(R(1)), PConst(R(2)), PConst(R(3))>>) = VZero

\* moving the origin and evaluating commute: p(x + c) at pt is p at pt + c
ShiftEval == \A i \in DOMAIN fld :
               LET c == Points[2]  pt == Points[1] IN
               PEval(PShift(fld[i], c), pt) = PEval(fld[i], <<RAdd(pt[1], c[1]), RAdd(pt[2], c[2]), RAdd(pt[3], c[3])>>)

-----------------------------------------------------------------------------
(* Emission for the replay harness (spec -> code).                           *)
TermDeg(b) == TotDeg(b.e)
Emitted == Len(terms) <= EmitTerms /\ \A i \in DOMAIN terms : TermDeg(terms[i]) <= EmitDeg
Emit == Emitted =>
  PrintT(ToJson(
    IF kind = "s"
    THEN [kind |-> "s", terms |-> terms, pts |-> Points, pnames |-> ParamNames, pvals |-> ParamValues,
          grad |-> [k \in DOMAIN Points |-> VEval(Grad(fld[1]), Points[k])],
          divgrad |-> [k \in DOMAIN Points |-> PEval(Lap(fld[1]), Points[k])]]
    ELSE [kind |-> "v", terms |-> terms, pts |-> Points, pnames |-> ParamNames, pvals |-> ParamValues,
          curlcurl |-> [k \in DOMAIN Points |-> VEval(Curl(Curl(fld)), Points[k])],
          graddiv  |-> [k \in DOMAIN Points |-> VEval(Grad(Div(fld)), Points[k])],
          div  |-> [k \in DOMAIN Points |-> PEval(Div(fld), Points[k])],
          curl |-> [k \in DOMAIN Points |-> VEval(Curl(fld), Points[k])]]))

\* emission of the absolute-value fields (once): gradient at the points of all octants
AbsEmit ==
  (kind = "s" /\ Len(terms) = 1 /\ terms[1].e = <<0, 0, 0>>) =>
     \A a \in AbsFields :
        PrintT(ToJson([abs |-> a, pts |-> SignPoints,
                       grad |-> [i \in DOMAIN SignPoints |->
                                   VEval(Grad(AbsLocal(PMono(a.e, ROne), a.v, a.k, SignPoints[i])), SignPoints[i])]]))
=============================================================================
