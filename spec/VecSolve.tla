------------------------------ MODULE VecSolve ------------------------------
(* C16: rearranging a vector equation for one of its terms, solving a scalar *)
(* equation, applying a function to both sides.                              *)
(*                                                                            *)
(* A vector equation is a sequence of terms <<coefficient, vector, side>>:    *)
(* the coefficient is a sequence of monomials (its expanded form: x + y is    *)
(* <<x, y>>), monomials and vector are postfix programs of VecVal (so that    *)
(* the harness builds exactly what the model means), side is "l" or "r".      *)
(* The "original expression" of the statement is                              *)
(*      E = sum of the left terms - sum of the right terms.                   *)
(* The unknown is vector leaf 1 (u); leaves 2, 3 are a, b; scalars x, y.      *)
(* The behaviours of the machine are the equation shapes the property         *)
(* quantifies over; the operators below (Expect, Allowed, ...) are the        *)
(* statement, evaluated exactly under the integer assignments of Assigns.     *)
EXTENDS VecVal, Json

CONSTANTS TermKinds,     \* sequence of <<coefficient kind, vector kind>>: the terms an equation is drawn from, in order
          MaxTerms,      \* terms per equation
          MaxU,          \* terms whose vector is the unknown
          Forms,         \* how the equation is written: "expr" "eqL" "eqU" "eqO"
          ApplyFns,      \* functions applied to both sides by `apply`
          ApplyMaxTerms,
          NonVecKinds,   \* non-vector expressions (must be refused)
          ScalK2, ScalK1, ScalK0,   \* coefficient kinds of the scalar equations k2 x^2 + k1 x + k0 = 0
          RadicalEqs,    \* triples <<p, q, r>> of integers: the radical equations sqrt(p x + q) = x + r
          Assigns,
          ShardK, ShardI  \* the enumeration can be split over ShardK TLC processes (by the first term); 1, 0 = all

VARIABLES mode,    \* "start" | "vec" | "nonvec" | "scalar" | "radical"
          terms,   \* vec: indices into TermKinds (strictly increasing); nonvec: <<kind>>; scalar: <<k2, k1, k0>>
          fin      \* [done, op, form, reduce, fn]

vars == <<mode, terms, fin>>
NA == Len(Assigns)

U == <<"vec", 1>>
VA == <<"vec", 2>>
VB == <<"vec", 3>>
X == <<"scal", 1>>
Y == <<"scal", 2>>

\* coefficient kinds and vector kinds as programs
CoefProg == [
  one  |-> << <<"int", 1>> >>,
  m1   |-> << <<"int", -1>> >>,
  two  |-> << <<"int", 2>> >>,
  x    |-> << X >>,
  y    |-> << Y >>,
  xy   |-> << X, Y, <<"muls", 0>> >>,
  xpy  |-> << X, Y, <<"adds", 0>> >>,
  xinv |-> << X, <<"pow", -1>> >>,
  yinv |-> << Y, <<"pow", -1>> >>,
  dab  |-> << VA, VB, <<"dot", 0>> >>,
  duu  |-> << U, U, <<"dot", 0>> >>,
  my2  |-> << <<"int", -1>>, Y, <<"pow", 2>>, <<"muls", 0>> >>,
  zero |-> << <<"int", 0>> >> ]

\* the expanded form of a coefficient: the monomials whose sum it is
CoefParts(c) == IF c = "xpy" THEN << << X >>, << Y >> >> ELSE << CoefProg[c] >>

VecProg == [
  u  |-> << U >>,
  a  |-> << VA >>,
  b  |-> << VB >>,
  ab |-> << VA, VB, <<"cross", 0>> >>,
  ua |-> << U, VA, <<"cross", 0>> >> ]

NonVecProg == [
  nu  |-> << U, <<"norm", 0>> >>,
  dua  |-> << U, VA, <<"dot", 0>> >>,
  x    |-> << X >>,
  xdab |-> << X, VA, VB, <<"dot", 0>>, <<"adds", 0>> >> ]

-----------------------------------------------------------------------------
(* The statement, over explicit term lists ts = sequence of <<cprog, vprog, side>>. *)

ZeroV == VecD(<<0, 0, 0>>, <<0, 0, 0>>)
IsUTerm(t) == t[2] = << U >>

RECURSIVE CoefFrom(_, _, _)
CoefFrom(A, parts, i) == IF i > Len(parts) THEN IntS(0) ELSE Add(Eval(A, parts[i]), CoefFrom(A, parts, i + 1))
CoefVal(A, parts) == CoefFrom(A, parts, 1)
TermVal(A, t) == Mul(CoefVal(A, t[1]), Eval(A, t[2]))

RECURSIVE SumSide(_, _, _, _)
SumSide(A, ts, side, i) ==
  IF i > Len(ts) THEN ZeroV
  ELSE IF ts[i][3] = side THEN Add(TermVal(A, ts[i]), SumSide(A, ts, side, i + 1))
  ELSE SumSide(A, ts, side, i + 1)

LhsVal(A, ts) == SumSide(A, ts, "l", 1)
RhsVal(A, ts) == SumSide(A, ts, "r", 1)
\* the original expression
ExprVal(A, ts) == Add(LhsVal(A, ts), Neg(RhsVal(A, ts)))

\* the terms of the unknown after expansion: pairs <<term, monomial>>, with their signed coefficients
UIdx(ts) == {i \in DOMAIN ts : IsUTerm(ts[i])}
UParts(ts) == {<<i, j>> \in (DOMAIN ts) \X (1..4) : IsUTerm(ts[i]) /\ j <= Len(ts[i][1])}
PartCoef(A, ts, ij) == LET t == ts[ij[1]]  v == Eval(A, t[1][ij[2]]) IN IF t[3] = "l" THEN v ELSE Neg(v)

RECURSIVE SumCoefs(_, _, _)
SumCoefs(A, ts, S) == IF S = {} THEN IntS(0)
                      ELSE LET ij == CHOOSE q \in S : TRUE IN Add(PartCoef(A, ts, ij), SumCoefs(A, ts, S \ {ij}))

\* the coefficients "of that term": the expression is a sum of terms after expansion, and like terms may be
\* collected, so any non-empty group of the unknown's expanded terms is a term of the expression, with the sum
\* of their coefficients
Divisors(A, ts) == {k \in {SumCoefs(A, ts, S) : S \in (SUBSET UParts(ts)) \ {{}}} : ~IsU(k) /\ ~IsZero(k)}

\* what must happen: "refuse" (the vector is not a term), "equation", or "open" (the unknown's terms cancel:
\* the statement does not say whether the vector still occurs)
Expect(A, ts) ==
  IF UIdx(ts) = {} THEN "refuse"
  ELSE LET tot == SumCoefs(A, ts, UParts(ts)) IN
       IF IsU(tot) \/ IsZero(tot) \/ IsU(ExprVal(A, ts)) THEN "open" ELSE "equation"

\* allowed values of (lhs - rhs) of the returned equation, from the original expression e and the divisors ks
AllowedOf(e, ks, reduce) ==
  IF reduce THEN UNION {{Mul(Inv(k), e), Neg(Mul(Inv(k), e))} : k \in ks}
  ELSE {e, Neg(e)}
Allowed(A, ts, reduce) == AllowedOf(ExprVal(A, ts), Divisors(A, ts), reduce)

\* verdict on a returned equation with side values l, r:  "ok" | "bad" | "un"
SolveVerdict(A, ts, reduce, l, r) ==
  LET d == Add(l, Neg(r))
      al == Allowed(A, ts, reduce) IN
  IF IsU(d) \/ \E v \in al : IsU(v) THEN "un"
  ELSE IF d \in al THEN "ok" ELSE "bad"

\* functions applied to both sides
ApplyFn(A, fn, v) ==
  CASE fn = "dota"   -> Dot(v, LeafVec(A, 2))
    [] fn = "twice"  -> Mul(IntS(2), v)
    [] fn = "plusu"  -> Add(v, LeafVec(A, 1))
    [] fn = "norm"   -> NormV(v)
    [] fn = "crossb" -> Cross(v, LeafVec(A, 3))

\* the library writes the zero vector as the number 0
SameVal(p, q) == ValOf(p) = ValOf(q) \/ (IsZero(p) /\ IsZero(q))
ApplyVerdict(A, ts, fn, l, r) ==
  LET el == ApplyFn(A, fn, LhsVal(A, ts))
      er == ApplyFn(A, fn, RhsVal(A, ts)) IN
  IF IsU(el) \/ IsU(er) \/ IsU(l) \/ IsU(r) THEN "un"
  ELSE IF SameVal(l, el) /\ SameVal(r, er) THEN "ok" ELSE "bad"

\* scalar equation k2 x^2 + k1 x + k0 = 0 and a proposed solution s
Residual(A, ks, s) ==
  Add(Add(Mul(Eval(A, ks[1]), Mul(s, s)), Mul(Eval(A, ks[2]), s)), Eval(A, ks[3]))
ScalarVerdict(A, ks, s) ==
  LET res == Residual(A, ks, s) IN
  IF IsU(res) THEN "un" ELSE IF IsZero(ValOf(res)) THEN "ok" ELSE "bad"

\* radical equation sqrt(p x + q) = x + r (ks = programs of p, q, r) and a proposed solution s: squaring
\* introduces roots that do not satisfy the equation itself
RadResidual(A, ks, s) ==
  Add(SqrtS(Add(Mul(Eval(A, ks[1]), s), Eval(A, ks[2]))), Neg(Add(s, Eval(A, ks[3]))))
RadicalVerdict(A, ks, s) ==
  LET res == RadResidual(A, ks, s) IN
  IF IsU(res) THEN "un" ELSE IF IsZero(ValOf(res)) THEN "ok" ELSE "bad"

-----------------------------------------------------------------------------
(* The machine enumerating the shapes.                                       *)

NotDone == [done |-> FALSE, op |-> "none", form |-> "none", reduce |-> FALSE, fn |-> "none"]
Init == mode = "start" /\ terms = <<>> /\ fin = NotDone

KindIsU(i) == TermKinds[i][2] = "u"
NU == Cardinality({j \in DOMAIN terms : KindIsU(terms[j])})

AddTerm(i) ==
  /\ mode \in {"start", "vec"} /\ ~fin.done
  /\ Len(terms) < MaxTerms
  /\ (terms # <<>> => i > terms[Len(terms)])
  /\ (KindIsU(i) => NU < MaxU)
  /\ mode' = "vec" /\ terms' = Append(terms, i) /\ UNCHANGED fin

FinishSolve(form, reduce) ==
  /\ mode = "vec" /\ ~fin.done
  /\ fin' = [done |-> TRUE, op |-> "solve", form |-> form, reduce |-> reduce, fn |-> "none"]
  /\ UNCHANGED <<mode, terms>>

FinishApply(form, fn) ==
  /\ mode = "vec" /\ ~fin.done /\ Len(terms) <= ApplyMaxTerms
  /\ fin' = [done |-> TRUE, op |-> "apply", form |-> form, reduce |-> FALSE, fn |-> fn]
  /\ UNCHANGED <<mode, terms>>

NonVector(kind, form) ==
  /\ mode = "start" /\ form \in {"expr", "eqL"}
  /\ mode' = "nonvec" /\ terms' = <<kind>>
  /\ fin' = [done |-> TRUE, op |-> "solve", form |-> form, reduce |-> TRUE, fn |-> "none"]

ScalarEq(k2, k1, k0, form) ==
  /\ mode = "start" /\ form \in {"expr", "eqL", "eqO"}
  /\ ~(k2 = "zero" /\ k1 = "zero")
  /\ mode' = "scalar" /\ terms' = <<k2, k1, k0>>
  /\ fin' = [done |-> TRUE, op |-> "solve_scalar", form |-> form, reduce |-> FALSE, fn |-> "none"]

RadicalEq(pqr, form) ==
  /\ mode = "start" /\ form \in {"expr", "eqO"}
  /\ mode' = "radical" /\ terms' = pqr
  /\ fin' = [done |-> TRUE, op |-> "solve_radical", form |-> form, reduce |-> FALSE, fn |-> "none"]

Next == \/ \E pqr \in RadicalEqs, f \in Forms : RadicalEq(pqr, f)
        \/ \E i \in DOMAIN TermKinds : AddTerm(i)
        \/ \E f \in Forms, r \in BOOLEAN : FinishSolve(f, r)
        \/ \E f \in Forms, g \in ApplyFns : FinishApply(f, g)
        \/ \E k \in NonVecKinds, f \in Forms : NonVector(k, f)
        \/ \E k2 \in ScalK2, k1 \in ScalK1, k0 \in ScalK0, f \in Forms : ScalarEq(k2, k1, k0, f)

Spec == Init /\ [][Next]_vars

\* state constraint of shard ShardI: equations whose first term has index = ShardI mod ShardK; the non-vector
\* and scalar shapes belong to shard 0
InShard == IF mode = "vec" THEN terms[1] % ShardK = ShardI
           ELSE IF mode = "start" THEN TRUE ELSE ShardI = 0

\* how an equation is written: which side each term is on
\*   expr: an expression (all terms left, no Eq)      eqL: Eq(all terms, 0)
\*   eqU : Eq(terms of the unknown, the others)       eqO: Eq(the others, terms of the unknown)
\* (a term written on the right of Eq enters the original expression negated)
SideOf(form, i) == CASE form \in {"expr", "eqL"} -> "l"
                     [] form = "eqU" -> (IF KindIsU(i) THEN "l" ELSE "r")
                     [] form = "eqO" -> (IF KindIsU(i) THEN "r" ELSE "l")
TermsAs(form) == [j \in DOMAIN terms |->
                    <<CoefParts(TermKinds[terms[j]][1]), VecProg[TermKinds[terms[j]][2]], SideOf(form, terms[j])>>]
Ts == TermsAs(fin.form)
ScalProgs == <<CoefProg[terms[1]], CoefProg[terms[2]], CoefProg[terms[3]]>>
RadProgs == << << <<"int", terms[1]>> >>, << <<"int", terms[2]>> >>, << <<"int", terms[3]>> >> >>

-----------------------------------------------------------------------------
(* Properties of the model itself.                                           *)

Def(v) == ~IsU(v)
VecDone == mode = "vec" /\ fin.done

\* moving a term to the other side of Eq with its coefficient negated does not change the equation
Moved(ts, j) == [ts EXCEPT ![j] = <<[q \in DOMAIN ts[j][1] |-> Append(ts[j][1][q], <<"neg", 0>>)], ts[j][2],
                                    IF ts[j][3] = "l" THEN "r" ELSE "l">>]
MoveNegates == (VecDone /\ fin.op = "solve" /\ fin.reduce) => \A i \in 1..NA :
  LET ts == Ts  e == ExprVal(Assigns[i], ts) IN
  \A j \in DOMAIN ts : LET em == ExprVal(Assigns[i], Moved(ts, j)) IN (Def(e) /\ Def(em)) => e = em

\* every allowed rearrangement is equivalent to the original equation, and with reduction on it
\* differs from it by the division by one of the unknown's coefficients
Equivalent == (VecDone /\ fin.op = "solve") => \A i \in 1..NA :
  LET A == Assigns[i]
      ts == Ts
      e == ExprVal(A, ts)
      ks == Divisors(A, ts)
      al == AllowedOf(e, ks, fin.reduce) IN
  (Expect(A, ts) = "equation") =>
     /\ al # {}
     /\ \A d \in al : Def(d) => (IsZero(d) <=> IsZero(e))
     /\ (fin.reduce => \A d \in al : Def(d) => \E k \in ks : Mul(k, d) = e \/ Mul(k, d) = Neg(e))

\* when the unknown occurs in exactly one term and nowhere else, the right-hand side u = -(E - k u)/k
\* of the reduced rearrangement is its solution: substituted for u it makes the expression vanish
OnlyInOneTerm == /\ Cardinality(UIdx(Ts)) = 1
                 /\ \A j \in DOMAIN terms : TermKinds[terms[j]][2] # "ua" /\ TermKinds[terms[j]][1] # "duu"
Solution == (VecDone /\ fin.op = "solve" /\ fin.reduce /\ OnlyInOneTerm) => \A i \in 1..NA :
  LET A == Assigns[i]
      e == ExprVal(A, Ts)
      k == SumCoefs(A, Ts, UParts(Ts))
      rest == Add(e, Neg(Mul(k, LeafVec(A, 1))))              \* E - k u
      sol == Neg(Mul(Inv(k), rest))                           \* the right-hand side
  IN  (Def(sol) /\ Def(rest)) =>
        /\ LET back == Add(Mul(k, sol), rest) IN Def(back) => IsZero(back)
        /\ SolveVerdict(A, Ts, TRUE, LeafVec(A, 1), sol) \in {"ok", "un"}

\* refusal exactly when the unknown is not a term
RefusalRule == (VecDone /\ fin.op = "solve") => \A i \in 1..NA :
  (Expect(Assigns[i], Ts) = "refuse") <=> (\A j \in DOMAIN terms : ~KindIsU(terms[j]))

\* every radical equation of the configuration has a root in the model (the enumeration is not vacuous) and a
\* root of the squared equation that is not a root of the equation (what a solver without back-substitution returns)
RadicalsMeaningful == mode = "radical" => \A i \in 1..NA :
  /\ \E c \in -12..12 : RadicalVerdict(Assigns[i], RadProgs, IntS(c)) = "ok"
  /\ \E c \in -12..12 : /\ RadicalVerdict(Assigns[i], RadProgs, IntS(c)) = "bad"
                         /\ terms[1] * c + terms[2] = (c + terms[3]) * (c + terms[3])

TypeOK == /\ mode \in {"start", "vec", "nonvec", "scalar", "radical"}
          /\ fin.done \in BOOLEAN
          /\ (mode = "vec" => \A j \in DOMAIN terms : terms[j] \in DOMAIN TermKinds)

-----------------------------------------------------------------------------
(* Emission (spec -> code).                                                  *)
ExpectRec(A) ==
  LET ts == Ts IN
  IF fin.op = "apply"
  THEN [kind |-> "apply", al |-> ApplyFn(A, fin.fn, LhsVal(A, ts)), ar |-> ApplyFn(A, fin.fn, RhsVal(A, ts))]
  ELSE [kind |-> Expect(A, ts), e |-> ExprVal(A, ts), ks |-> Divisors(A, ts)]
Emit ==
  fin.done =>
    PrintT(ToJson(
      [mode |-> mode, op |-> fin.op, form |-> fin.form, reduce |-> fin.reduce, fn |-> fin.fn,
       ts |-> IF mode = "vec" THEN Ts ELSE IF mode = "nonvec" THEN <<NonVecProg[terms[1]]>>
              ELSE IF mode = "radical" THEN RadProgs ELSE ScalProgs,
       exp |-> IF mode = "vec" THEN [i \in 1..NA |-> ExpectRec(Assigns[i])] ELSE <<>>]))
=============================================================================
