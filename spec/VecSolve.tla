------------------------------ MODULE VecSolve ------------------------------
(* C16: rearranging a vector equation for one of its terms, solving a scalar *)
(* equation, applying a function to both sides.                              *)
(*                                                                            *)
(* A vector equation is a sequence of terms <<coefficient, vector, side>>:    *)
(* the coefficient is a sequence of monomials (its expanded form: x + y is    *)
(* <<x, y>>), monomials and vector are postfix programs of VecVal (so that    *)
(* the harness builds exactly what the model means), side is "l" or "r".      *)
(* The "original expression" of the statement is                              *)
(*      E = sum of the left terms - sum of the right terms.                   *)
(* The unknown is vector leaf 1 (u); leaves 2, 3 are a, b; scalars x, y.      *)
(* The behaviours of the machine are the equation shapes the property         *)
(* quantifies over; the operators below (Expect, Allowed, ...) are the        *)
(* statement, evaluated exactly under the integer assignments of Assigns.     *)
EXTENDS VecVal, Json

CONSTANTS TermKinds,     \* sequence of <<coefficient kind, vector kind>>: the terms an equation is drawn from, in order
          MaxTerms,      \* terms per equation
          MaxU,          \* terms whose vector is the unknown
          Forms,         \* how the equation is written: "expr" "eqL" "eqU" "eqO"
          ApplyFns,      \* functions applied to both sides by `apply`
          ApplyMaxTerms,
          NonVecKinds,   \* non-vector expressions (must be refused)
          ScalK2, ScalK1, ScalK0,   \* coefficient kinds of the scalar equations k2 x^2 + k1 x + k0 = 0
          RadicalEqs,    \* triples <<p, q, r>> of integers: the radical equations sqrt(p x + q) = x + r
          PowerEqs,      \* scalar equations whose solution is a product / quotient of square roots of two symbols
          Systems,       \* tuples <<a11, a12, c1, a21, a22, c2>>: a11 x + a12 y = c1 t, a21 x + a22 y = c2 t
                         \* (second row all 0: a single equation in two unknowns)
          ScalApplyFns,  \* functions applied by `apply` to scalar (non-vector) equations given as bare expressions
          Assigns,
          ShardK, ShardI  \* the enumeration can be split over ShardK TLC processes (by the first term); 1, 0 = all

VARIABLES mode,    \* "start" | "vec" | "nonvec" | "scalar" | "radical" | "system"
          terms,   \* vec: indices into TermKinds (strictly increasing); nonvec: <<kind>>; scalar: <<k2, k1, k0>>
          fin      \* [done, op, form, reduce, fn]

vars == <<mode, terms, fin>>
NA == Len(Assigns)

U == <<"vec", 1>>
VA == <<"vec", 2>>
VB == <<"vec", 3>>
X == <<"scal", 1>>
Y == <<"scal", 2>>

\* coefficient kinds and vector kinds as programs
CoefProg == [
  one  |-> << <<"int", 1>> >>,
  m1   |-> << <<"int", -1>> >>,
  two  |-> << <<"int", 2>> >>,
  x    |-> << X >>,
  y    |-> << Y >>,
  xy   |-> << X, Y, <<"muls", 0>> >>,
  xpy  |-> << X, Y, <<"adds", 0>> >>,
  xinv |-> << X, <<"pow", -1>> >>,
  yinv |-> << Y, <<"pow", -1>> >>,
  dab  |-> << VA, VB, <<"dot", 0>> >>,
  duu  |-> << U, U, <<"dot", 0>> >>,
  my2  |-> << <<"int", -1>>, Y, <<"pow", 2>>, <<"muls", 0>> >>,
  zero |-> << <<"int", 0>> >> ]

\* the expanded form of a coefficient: the monomials whose sum it is
CoefParts(c) == IF c = "xpy" THEN << << X >>, << Y >> >> ELSE << CoefProg[c] >>

VecProg == [
  u  |-> << U >>,
  a  |-> << VA >>,
  b  |-> << VB >>,
  ab |-> << VA, VB, <<"cross", 0>> >>,
  ua |-> << U, VA, <<"cross", 0>> >> ]

NonVecProg == [
  nu  |-> << U, <<"norm", 0>> >>,
  dua  |-> << U, VA, <<"dot", 0>> >>,
  x    |-> << X >>,
  xdab |-> << X, VA, VB, <<"dot", 0>>, <<"adds", 0>> >>,
  \* a vector divided by a scaled vector or by a sum of vectors is not a vector expression (the programs are
  \* ill-typed on purpose: they have no value, the harness only builds them)
  divscaled  |-> << VA, X, VB, <<"scalev", 0>>, <<"pow", -1>>, <<"muls", 0>>, U, <<"addv", 0>> >>,     \* a/(x b) + u
  divscaledu |-> << VB, U, <<"int", 2>>, VA, <<"scalev", 0>>, <<"pow", -1>>, <<"muls", 0>>, <<"neg", 0>>,
                    <<"addv", 0>> >>,                                                                    \* b - u/(2 a)
  divsum     |-> << VB, U, VA, <<"addv", 0>>, <<"pow", -1>>, <<"muls", 0>>, U, <<"addv", 0>> >> ]        \* b/(u + a) + u
ScalarExprKinds == {"nu", "dua", "x", "xdab"}
T == <<"scal", 3>>

-----------------------------------------------------------------------------
(* The statement, over explicit term lists ts = sequence of <<cprog, vprog, side>>. *)

ZeroV == VecD(<<0, 0, 0>>, <<0, 0, 0>>)
IsUTerm(t) == t[2] = << U >>

RECURSIVE CoefFrom(_, _, _)
CoefFrom(A, parts, i) == IF i > Len(parts) THEN IntS(0) ELSE Add(Eval(A, parts[i]), CoefFrom(A, parts, i + 1))
CoefVal(A, parts) == CoefFrom(A, parts, 1)
TermVal(A, t) == Mul(CoefVal(A, t[1]), Eval(A, t[2]))

RECURSIVE SumSide(_, _, _, _)
SumSide(A, ts, side, i) ==
  IF i > Len(ts) THEN ZeroV
  ELSE IF ts[i][3] = side THEN Add(TermVal(A, ts[i]), SumSide(A, ts, side, i + 1))
  ELSE SumSide(A, ts, side, i + 1)

LhsVal(A, ts) == SumSide(A, ts, "l", 1)
RhsVal(A, ts) == SumSide(A, ts, "r", 1)
\* the original expression
ExprVal(A, ts) == Add(LhsVal(A, ts), Neg(RhsVal(A, ts)))

\* the terms of the unknown after expansion: pairs <<term, monomial>>, with their signed coefficients
UIdx(ts) == {i \in DOMAIN ts : IsUTerm(ts[i])}
UParts(ts) == {<<i, j>> \in (DOMAIN ts) \X (1..4) : IsUTerm(ts[i]) /\ j <= Len(ts[i][1])}
PartCoef(A, ts, ij) == LET t == ts[ij[1]]  v == Eval(A, t[1][ij[2]]) IN IF t[3] = "l" THEN v ELSE Neg(v)

RECURSIVE SumCoefs(_, _, _)
SumCoefs(A, ts, S) == IF S = {} THEN IntS(0)
                      ELSE LET ij == CHOOSE q \in S : TRUE IN Add(PartCoef(A, ts, ij), SumCoefs(A, ts, S \ {ij}))

\* like terms: monomials of the unknown that differ by a numeric factor only (class <<>>: purely numeric
\* coefficients) or are the same monomial; a sum of terms always has them collected
IsNumProg(p) == \A i \in DOMAIN p : p[i][1] \in {"int", "neg", "muls", "pow"}
ClassOf(p) == IF IsNumProg(p) THEN <<>> ELSE p
PartClass(ts, ij) == ClassOf(ts[ij[1]][1][ij[2]])
UClasses(ts) == {PartClass(ts, ij) : ij \in UParts(ts)}
PartsOfClass(ts, c) == {ij \in UParts(ts) : PartClass(ts, ij) = c}
\* a class cancels structurally: numeric coefficients summing to 0, the same monomial as often left as right
ClassVanishes(A, ts, c) ==
  IF c = <<>> THEN IsZero(SumCoefs(A, ts, PartsOfClass(ts, c)))
  ELSE Cardinality({ij \in PartsOfClass(ts, c) : ts[ij[1]][3] = "l"})
       = Cardinality({ij \in PartsOfClass(ts, c) : ts[ij[1]][3] = "r"})
LiveClasses(A, ts) == {c \in UClasses(ts) : ~ClassVanishes(A, ts, c)}
PartsOfClasses(ts, S) == UNION {PartsOfClass(ts, c) : c \in S}

\* the coefficients "of that term": the expression is a sum of terms after expansion with like terms collected;
\* terms with different symbolic coefficients may or may not be collected further, so any non-empty group of the
\* unknown's collected terms is a term of the expression, with the sum of their coefficients
Divisors(A, ts) ==
  {k \in {SumCoefs(A, ts, PartsOfClasses(ts, S)) : S \in (SUBSET LiveClasses(A, ts)) \ {{}}} : ~IsU(k) /\ ~IsZero(k)}

\* what must happen: "refuse" (the vector is not a term, also when its like terms cancel), "equation", or "open"
\* (the coefficients of different terms of the unknown happen to cancel under this assignment: the statement does
\* not say whether the vector still occurs)
Expect(A, ts) ==
  IF LiveClasses(A, ts) = {} THEN "refuse"
  ELSE LET tot == SumCoefs(A, ts, PartsOfClasses(ts, LiveClasses(A, ts))) IN
       IF IsU(tot) \/ IsZero(tot) \/ IsU(ExprVal(A, ts)) THEN "open" ELSE "equation"

\* allowed values of (lhs - rhs) of the returned equation, from the original expression e and the divisors ks
AllowedOf(e, ks, reduce) ==
  IF reduce THEN UNION {{Mul(Inv(k), e), Neg(Mul(Inv(k), e))} : k \in ks}
  ELSE {e, Neg(e)}
Allowed(A, ts, reduce) == AllowedOf(ExprVal(A, ts), Divisors(A, ts), reduce)

\* "whenever the vector occurs in no other term the right-hand side is its solution": the unknown has exactly one
\* collected term and occurs neither inside another vector or coefficient nor in its own coefficient
HasU(p) == \E i \in DOMAIN p : p[i] = U
OccursOnce(A, ts) ==
  /\ Cardinality(LiveClasses(A, ts)) = 1
  /\ \A i \in DOMAIN ts : /\ \A q \in DOMAIN ts[i][1] : ~HasU(ts[i][1][q])
                          /\ (~IsUTerm(ts[i]) => ~HasU(ts[i][2]))
\* the solution  u = -(E - k u) / k
SolutionOf(A, ts) ==
  LET k == SumCoefs(A, ts, PartsOfClasses(ts, LiveClasses(A, ts)))
      rest == Add(ExprVal(A, ts), Neg(Mul(k, LeafVec(A, 1)))) IN
  Neg(Mul(Inv(k), rest))

\* the library writes the zero vector as the number 0
SameVal(p, q) == ValOf(p) = ValOf(q) \/ (IsZero(p) /\ IsZero(q))

\* verdict on a returned equation with side values l, r:  "ok" | "bad" | "un"
SolveVerdict(A, ts, reduce, l, r) ==
  LET d == Add(l, Neg(r))
      al == Allowed(A, ts, reduce) IN
  IF IsU(d) \/ \E v \in al : IsU(v) THEN "un"
  ELSE IF d \notin al THEN "bad"
  ELSE IF reduce /\ OccursOnce(A, ts)
       THEN (IF IsU(SolutionOf(A, ts)) THEN "un" ELSE IF SameVal(r, SolutionOf(A, ts)) THEN "ok" ELSE "bad")
  ELSE "ok"

\* functions applied to both sides
ApplyFn(A, fn, v) ==
  CASE fn = "dota"   -> Dot(v, LeafVec(A, 2))
    [] fn = "twice"  -> Mul(IntS(2), v)
    [] fn = "plusu"  -> Add(v, LeafVec(A, 1))
    [] fn = "norm"   -> NormV(v)
    [] fn = "crossb" -> Cross(v, LeafVec(A, 3))
    [] fn = "lin"    -> Add(Mul(LeafScal(A, 2), v), IntS(1))          \* scalar sides: y s + 1
    [] fn = "sq"     -> Mul(v, v)                                     \* scalar sides: s^2

ApplyVerdict(A, ts, fn, l, r) ==
  LET el == ApplyFn(A, fn, LhsVal(A, ts))
      er == ApplyFn(A, fn, RhsVal(A, ts)) IN
  IF IsU(el) \/ IsU(er) \/ IsU(l) \/ IsU(r) THEN "un"
  ELSE IF SameVal(l, el) /\ SameVal(r, er) THEN "ok" ELSE "bad"

\* a bare scalar expression e given to `apply` stands for e = 0: the result must be (f(e), f(0))
ApplyScalarVerdict(A, prog, fn, l, r) ==
  LET el == ApplyFn(A, fn, Eval(A, prog))
      er == ApplyFn(A, fn, IntS(0)) IN
  IF IsU(el) \/ IsU(er) \/ IsU(l) \/ IsU(r) THEN "un"
  ELSE IF SameVal(l, el) /\ SameVal(r, er) THEN "ok" ELSE "bad"

\* linear system  a11 x + a12 y = c1 t,  a21 x + a22 y = c2 t  and proposed values vx, vy of the unknowns
\* (an unknown that was not solved for keeps its assigned value)
SysResidual(A, sys, row, vx, vy) ==
  LET o == 3 * (row - 1) IN
  Add(Add(Mul(IntS(sys[o + 1]), vx), Mul(IntS(sys[o + 2]), vy)), Neg(Mul(IntS(sys[o + 3]), LeafScal(A, 3))))
\* sols: sequence of <<unknown index (1 = x, 2 = y), value program>>: every returned equation
SolvedVal(A, sols, k) ==
  IF \E i \in DOMAIN sols : sols[i][1] = k
  THEN Eval(A, sols[CHOOSE i \in DOMAIN sols : sols[i][1] = k /\ \A j \in 1..(i - 1) : sols[j][1] # k][2])
  ELSE LeafScal(A, k)
SystemVerdict(A, sys, sols) ==
  LET vx == SolvedVal(A, sols, 1)  vy == SolvedVal(A, sols, 2)
      r1 == SysResidual(A, sys, 1, vx, vy)  r2 == SysResidual(A, sys, 2, vx, vy) IN
  IF sols = <<>> \/ IsU(r1) \/ IsU(r2) THEN "un"
  ELSE IF IsZero(ValOf(r1)) /\ IsZero(ValOf(r2)) THEN "ok" ELSE "bad"

\* equations whose solution is a product / quotient of square roots, and a proposed solution s; sqrt of a negative
\* value is the principal root i sqrt(|.|), so that sqrt(y) sqrt(t) and sqrt(y t) differ when both are negative
\*   "prodsqrt":  x / sqrt(y) = sqrt(t)        "quotsqrt":  x sqrt(y) = sqrt(t)
PowerResidual(A, kind, s) ==
  LET ry == SqrtS(Eval(A, << Y >>))  rt == SqrtS(Eval(A, << T >>)) IN
  IF kind = "prodsqrt" THEN Add(Mul(s, Inv(ry)), Neg(rt)) ELSE Add(Mul(s, ry), Neg(rt))
PowerVerdict(A, kind, s) ==
  LET res == PowerResidual(A, kind, s) IN
  IF IsU(res) THEN "un" ELSE IF IsZero(ValOf(res)) THEN "ok" ELSE "bad"

\* scalar equation k2 x^2 + k1 x + k0 = 0 and a proposed solution s
Residual(A, ks, s) ==
  Add(Add(Mul(Eval(A, ks[1]), Mul(s, s)), Mul(Eval(A, ks[2]), s)), Eval(A, ks[3]))
ScalarVerdict(A, ks, s) ==
  LET res == Residual(A, ks, s) IN
  IF IsU(res) THEN "un" ELSE IF IsZero(ValOf(res)) THEN "ok" ELSE "bad"

\* radical equation sqrt(p x + q) = x + r (ks = programs of p, q, r) and a proposed solution s: squaring
\* introduces roots that do not satisfy the equation itself
RadResidual(A, ks, s) ==
  Add(SqrtS(Add(Mul(Eval(A, ks[1]), s), Eval(A, ks[2]))), Neg(Add(s, Eval(A, ks[3]))))
RadicalVerdict(A, ks, s) ==
  LET res == RadResidual(A, ks, s) IN
  IF IsU(res) THEN "un" ELSE IF IsZero(ValOf(res)) THEN "ok" ELSE "bad"

-----------------------------------------------------------------------------
(* The machine enumerating the shapes.                                       *)

NotDone == [done |-> FALSE, op |-> "none", form |-> "none", reduce |-> FALSE, fn |-> "none"]
Init == mode = "start" /\ terms = <<>> /\ fin = NotDone

KindIsU(i) == TermKinds[i][2] = "u"
NU == Cardinality({j \in DOMAIN terms : KindIsU(terms[j])})

AddTerm(i) ==
  /\ mode \in {"start", "vec"} /\ ~fin.done
  /\ Len(terms) < MaxTerms
  /\ (terms # <<>> => i > terms[Len(terms)])
  /\ (KindIsU(i) => NU < MaxU)
  /\ mode' = "vec" /\ terms' = Append(terms, i) /\ UNCHANGED fin

\* the forms eqS / eqSS write the equation as  u = ...  and need the term 1*u (kind 1 of TermKinds)
HasPlainU == terms # <<>> /\ terms[1] = 1 /\ TermKinds[1] = <<"one", "u">>
FinishSolve(form, reduce) ==
  /\ mode = "vec" /\ ~fin.done
  /\ (form \in {"eqS", "eqSS"} => HasPlainU)
  /\ fin' = [done |-> TRUE, op |-> "solve", form |-> form, reduce |-> reduce, fn |-> "none"]
  /\ UNCHANGED <<mode, terms>>

FinishApply(form, fn) ==
  /\ mode = "vec" /\ ~fin.done /\ Len(terms) <= ApplyMaxTerms /\ form \notin {"eqS", "eqSS"}
  /\ fin' = [done |-> TRUE, op |-> "apply", form |-> form, reduce |-> FALSE, fn |-> fn]
  /\ UNCHANGED <<mode, terms>>

NonVector(kind, form) ==
  /\ mode = "start" /\ form \in {"expr", "eqL", "eqS"}            \* eqS: Eq(u, non-vector expression)
  /\ mode' = "nonvec" /\ terms' = <<kind>>
  /\ fin' = [done |-> TRUE, op |-> "solve", form |-> form, reduce |-> TRUE, fn |-> "none"]

ScalarEq(k2, k1, k0, form) ==
  /\ mode = "start" /\ form \in {"expr", "eqL", "eqO"}
  /\ ~(k2 = "zero" /\ k1 = "zero")
  /\ mode' = "scalar" /\ terms' = <<k2, k1, k0>>
  /\ fin' = [done |-> TRUE, op |-> "solve_scalar", form |-> form, reduce |-> FALSE, fn |-> "none"]

RadicalEq(pqr, form) ==
  /\ mode = "start" /\ form \in {"expr", "eqO"}
  /\ mode' = "radical" /\ terms' = pqr
  /\ fin' = [done |-> TRUE, op |-> "solve_radical", form |-> form, reduce |-> FALSE, fn |-> "none"]

PowerEq(kind, form) ==
  /\ mode = "start" /\ form \in {"expr", "eqO"}
  /\ mode' = "power" /\ terms' = <<kind>>
  /\ fin' = [done |-> TRUE, op |-> "solve_power", form |-> form, reduce |-> FALSE, fn |-> "none"]

\* `apply` on a bare scalar expression (top node dot, norm, sum, symbol) or on Eq(expression, 0)
ApplyScalar(kind, form, fn) ==
  /\ mode = "start" /\ form \in {"expr", "eqL"} /\ kind \in ScalarExprKinds
  /\ mode' = "nonvec" /\ terms' = <<kind>>
  /\ fin' = [done |-> TRUE, op |-> "apply", form |-> form, reduce |-> FALSE, fn |-> fn]

\* a linear system solved for the unknowns listed in req (a sequence over {1 = x, 2 = y})
SystemEq(sys, req) ==
  /\ mode = "start"
  /\ (sys[4] = 0 /\ sys[5] = 0 /\ sys[6] = 0) \/ Len(req) = 2          \* two equations: both unknowns requested
  /\ mode' = "system" /\ terms' = <<sys, req>>
  /\ fin' = [done |-> TRUE, op |-> "solve_system", form |-> "eqL", reduce |-> FALSE, fn |-> "none"]

Next == \/ \E pqr \in RadicalEqs, f \in Forms : RadicalEq(pqr, f)
        \/ \E k \in PowerEqs, f \in Forms : PowerEq(k, f)
        \/ \E sys \in Systems, req \in {<<1>>, <<2>>, <<1, 2>>, <<2, 1>>} : SystemEq(sys, req)
        \/ \E k \in NonVecKinds, f \in Forms, g \in ScalApplyFns : ApplyScalar(k, f, g)
        \/ \E i \in DOMAIN TermKinds : AddTerm(i)
        \/ \E f \in Forms, r \in BOOLEAN : FinishSolve(f, r)
        \/ \E f \in Forms, g \in ApplyFns : FinishApply(f, g)
        \/ \E k \in NonVecKinds, f \in Forms : NonVector(k, f)
        \/ \E k2 \in ScalK2, k1 \in ScalK1, k0 \in ScalK0, f \in Forms : ScalarEq(k2, k1, k0, f)

Spec == Init /\ [][Next]_vars

\* state constraint of shard ShardI: equations whose first term has index = ShardI mod ShardK; the non-vector
\* and scalar shapes belong to shard 0
InShard == IF mode = "vec" THEN terms[1] % ShardK = ShardI
           ELSE IF mode = "start" THEN TRUE ELSE ShardI = 0

\* how an equation is written: which side each term is on
\*   expr: an expression (all terms left, no Eq)      eqL: Eq(all terms, 0)
\*   eqU : Eq(terms of the unknown, the others)       eqO: Eq(the others, terms of the unknown)
\*   eqS : Eq(u, all other terms - also further terms of the unknown)
\*   eqSS: Eq(u, u + all other terms)   (the unknown cancels unless it has further terms)
\* (a term written on the right of Eq enters the original expression negated)
SideOf(form, i) == CASE form \in {"expr", "eqL"} -> "l"
                     [] form = "eqU" -> (IF KindIsU(i) THEN "l" ELSE "r")
                     [] form = "eqO" -> (IF KindIsU(i) THEN "r" ELSE "l")
                     [] form \in {"eqS", "eqSS"} -> (IF i = 1 THEN "l" ELSE "r")
TermsAs(form) == [j \in DOMAIN terms |->
                    <<CoefParts(TermKinds[terms[j]][1]), VecProg[TermKinds[terms[j]][2]], SideOf(form, terms[j])>>]
                 \o (IF form = "eqSS" THEN << <<CoefParts("one"), VecProg["u"], "r">> >> ELSE <<>>)
Ts == TermsAs(fin.form)
ScalProgs == <<CoefProg[terms[1]], CoefProg[terms[2]], CoefProg[terms[3]]>>
RadProgs == << << <<"int", terms[1]>> >>, << <<"int", terms[2]>> >>, << <<"int", terms[3]>> >> >>

-----------------------------------------------------------------------------
(* Properties of the model itself.                                           *)

Def(v) == ~IsU(v)
VecDone == mode = "vec" /\ fin.done

\* moving a term to the other side of Eq with its coefficient negated does not change the equation
Moved(ts, j) == [ts EXCEPT ![j] = <<[q \in DOMAIN ts[j][1] |-> Append(ts[j][1][q], <<"neg", 0>>)], ts[j][2],
                                    IF ts[j][3] = "l" THEN "r" ELSE "l">>]
MoveNegates == (VecDone /\ fin.op = "solve" /\ fin.reduce) => \A i \in 1..NA :
  LET ts == Ts  e == ExprVal(Assigns[i], ts) IN
  \A j \in DOMAIN ts : LET em == ExprVal(Assigns[i], Moved(ts, j)) IN (Def(e) /\ Def(em)) => e = em

\* every allowed rearrangement is equivalent to the original equation, and with reduction on it
\* differs from it by the division by one of the unknown's coefficients
Equivalent == (VecDone /\ fin.op = "solve") => \A i \in 1..NA :
  LET A == Assigns[i]
      ts == Ts
      e == ExprVal(A, ts)
      ks == Divisors(A, ts)
      al == AllowedOf(e, ks, fin.reduce) IN
  (Expect(A, ts) = "equation") =>
     /\ al # {}
     /\ \A d \in al : Def(d) => (IsZero(d) <=> IsZero(e))
     /\ (fin.reduce => \A d \in al : Def(d) => \E k \in ks : Mul(k, d) = e \/ Mul(k, d) = Neg(e))

\* when the unknown occurs in exactly one term and nowhere else, the right-hand side u = -(E - k u)/k
\* of the reduced rearrangement is its solution: substituted for u it makes the expression vanish, the
\* rearrangement  u = solution  is accepted by the verdict and the trivial  u = u  is not
Solution == (VecDone /\ fin.op = "solve" /\ fin.reduce) => \A i \in 1..NA :
  LET A == Assigns[i]  ts == Ts IN
  (Expect(A, ts) = "equation" /\ OccursOnce(A, ts)) =>
    LET k == SumCoefs(A, ts, PartsOfClasses(ts, LiveClasses(A, ts)))
        rest == Add(ExprVal(A, ts), Neg(Mul(k, LeafVec(A, 1))))
        sol == SolutionOf(A, ts)
    IN  (Def(sol) /\ Def(rest)) =>
          /\ LET back == Add(Mul(k, sol), rest) IN Def(back) => IsZero(back)
          /\ SolveVerdict(A, ts, TRUE, LeafVec(A, 1), sol) \in {"ok", "un"}
          /\ (~IsZero(ExprVal(A, ts)) => SolveVerdict(A, ts, TRUE, LeafVec(A, 1), LeafVec(A, 1)) \in {"bad", "un"})

\* refusal when the unknown is not written as a term, and only when its total coefficient is zero
RefusalRule == (VecDone /\ fin.op = "solve") => \A i \in 1..NA :
  LET ts == Ts IN
  /\ (\A j \in DOMAIN ts : ~IsUTerm(ts[j])) => Expect(Assigns[i], ts) = "refuse"
  /\ (Expect(Assigns[i], ts) = "refuse" /\ UParts(ts) # {}) => IsZero(SumCoefs(Assigns[i], ts, UParts(ts)))

\* every system of the configuration is solved by Cramer's rule in the model, and swapping the two values is not
\* a solution (so that an answer pairing the unknowns with each other's values is told apart)
SystemsMeaningful == mode = "system" => \A i \in 1..NA :
  LET A == Assigns[i]  sys == terms[1]
      det == sys[1] * sys[5] - sys[2] * sys[4] IN
  (det # 0) =>
    LET t == LeafScal(A, 3)
        vx == Mul(Mul(IntS(sys[3] * sys[5] - sys[2] * sys[6]), Inv(IntS(det))), t)
        vy == Mul(Mul(IntS(sys[1] * sys[6] - sys[3] * sys[4]), Inv(IntS(det))), t)
    IN /\ IsZero(SysResidual(A, sys, 1, vx, vy)) /\ IsZero(SysResidual(A, sys, 2, vx, vy))
       /\ ~(IsZero(SysResidual(A, sys, 1, vy, vx)) /\ IsZero(SysResidual(A, sys, 2, vy, vx)))

\* every radical equation of the configuration has a root in the model (the enumeration is not vacuous) and a
\* root of the squared equation that is not a root of the equation (what a solver without back-substitution returns)
RadicalsMeaningful == mode = "radical" => \A i \in 1..NA :
  /\ \E c \in -12..12 : RadicalVerdict(Assigns[i], RadProgs, IntS(c)) = "ok"
  /\ \E c \in -12..12 : /\ RadicalVerdict(Assigns[i], RadProgs, IntS(c)) = "bad"
                         /\ terms[1] * c + terms[2] = (c + terms[3]) * (c + terms[3])

\* the merged root sqrt(y t) (resp. sqrt(t / y)) is a solution for positive values and is not for some assignment
\* of the configuration: the equations tell the two apart
PowersMeaningful == mode = "power" =>
  LET merged(A) == IF terms[1] = "prodsqrt" THEN SqrtS(Mul(Eval(A, << Y >>), Eval(A, << T >>)))
                   ELSE SqrtS(Mul(Eval(A, << T >>), Inv(Eval(A, << Y >>))))
      split(A)  == IF terms[1] = "prodsqrt" THEN Mul(SqrtS(Eval(A, << Y >>)), SqrtS(Eval(A, << T >>)))
                   ELSE Mul(SqrtS(Eval(A, << T >>)), Inv(SqrtS(Eval(A, << Y >>)))) IN
  /\ \A i \in 1..NA : PowerVerdict(Assigns[i], terms[1], split(Assigns[i])) = "ok"
  /\ \E i \in 1..NA : PowerVerdict(Assigns[i], terms[1], merged(Assigns[i])) = "bad"

TypeOK == /\ mode \in {"start", "vec", "nonvec", "scalar", "radical", "system", "power"}
          /\ fin.done \in BOOLEAN
          /\ (mode = "vec" => \A j \in DOMAIN terms : terms[j] \in DOMAIN TermKinds)

-----------------------------------------------------------------------------
(* Emission (spec -> code).                                                  *)
ExpectRec(A) ==
  LET ts == Ts IN
  IF fin.op = "apply"
  THEN [kind |-> "apply", al |-> ApplyFn(A, fin.fn, LhsVal(A, ts)), ar |-> ApplyFn(A, fin.fn, RhsVal(A, ts))]
  ELSE [kind |-> Expect(A, ts), e |-> ExprVal(A, ts), ks |-> Divisors(A, ts),
        sol |-> IF fin.reduce /\ Expect(A, ts) = "equation" /\ OccursOnce(A, ts) THEN SolutionOf(A, ts) ELSE Undef]
ScalApplyRec(A) ==
  [kind |-> "apply", al |-> ApplyFn(A, fin.fn, Eval(A, NonVecProg[terms[1]])), ar |-> ApplyFn(A, fin.fn, IntS(0))]
Emit ==
  fin.done =>
    PrintT(ToJson(
      [mode |-> mode, op |-> fin.op, form |-> fin.form, reduce |-> fin.reduce, fn |-> fin.fn,
       ts |-> IF mode = "vec" THEN Ts ELSE IF mode = "nonvec" THEN <<NonVecProg[terms[1]]>>
              ELSE IF mode = "radical" THEN RadProgs ELSE IF mode \in {"system", "power"} THEN terms ELSE ScalProgs,
       exp |-> IF mode = "vec" THEN [i \in 1..NA |-> ExpectRec(Assigns[i])]
               ELSE IF mode = "nonvec" /\ fin.op = "apply" THEN [i \in 1..NA |-> ScalApplyRec(Assigns[i])] ELSE <<>>]))
=============================================================================
