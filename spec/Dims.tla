------------------------------- MODULE Dims -------------------------------
(* Physical dimensions as exponent vectors over the seven SI base           *)
(* dimensions plus the separate "angle" dimension that symplyphysics uses   *)
(* on declarations.  Exponents are exact rationals (Rat).                   *)
(*                                                                          *)
(*   Same(a, b)   - identical exponent vectors: the equivalence the         *)
(*                  quantity/expression collectors use (C05, C06)           *)
(*   Equiv(a, b)  - identical after erasing the angle exponent: the         *)
(*                  equivalence of the gate, conversion and the oracle      *)
(*                  (C01, C04, C07, C08): "angles count as dimensionless"   *)
EXTENDS Rat

Base == {"L", "M", "T", "I", "K", "N", "J", "A"}     \* "A" = angle

D1 == [k \in Base |-> RZero]                          \* dimensionless
BaseDim(b) == [k \in Base |-> IF k = b THEN ROne ELSE RZero]
DMul(a, b) == [k \in Base |-> RAdd(a[k], b[k])]
DPow(a, r) == [k \in Base |-> RMul(a[k], r)]
DInv(a)    == [k \in Base |-> RNeg(a[k])]
DDiv(a, b) == DMul(a, DInv(b))
Erase(a)   == [k \in Base |-> IF k = "A" THEN RZero ELSE a[k]]
Same(a, b)  == a = b
Equiv(a, b) == Erase(a) = Erase(b)
Dimless(a)  == a = D1
DimlessUpToAngle(a) == Erase(a) = D1
DimSmall(a) == \A k \in Base : Tiny(a[k])

\* convenient constructor from three exponents (L, M, T) and an angle exponent
LMT(l, m, t, an) == [k \in Base |->
    CASE k = "L" -> l [] k = "M" -> m [] k = "T" -> t [] k = "A" -> an [] OTHER -> RZero]
=============================================================================
