-------------------------- MODULE PrintEvalTrace --------------------------
(* code -> spec for C17 / C18.                                              *)
(* The harness records, for every formula it rendered with the real         *)
(* printer, the pair (program of the original tree, program obtained by     *)
(* reading the rendering back).  TLC evaluates both programs with the       *)
(* semantics of PrintEval at pseudo-random points of both prime fields and  *)
(* requires equal values; the verdict of every pair is printed.             *)
(*                                                                          *)
(* Points: candidate k of a pair is PointOf(p, seed, k, n) (all coordinates *)
(* non-zero).  A candidate at which one of the two programs is undefined    *)
(* (zero denominator mod p) is skipped and the next one is drawn; a pair    *)
(* needs Need decided points per prime, otherwise it is UNDEC (never an     *)
(* alarm).  Any decided point with different values is a FAIL.              *)
EXTENDS PrintEval, IOUtils

\* array of [id, seed, n, a, b]: a, b programs (sequences of <<op, x, y>>), n symbols
Pairs == JsonDeserialize(IOEnv.TRACE_FILE)

NCand == 5      \* candidate points per prime
Need  == 2      \* decided points required per prime

VARIABLE t
tvars == <<t, stack, prog>>

RECURSIVE Scan(_, _, _, _)
\* <<"pass">> | <<"undec", decided>> | <<"fail", k, value of a, value of b>>
Scan(pr, pi, k, got) ==
  IF got = Need THEN <<"pass">>
  ELSE IF k > NCand THEN <<"undec", got>>
  ELSE LET p  == Primes[pi]
           pt == PointOf(p, pr.seed, k, pr.n)
           va == Value(p, pt, pr.a)
           vb == Value(p, pt, pr.b)
       IN  IF va = Undef \/ vb = Undef THEN Scan(pr, pi, k + 1, got)
           ELSE IF va # vb THEN <<"fail", k, va, vb>>
           ELSE Scan(pr, pi, k + 1, got + 1)

Verdict(pr) ==
  LET r1 == Scan(pr, 1, 1, 0)
      r2 == Scan(pr, 2, 1, 0)
  IN  IF r1[1] = "fail" THEN <<"FAIL", pr.id, Primes[1], r1[2], r1[3], r1[4]>>
      ELSE IF r2[1] = "fail" THEN <<"FAIL", pr.id, Primes[2], r2[2], r2[3], r2[4]>>
      ELSE IF r1[1] = "undec" \/ r2[1] = "undec" THEN <<"UNDEC", pr.id>>
      ELSE <<"PASS", pr.id>>

TraceInit == t = 1 /\ stack = <<>> /\ prog = <<>>
TraceNext == t <= Len(Pairs) /\ t' = t + 1 /\ UNCHANGED <<stack, prog>>

\* side-effect invariant: one verdict line per recorded pair
Report == t <= Len(Pairs) => PrintT(Verdict(Pairs[t]))
=============================================================================
