----------------------------- MODULE Integrals -----------------------------
(* C13: circulation and flux integrals (Stokes, Green, Gauss).              *)
(*                                                                          *)
(* Exact integrals of polynomial fields (Poly / FieldOps) over              *)
(*   ell  : the ellipse with centre (c1, c2) in the plane z = c3 and        *)
(*          semi-axes s1, s2 (a circle when s1 = s2); its boundary is run   *)
(*          through as (c1 + s1 cos t, c2 + s2 sin t), so it is positively  *)
(*          oriented iff s1 * s2 > 0                                        *)
(*   rect : [c1, s1] x [c2, s2] in the plane z = c3, boundary run through   *)
(*          (c1,c2) -> (s1,c2) -> (s1,s2) -> (c1,s2)                        *)
(*   box  : [c1, s1] x [c2, s2] x [c3, s3]                                  *)
(* A value is q + p * pi with q, p rational: [q |-> Rat, p |-> Rat].        *)
(*                                                                          *)
(* What the statement of C13 requires of the library's functions is         *)
(*   circulation (along the curve, or from the curl over a surface spanned  *)
(*     by it)            = CircByStokes  = integral of (curl F)_z           *)
(*   outward flux across the closed planar curve                            *)
(*                       = FluxByGreen   = integral of dF1/dx + dF2/dy      *)
(*   flux out of the box = FluxByGauss   = integral of div F                *)
(* independent of the speed of the parametrisation, negated when the        *)
(* orientation is reversed.  The area integrals use the moment table of the *)
(* ellipse; the model ALSO computes the line / face integrals directly      *)
(* (Wallis' table for the ellipse, one-dimensional integrals for edges and  *)
(* faces) and TLC checks that both sides of each theorem agree, that        *)
(* reversal negates and that the speed cancels, on every state.             *)
EXTENDS FieldOps

CONSTANT Regions     \* the regions of this configuration (a subset of AllRegions)

VARIABLE reg
ivars == <<kind, fld, terms, reg>>

-----------------------------------------------------------------------------
(* values q + p*pi *)
Val(q, p)    == [q |-> q, p |-> p]
VRat(q)      == Val(q, RZero)
VPi(p)       == Val(RZero, p)
ValAdd(a, b) == Val(RAdd(a.q, b.q), RAdd(a.p, b.p))
ValNeg(a)    == Val(RNeg(a.q), RNeg(a.p))

Region(k, c, s) == [k |-> k, c |-> c, s |-> s]
T3(a, b, c) == <<R(a), R(b), R(c)>>

AllRegions == [
  circle1  |-> Region("ell", T3(0, 0, 0), T3(1, 1, 0)),
  circle2  |-> Region("ell", T3(0, 0, 0), T3(2, 2, 0)),
  circle3  |-> Region("ell", T3(0, 0, 0), T3(3, 3, 0)),
  ellipse  |-> Region("ell", T3(0, 0, 0), T3(2, 3, 0)),
  ellipseC |-> Region("ell", T3(1, -1, 0), T3(2, 3, 0)),      \* off-centre: odd moments do not vanish
  circleH  |-> Region("ell", T3(1, 0, 1), T3(2, 2, 0)),       \* in the plane z = 1
  rect     |-> Region("rect", T3(0, 0, 0), T3(2, 3, 0)),
  rectH    |-> Region("rect", T3(-1, 1, 2), T3(2, 3, 0)),     \* in the plane z = 2
  box      |-> Region("box", T3(0, 0, 0), T3(1, 2, 3)),
  boxC     |-> Region("box", T3(-1, 1, -2), T3(2, 3, -1))
]
RegionsAll   == {AllRegions[n] : n \in DOMAIN AllRegions}
RegionsQuick == {AllRegions[n] : n \in {"circle2", "ellipseC", "circleH", "rect", "rectH", "boxC"}}

\* the same point set with the opposite orientation
Rev(r) == IF r.k = "ell" THEN [r EXCEPT !.s = <<r.s[1], RNeg(r.s[2]), r.s[3]>>]
          ELSE [r EXCEPT !.c = <<r.s[1], r.c[2], r.c[3]>>, !.s = <<r.c[1], r.s[2], r.s[3]>>]

-----------------------------------------------------------------------------
(* area and volume integrals *)
RECURSIVE DF(_)
DF(n) == IF n <= 0 THEN 1 ELSE n * DF(n - 2)                 \* double factorial, (-1)!! = 0!! = 1

\* moment table of the unit disc:  int x^i y^j dA = EllMoment(i, j) * pi
EllMoment(i, j) == IF i % 2 = 1 \/ j % 2 = 1 THEN RZero
                   ELSE Norm(DF(i - 1) * DF(j - 1), IPow(2, (i + j) \div 2) * Fact((i + j) \div 2 + 1))

\* coefficient of pi of the integral of p over the ellipse (signed with the orientation)
IntEllipse(p, r) ==
  LET q == PForce(PShift(p, r.c)) IN
  RSum(LAMBDA e : RMul(q[e], RMul(RMul(RPow(r.s[1], e[1] + 1), RPow(r.s[2], e[2] + 1)), EllMoment(e[1], e[2]))),
       {e \in Supp(q) : e[3] = 0})

IntRect(p, r) ==
  RSum(LAMBDA e : RMul(p[e], RMul(RMul(Int1(e[1], r.c[1], r.s[1]), Int1(e[2], r.c[2], r.s[2])), RPow(r.c[3], e[3]))),
       Supp(p))

IntRegion(p, r) == CASE r.k = "ell"  -> VPi(IntEllipse(p, r))
                     [] r.k = "rect" -> VRat(IntRect(p, r))
                     [] r.k = "box"  -> VRat(PIntBox(p, r.c, r.s))

Div2(F) == PAdd(PDiff(F[1], 1), PDiff(F[2], 2))

CircByStokes(F, r) == IntRegion(PForce(Curl(F)[3]), r)        \* r planar
FluxByGreen(F, r)  == IntRegion(PForce(Div2(F)), r)           \* r planar
FluxByGauss(F, r)  == IntRegion(PForce(Div(F)), r)            \* r a box

\* a planar problem: the field has no z component and does not depend on z, the region lies in z = 0
Planar(F, r) == /\ r.k # "box" /\ r.c[3] = RZero /\ F[3] = PZero
                /\ \A i \in 1..2 : \A e \in Supp(F[i]) : e[3] = 0

Expected(fn, F, r) == CASE fn = "circ"  -> CircByStokes(F, r)
                        [] fn = "flux2" -> FluxByGreen(F, r)
                        [] fn = "flux3" -> FluxByGauss(F, r)

-----------------------------------------------------------------------------
(* the other side of each theorem, computed directly *)

\* Wallis: int_0^2pi cos^m t sin^n t dt = Wallis(m, n) * pi
Wallis(m, n) == IF m % 2 = 1 \/ n % 2 = 1 THEN RZero ELSE Norm(2 * DF(m - 1) * DF(n - 1), DF(m + n))

\* sum over the terms of q of  q[e] * a^e1 * b^e2 * fac * Wallis(e1 + dm, e2 + dn)   (plane w = 0)
EllLine(q, r, fac, dm, dn) ==
  RSum(LAMBDA e : RMul(RMul(q[e], fac), RMul(RMul(RPow(r.s[1], e[1]), RPow(r.s[2], e[2])), Wallis(e[1] + dm, e[2] + dn))),
       {e \in Supp(q) : e[3] = 0})

\* the curve (c1 + a cos kt, c2 + b sin kt), 0 <= t <= 2 pi / k:  dl = (-a k sin kt, b k cos kt) dt and
\* int_0^(2pi/k) cos^m(kt) sin^n(kt) dt = Wallis(m, n) pi / k
EllCirc(F, r, k) ==
  LET G1 == PForce(PShift(F[1], r.c))  G2 == PForce(PShift(F[2], r.c)) IN
  VPi(RAdd(RDiv(EllLine(G1, r, RMul(RNeg(r.s[1]), k), 0, 1), k), RDiv(EllLine(G2, r, RMul(r.s[2], k), 1, 0), k)))
\* outward normal times ds = (y', -x') dt = (b k cos kt, a k sin kt) dt
EllFlux(F, r, k) ==
  LET G1 == PForce(PShift(F[1], r.c))  G2 == PForce(PShift(F[2], r.c)) IN
  VPi(RAdd(RDiv(EllLine(G1, r, RMul(r.s[2], k), 1, 0), k), RDiv(EllLine(G2, r, RMul(r.s[1], k), 0, 1), k)))

\* edges of a rectangle in the plane z = h: integral of p(x, y0, h) dx from xa to xb, of p(x0, y, h) dy from ya to yb
EdgeX(p, y0, h, xa, xb) == RSum(LAMBDA e : RMul(RMul(p[e], RMul(RPow(y0, e[2]), RPow(h, e[3]))), Int1(e[1], xa, xb)), Supp(p))
EdgeY(p, x0, h, ya, yb) == RSum(LAMBDA e : RMul(RMul(p[e], RMul(RPow(x0, e[1]), RPow(h, e[3]))), Int1(e[2], ya, yb)), Supp(p))

RectCirc(F, r) ==
  LET x0 == r.c[1]  y0 == r.c[2]  x1 == r.s[1]  y1 == r.s[2]  h == r.c[3] IN
  VRat(RAdd(RAdd(EdgeX(F[1], y0, h, x0, x1), EdgeY(F[2], x1, h, y0, y1)),
            RAdd(EdgeX(F[1], y1, h, x1, x0), EdgeY(F[2], x0, h, y1, y0))))
\* outward normals of a counter-clockwise rectangle: -y (bottom), +x (right), +y (top), -x (left)
RectFlux(F, r) ==
  LET x0 == r.c[1]  y0 == r.c[2]  x1 == r.s[1]  y1 == r.s[2]  h == r.c[3] IN
  VRat(RAdd(RAdd(RNeg(EdgeX(F[2], y0, h, x0, x1)), EdgeY(F[1], x1, h, y0, y1)),
            RAdd(EdgeX(F[2], y1, h, x0, x1), RNeg(EdgeY(F[1], x0, h, y0, y1)))))

\* flux of F through the face x_v = val of the box (normal +e_v)
Face(F, r, v, val) ==
  LET lo == [w \in 1..3 |-> IF w = v THEN RZero ELSE r.c[w]]
      hi == [w \in 1..3 |-> IF w = v THEN ROne ELSE r.s[w]]
  IN  PIntBox(PForce(PRestrict(F[v], v, val)), lo, hi)
BoxFaces(F, r) ==
  VRat(RAdd(RAdd(RSub(Face(F, r, 1, r.s[1]), Face(F, r, 1, r.c[1])), RSub(Face(F, r, 2, r.s[2]), Face(F, r, 2, r.c[2]))),
            RSub(Face(F, r, 3, r.s[3]), Face(F, r, 3, r.c[3]))))

-----------------------------------------------------------------------------
(* the state space: vector fields of FieldOps x regions *)
\* (starts from the zero field so that TLC's workers share the basis fields)
IInit == kind = "v" /\ fld = VZero /\ terms = <<>> /\ reg \in Regions
INext == /\ Len(terms) < MaxTerms
         /\ \E b \in BasisV(MaxDeg) :
              /\ IF terms = <<>> THEN TRUE ELSE Idx(b) >= Idx(terms[Len(terms)])
              /\ fld' = VAdd(fld, FieldOf(b))
              /\ terms' = Append(terms, b)
         /\ UNCHANGED <<kind, reg>>

Stokes == CASE reg.k = "ell"  -> EllCirc(fld, reg, ROne) = CircByStokes(fld, reg)
            [] reg.k = "rect" -> RectCirc(fld, reg) = CircByStokes(fld, reg)
            [] OTHER -> TRUE
Green  == CASE reg.k = "ell"  -> EllFlux(fld, reg, ROne) = FluxByGreen(fld, reg)
            [] reg.k = "rect" -> RectFlux(fld, reg) = FluxByGreen(fld, reg)
            [] OTHER -> TRUE
Gauss  == reg.k = "box" => BoxFaces(fld, reg) = FluxByGauss(fld, reg)

Fns(r) == IF r.k = "box" THEN {"flux3"} ELSE {"circ", "flux2"}
ReverseNegates ==
  /\ \A fn \in Fns(reg) : Expected(fn, fld, Rev(reg)) = ValNeg(Expected(fn, fld, reg))
  /\ CASE reg.k = "ell"  -> /\ EllCirc(fld, Rev(reg), ROne) = ValNeg(EllCirc(fld, reg, ROne))
                            /\ EllFlux(fld, Rev(reg), ROne) = ValNeg(EllFlux(fld, reg, ROne))
       [] reg.k = "rect" -> /\ RectCirc(fld, Rev(reg)) = ValNeg(RectCirc(fld, reg))
                            /\ RectFlux(fld, Rev(reg)) = ValNeg(RectFlux(fld, reg))
       [] OTHER -> BoxFaces(fld, Rev(reg)) = ValNeg(BoxFaces(fld, reg))
SpeedCancels ==
  reg.k = "ell" => \A k \in {R(2), R(3), <<1, 2>>} :
                      /\ EllCirc(fld, reg, k) = EllCirc(fld, reg, ROne)
                      /\ EllFlux(fld, reg, k) = EllFlux(fld, reg, ROne)
\* any surface spanned by the curve gives the same circulation: (curl F) has no sources (DivCurlZero of FieldOps)

ValOK(v) == IsRat(v.q) /\ IsRat(v.p)
ITypeOK == /\ TypeOK /\ reg \in Regions
           /\ \A fn \in Fns(reg) : ValOK(Expected(fn, fld, reg))

-----------------------------------------------------------------------------
(* emission (spec -> code): expected values of every function for the field and the region *)
IEmit == Emitted =>
  PrintT(ToJson(
    IF reg.k = "box"
    THEN [terms |-> terms, reg |-> reg,
          flux3 |-> Expected("flux3", fld, reg), flux3rev |-> Expected("flux3", fld, Rev(reg))]
    ELSE [terms |-> terms, reg |-> reg, planar |-> IF Planar(fld, reg) THEN 1 ELSE 0,
          circ |-> Expected("circ", fld, reg), circrev |-> Expected("circ", fld, Rev(reg)),
          flux2 |-> Expected("flux2", fld, reg), flux2rev |-> Expected("flux2", fld, Rev(reg))]))
=============================================================================
